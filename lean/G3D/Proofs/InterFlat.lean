import G3D.Model.InterFlat
import G3D.Proofs.Flat
import G3D.Proofs.Solver2

namespace G3D
open V3

/-! ### denotation of results -/
def Geo.den : Geo → V3 → Prop
  | .point p => fun x => x = p
  | .line l => l.den
  | .plane pl => pl.den
  | .seg s => s.den
  | .halfline h => h.den

def Geo.WF : Geo → Prop
  | .point _ => True
  | .line l => l.WF
  | .plane pl => pl.WF
  | .seg s => s.WF
  | .halfline h => h.WF

def denOpt : Option Geo → V3 → Prop
  | none => fun _ => False
  | some g => g.den

/-- `r` is a well-formed object denoting exactly `A ∩ B` (or `None` when that is empty) -/
def Exact (r : Res) (A B : V3 → Prop) : Prop :=
  ∃ o, r = .ok o ∧ (∀ g, o = some g → g.WF) ∧ ∀ x, denOpt o x ↔ (A x ∧ B x)

theorem Exact.mk_none {A B : V3 → Prop} (h : ∀ x, ¬ (A x ∧ B x)) : Exact (.ok none) A B :=
  ⟨none, rfl, (fun g hg => by cases hg), fun x => by simp only [denOpt, false_iff]; exact h x⟩

theorem Exact.mk_some {A B : V3 → Prop} (g : Geo) (hw : g.WF) (h : ∀ x, g.den x ↔ (A x ∧ B x)) :
    Exact (.ok (some g)) A B :=
  ⟨some g, rfl, (fun g' hg => by cases hg; exact hw), fun x => by simpa only [denOpt] using h x⟩

/-! ### vector facts -/
theorem exists_smul_of_cross_zero {u v : V3} (hv : v ≠ zero) (h : cross u v = zero) :
    u = smul (dot u v / normSq v) v := by
  have hn : normSq v ≠ 0 := ne_of_gt (normSq_pos hv)
  have hx := congrArg V3.x h
  have hy := congrArg V3.y h
  have hz := congrArg V3.z h
  simp [cross, zero] at hx hy hz
  have key : ∀ a b : Rat, a * normSq v = b → a = b / normSq v := by
    intro a b hab; rw [eq_div_iff hn]; exact hab
  apply V3.ext'
  · have := key u.x (dot u v * v.x) (by simp [normSq, dot]; linear_combination v.y * hz - v.z * hy)
    simp only [smul]; rw [div_mul_eq_mul_div]; exact this
  · have := key u.y (dot u v * v.y) (by simp [normSq, dot]; linear_combination v.z * hx - v.x * hz)
    simp only [smul]; rw [div_mul_eq_mul_div]; exact this
  · have := key u.z (dot u v * v.z) (by simp [normSq, dot]; linear_combination v.x * hy - v.y * hx)
    simp only [smul]; rw [div_mul_eq_mul_div]; exact this

theorem parallel_smul (k : Rat) (v : V3) : V3.parallel (smul k v) v = true := by
  rw [parallel_iff_cross]; apply V3.ext' <;> simp [cross, smul, zero] <;> ring

theorem smul_ne_zero_left {k : Rat} {v : V3} (h : smul k v ≠ zero) : k ≠ 0 := by
  rintro rfl; apply h; apply V3.ext' <;> simp [smul, zero]

/-- `Line.__eq__` decides equality of the denoted lines -/
theorem Line.eqv_iff (l o : Line) (hl : l.WF) (ho : o.WF) :
    l.eqv o = true ↔ ∀ x, l.den x ↔ o.den x := by
  unfold Line.eqv
  rw [Bool.and_eq_true, Line.contains_iff l hl, parallel_iff_cross]
  constructor
  · rintro ⟨⟨t0, ht0⟩, hpar⟩
    have hk := exists_smul_of_cross_zero hl hpar
    set k := dot o.dv l.dv / normSq l.dv with hkdef
    have hk0 : k ≠ 0 := smul_ne_zero_left (by rw [← hk]; exact ho)
    intro x
    constructor
    · rintro ⟨t, rfl⟩
      refine ⟨(t - t0) / k, ?_⟩
      rw [ht0, hk]
      apply V3.ext' <;> simp [add, smul] <;> field_simp <;> ring
    · rintro ⟨t, rfl⟩
      refine ⟨t0 + t * k, ?_⟩
      rw [ht0, hk]
      apply V3.ext' <;> simp [add, smul] <;> ring
  · intro h
    have h0 : l.den o.sv := (h o.sv).mpr ⟨0, by apply V3.ext' <;> simp [add, smul]⟩
    have h1 : l.den (add o.sv o.dv) := (h _).mpr ⟨1, by apply V3.ext' <;> simp [add, smul]⟩
    refine ⟨h0, ?_⟩
    obtain ⟨t0, ht0⟩ := h0
    obtain ⟨t1, ht1⟩ := h1
    have : o.dv = smul (t1 - t0) l.dv := by
      have hx := congrArg V3.x ht1; have hy := congrArg V3.y ht1; have hz := congrArg V3.z ht1
      rw [ht0] at hx hy hz
      simp [add, smul] at hx hy hz
      apply V3.ext' <;> simp [smul] <;> linarith
    rw [this]
    have := parallel_smul (t1 - t0) l.dv
    rwa [parallel_iff_cross] at this

/-! ### point × X -/
theorem interPointPoint_exact (p q : V3) : Exact (interPointPoint p q) (· = p) (· = q) := by
  unfold interPointPoint
  by_cases h : p = q
  · subst h
    rw [if_pos rfl]
    exact Exact.mk_some _ trivial (fun x => by simp [Geo.den])
  · rw [if_neg h]
    exact Exact.mk_none (fun x ⟨h1, h2⟩ => h (h1.symm.trans h2))

theorem interPoint_exact_of_mem (p : V3) (c : Bool) (B : V3 → Prop) (hc : c = true ↔ B p) :
    Exact (.ok (if c then some (.point p) else none)) (· = p) B := by
  by_cases h : c = true
  · rw [if_pos h]
    refine Exact.mk_some _ trivial (fun x => ?_)
    simp only [Geo.den]
    constructor
    · rintro rfl; exact ⟨rfl, hc.mp h⟩
    · exact fun hx => hx.1
  · rw [if_neg h]
    refine Exact.mk_none (fun x => ?_)
    rintro ⟨rfl, h2⟩; exact h (hc.mpr h2)

theorem interPointLine_exact (p : V3) (l : Line) (hl : l.WF) : Exact (interPointLine p l) (· = p) l.den :=
  interPoint_exact_of_mem p _ _ (Line.contains_iff l hl p)
theorem interPointPlane_exact (p : V3) (pl : Plane) : Exact (interPointPlane p pl) (· = p) pl.den :=
  interPoint_exact_of_mem p _ _ (Plane.contains_iff pl p)
theorem interPointSeg_exact (p : V3) (s : Seg) (hs : s.WF) : Exact (interPointSeg p s) (· = p) s.den :=
  interPoint_exact_of_mem p _ _ (Seg.contains_iff s hs p)
theorem interPointHalfLine_exact (p : V3) (h : HalfLine) (hh : h.WF) :
    Exact (interPointHalfLine p h) (· = p) h.den :=
  interPoint_exact_of_mem p _ _ (HalfLine.contains_iff h hh p)

/-! ### line × plane -/
theorem Plane.containsLine_iff (pl : Plane) (l : Line) :
    pl.containsLine l = true ↔ ∀ x, l.den x → pl.den x := by
  unfold Plane.containsLine
  rw [Bool.and_eq_true, Plane.contains_iff]
  simp only [V3.orthogonal, beq_iff_eq]
  constructor
  · rintro ⟨h1, h2⟩ x ⟨t, rfl⟩
    simp only [Plane.den, dot, sub, add, smul] at *
    linear_combination h1 + t * h2
  · intro h
    have h0 := h l.sv ⟨0, by apply V3.ext' <;> simp [add, smul]⟩
    have h1 := h (add l.sv l.dv) ⟨1, by apply V3.ext' <;> simp [add, smul]⟩
    refine ⟨h0, ?_⟩
    simp only [Plane.den, dot, sub, add] at *
    linarith

theorem interLinePlane_exact (l : Line) (p : Plane) (hl : l.WF) :
    Exact (interLinePlane l p) l.den p.den := by
  unfold interLinePlane
  by_cases hc : p.containsLine l = true
  · rw [if_pos hc]
    refine Exact.mk_some (.line l) hl (fun x => ?_)
    simp only [Geo.den]
    exact ⟨fun hx => ⟨hx, (Plane.containsLine_iff p l).mp hc x hx⟩, fun hx => hx.1⟩
  · rw [if_neg hc]
    by_cases ho : V3.orthogonal l.dv p.n = true
    · rw [if_pos ho]
      refine Exact.mk_none (fun x => ?_)
      rintro ⟨⟨t, rfl⟩, hx⟩
      apply hc
      unfold Plane.containsLine
      rw [Bool.and_eq_true]
      refine ⟨?_, ho⟩
      rw [Plane.contains_iff]
      simp only [V3.orthogonal, beq_iff_eq] at ho
      simp only [Plane.den, dot, sub, add, smul] at *
      linear_combination hx - t * ho
    · rw [if_neg ho]
      have hd : dot p.n l.dv ≠ 0 := by
        simp only [V3.orthogonal, beq_iff_eq] at ho
        intro h; apply ho; simp only [dot] at *; linarith
      refine Exact.mk_some (.point _) trivial (fun x => ?_)
      simp only [Geo.den]
      constructor
      · rintro rfl
        refine ⟨⟨_, rfl⟩, ?_⟩
        simp only [Plane.den]
        have : dot p.n (sub (add l.sv (smul ((dot p.n p.p - dot p.n l.sv) / dot p.n l.dv) l.dv)) p.p)
            = dot p.n l.sv - dot p.n p.p + ((dot p.n p.p - dot p.n l.sv) / dot p.n l.dv) * dot p.n l.dv := by
          simp only [dot, sub, add, smul]; ring
        rw [this, div_mul_cancel₀ _ hd]; ring
      · rintro ⟨⟨t, rfl⟩, hx⟩
        have ht : t = (dot p.n p.p - dot p.n l.sv) / dot p.n l.dv := by
          rw [eq_div_iff hd]
          simp only [Plane.den, dot, sub, add, smul] at *
          linarith
        rw [ht]
#print axioms interLinePlane_exact
#print axioms Line.eqv_iff

/-! ### line × line (through the linear solver) -/
open Solver2 in
theorem lineLine_sat_iff (l1 l2 : Line) (lam mu : Rat) :
    Sat (lineLineMatrix l1 l2) [lam, mu] ↔ add l1.sv (smul lam l1.dv) = add l2.sv (smul mu l2.dv) := by
  simp only [Sat, lineLineMatrix, List.mem_cons, List.not_mem_nil, or_false, forall_eq_or_imp, forall_eq,
    rowSat, rowDot, List.cons_append, List.nil_append, List.zipWith_cons_cons, List.zipWith_nil_right,
    List.sum_cons, List.sum_nil]
  constructor
  · rintro ⟨hx, hy, hz⟩
    apply V3.ext' <;> simp only [add, smul] <;> linarith
  · intro h
    have hx := congrArg V3.x h; have hy := congrArg V3.y h; have hz := congrArg V3.z h
    simp only [add, smul] at hx hy hz
    refine ⟨?_, ?_, ?_⟩ <;> linarith

theorem smul_eq_zero_of_ne {k : Rat} {v : V3} (hk : k ≠ 0) (h : smul k v = zero) : v = zero := by
  have hx := congrArg V3.x h; have hy := congrArg V3.y h; have hz := congrArg V3.z h
  simp only [smul, zero] at hx hy hz
  apply V3.ext' <;> simp only [zero]
  · exact (mul_eq_zero.mp hx).resolve_left hk
  · exact (mul_eq_zero.mp hy).resolve_left hk
  · exact (mul_eq_zero.mp hz).resolve_left hk

/-- two different parameter pairs of common points force the lines to coincide -/
theorem eqv_of_two_solutions (l1 l2 : Line) (h1 : l1.WF) (h2 : l2.WF) (a b a' b' : Rat)
    (e : add l1.sv (smul a l1.dv) = add l2.sv (smul b l2.dv))
    (e' : add l1.sv (smul a' l1.dv) = add l2.sv (smul b' l2.dv))
    (hne : a ≠ a' ∨ b ≠ b') : l1.eqv l2 = true := by
  have ex := congrArg V3.x e; have ey := congrArg V3.y e; have ez := congrArg V3.z e
  have ex' := congrArg V3.x e'; have ey' := congrArg V3.y e'; have ez' := congrArg V3.z e'
  simp only [add, smul] at ex ey ez ex' ey' ez'
  have hb : b ≠ b' := by
    intro hbb
    have ha : a ≠ a' := by rcases hne with h | h; exact h; exact absurd hbb h
    apply h1
    apply smul_eq_zero_of_ne (sub_ne_zero.mpr ha)
    apply V3.ext' <;> simp only [smul, zero] <;> (subst hbb; linarith)
  have hbb : b - b' ≠ 0 := sub_ne_zero.mpr hb
  -- l2.dv = r • l1.dv with r = (a - a') / (b - b')
  have hd2 : l2.dv = smul ((a - a') / (b - b')) l1.dv := by
    apply V3.ext' <;> simp only [smul] <;> field_simp <;> linarith
  unfold Line.eqv
  rw [Bool.and_eq_true]
  constructor
  · rw [Line.contains_iff l1 h1]
    refine ⟨a - b * ((a - a') / (b - b')), ?_⟩
    apply V3.ext' <;> simp only [add, smul]
    · have := congrArg V3.x hd2; simp only [smul] at this; rw [this] at ex; linarith
    · have := congrArg V3.y hd2; simp only [smul] at this; rw [this] at ey; linarith
    · have := congrArg V3.z hd2; simp only [smul] at this; rw [this] at ez; linarith
  · rw [hd2]; exact parallel_smul _ _

open Solver2 in
theorem interLineLine_exact (l1 l2 : Line) (h1 : l1.WF) (h2 : l2.WF) :
    Exact (interLineLine l1 l2) l1.den l2.den := by
  unfold interLineLine
  by_cases heq : l1.eqv l2 = true
  · rw [if_pos heq]
    refine Exact.mk_some (.line l1) h1 (fun x => ?_)
    have := (Line.eqv_iff l1 l2 h1 h2).mp heq x
    simp only [Geo.den]; tauto
  · rw [if_neg heq]
    have hu : Uniform (2+1) (lineLineMatrix l1 l2) := by
      intro r hr; simp only [lineLineMatrix, List.mem_cons, List.not_mem_nil, or_false] at hr
      rcases hr with rfl | rfl | rfl <;> rfl
    have hne : lineLineMatrix l1 l2 ≠ [] := by simp [lineLineMatrix]
    simp only
    by_cases hs : solvable (solve (lineLineMatrix l1 l2)) = true
    · rw [hs]; simp only [Bool.not_true, Bool.false_eq_true, if_false]
      -- no free parameter
      have hk : varargs 2 (solve (lineLineMatrix l1 l2)) = 0 := by
        by_contra hk
        set k := varargs 2 (solve (lineLineMatrix l1 l2)) with hkdef
        have hkpos : 0 < k := Nat.pos_of_ne_zero hk
        obtain ⟨va, hca, hla, hsa, hsata⟩ := call_satisfies 2 _ hu hne hs (List.replicate k 0) (by simp [hkdef])
        obtain ⟨vb, hcb, hlb, hsb, hsatb⟩ := call_satisfies 2 _ hu hne hs (1 :: List.replicate (k-1) 0)
          (by simp [hkdef]; omega)
        have ra := call_readback 2 _ hu hne hs (List.replicate k 0) (by simp [hkdef]) va hca 0 (by simpa using hkpos)
        have rb := call_readback 2 _ hu hne hs (1 :: List.replicate (k-1) 0) (by simp [hkdef]; omega) vb hcb 0 (by simp)
        -- shape of the two solution vectors
        obtain ⟨a, b, hta⟩ : ∃ a b, tot va = [a, b] := by
          match va, hla with
          | [x, y], _ => exact ⟨_, _, rfl⟩
        obtain ⟨a', b', htb⟩ : ∃ a b, tot vb = [a, b] := by
          match vb, hlb with
          | [x, y], _ => exact ⟨_, _, rfl⟩
        rw [hta] at hsata; rw [htb] at hsatb
        have ea := (lineLine_sat_iff l1 l2 a b).mp hsata
        have eb := (lineLine_sat_iff l1 l2 a' b').mp hsatb
        have hdiff : a ≠ a' ∨ b ≠ b' := by
          by_contra hcon
          push_neg at hcon
          have : tot va = tot vb := by rw [hta, htb, hcon.1, hcon.2]
          set c := (freeCols (pivotCols (solve (lineLineMatrix l1 l2))) 2).getD 0 0 with hc
          have e1 : (tot va).getD c 0 = 0 := by
            rw [getD_tot, ra]; simp [List.getD_eq_getElem?_getD, hkpos]
          have e2 : (tot vb).getD c 0 = 1 := by
            rw [getD_tot, rb]; simp
          rw [this, e2] at e1; norm_num at e1
        exact heq (eqv_of_two_solutions l1 l2 h1 h2 a b a' b' ea eb hdiff)
      obtain ⟨vals, hcall, hlen, hsome, hsat⟩ := call_satisfies 2 _ hu hne hs [] (by simp [hk])
      rw [hcall]
      match vals, hlen, hsome, hsat with
      | [o1, o2], _, hsome, hsat =>
        have s1 := hsome 0 (by norm_num); have s2 := hsome 1 (by norm_num)
        simp at s1 s2
        obtain ⟨lam, rfl⟩ := Option.ne_none_iff_exists'.mp s1
        obtain ⟨mu, rfl⟩ := Option.ne_none_iff_exists'.mp s2
        simp only
        have e := (lineLine_sat_iff l1 l2 lam mu).mp (by simpa [tot] using hsat)
        refine Exact.mk_some (.point _) trivial (fun x => ?_)
        simp only [Geo.den]
        constructor
        · rintro rfl; exact ⟨⟨lam, rfl⟩, ⟨mu, e⟩⟩
        · rintro ⟨⟨a, rfl⟩, ⟨b, hb⟩⟩
          by_contra hx
          have hdiff : lam ≠ a ∨ mu ≠ b := by
            left; intro hla; apply hx; rw [hla]
          exact heq (eqv_of_two_solutions l1 l2 h1 h2 lam mu a b e hb hdiff)
    · have hs' : solvable (solve (lineLineMatrix l1 l2)) = false := by simpa using hs
      rw [hs']; simp only [Bool.not_false, if_true]
      refine Exact.mk_none (fun x => ?_)
      rintro ⟨⟨a, rfl⟩, ⟨b, hb⟩⟩
      apply hs
      exact (solvable_iff_consistent 2 _ hu hne).mpr ⟨[a, b], rfl, (lineLine_sat_iff l1 l2 a b).mpr hb⟩
#print axioms interLineLine_exact

/-! ### result shapes (by unfolding the handlers) -/
theorem interLineLine_shape (l1 l2 : Line) (o : Option Geo) (h : interLineLine l1 l2 = .ok o) :
    o = none ∨ (∃ q, o = some (.point q)) ∨ (o = some (.line l1) ∧ l1.eqv l2 = true) := by
  unfold interLineLine at h
  by_cases heq : l1.eqv l2 = true
  · rw [if_pos heq] at h; cases h; exact Or.inr (Or.inr ⟨rfl, heq⟩)
  · rw [if_neg heq] at h
    simp only at h
    split at h
    · cases h; exact Or.inl rfl
    · split at h
      · cases h; exact Or.inr (Or.inl ⟨_, rfl⟩)
      · cases h

theorem interLinePlane_shape (l : Line) (p : Plane) (o : Option Geo) (h : interLinePlane l p = .ok o) :
    o = none ∨ (∃ q, o = some (.point q)) ∨ (o = some (.line l) ∧ p.containsLine l = true) := by
  unfold interLinePlane at h
  by_cases hc : p.containsLine l = true
  · rw [if_pos hc] at h; cases h; exact Or.inr (Or.inr ⟨rfl, hc⟩)
  · rw [if_neg hc] at h
    by_cases ho : V3.orthogonal l.dv p.n = true
    · rw [if_pos ho] at h; cases h; exact Or.inl rfl
    · rw [if_neg ho] at h; cases h; exact Or.inr (Or.inl ⟨_, rfl⟩)

theorem Seg.den_sub_line (s : Seg) (hs : s.WF) (x : V3) (hx : s.den x) : s.line.den x := by
  obtain ⟨t, _, _, rfl⟩ := hx
  rw [hs.2]; exact ⟨t, rfl⟩

theorem HalfLine.den_sub_line (h : HalfLine) (hh : h.WF) (x : V3) (hx : h.den x) : h.line.den x := by
  obtain ⟨t, _, rfl⟩ := hx
  rw [hh.2]; exact ⟨t, rfl⟩

theorem Seg.line_WF (s : Seg) (hs : s.WF) : s.line.WF := by
  rw [hs.2]; exact fun h => hs.1 (sub_eq_zero_iff.mp h).symm

theorem HalfLine.line_WF (h : HalfLine) (hh : h.WF) : h.line.WF := by
  rw [hh.2]; exact hh.1

/-- generic "intersect the carrier, then filter by membership" step shared by four handlers -/
theorem carrier_filter {A C S : V3 → Prop} (r : Res) (hr : Exact r A C) (hSC : ∀ x, S x → C x)
    (whole : Geo) (hwWF : whole.WF) (hwden : ∀ x, whole.den x ↔ S x)
    (isLine : Option Geo → Prop)
    (hline : ∀ o, r = .ok o → isLine o → ∀ x, C x → A x)
    (res : Res)
    (hnone : r = .ok none → res = .ok none)
    (hpt : ∀ q, r = .ok (some (.point q)) → ∃ c : Bool, (c = true ↔ S q) ∧ res = .ok (if c then some (.point q) else none))
    (hl : ∀ o, r = .ok o → isLine o → res = .ok (some whole))
    (hshape : ∀ o, r = .ok o → o = none ∨ (∃ q, o = some (.point q)) ∨ isLine o) :
    Exact res A S := by
  obtain ⟨o, ho, _, hden⟩ := hr
  rcases hshape o ho with rfl | ⟨q, rfl⟩ | hil
  · rw [hnone ho]
    exact Exact.mk_none (fun x ⟨ha, hs⟩ => (hden x).mpr ⟨ha, hSC x hs⟩)
  · obtain ⟨c, hc, hres⟩ := hpt q ho
    rw [hres]
    have hq : A q ∧ C q := (hden q).mp rfl
    by_cases hcc : c = true
    · rw [if_pos hcc]
      refine Exact.mk_some (.point q) trivial (fun x => ?_)
      simp only [Geo.den]
      constructor
      · rintro rfl; exact ⟨hq.1, hc.mp hcc⟩
      · rintro ⟨ha, hs⟩; exact (hden x).mpr ⟨ha, hSC x hs⟩
    · rw [if_neg hcc]
      refine Exact.mk_none (fun x ⟨ha, hs⟩ => ?_)
      have : x = q := (hden x).mpr ⟨ha, hSC x hs⟩
      subst this; exact hcc (hc.mpr hs)
  · rw [hl o ho hil]
    refine Exact.mk_some whole hwWF (fun x => ?_)
    rw [hwden]
    exact ⟨fun hs => ⟨hline o ho hil x (hSC x hs), hs⟩, fun h => h.2⟩

theorem interLineSeg_exact (l : Line) (s : Seg) (hl : l.WF) (hs : s.WF) :
    Exact (interLineSeg l s) l.den s.den := by
  have hr := interLineLine_exact l s.line hl (s.line_WF hs)
  refine carrier_filter (interLineLine l s.line) hr (s.den_sub_line hs) (.seg s) hs (fun x => Iff.rfl)
    (fun o => o = some (.line l) ∧ l.eqv s.line = true) ?_ _ ?_ ?_ ?_ ?_
  · intro o _ ⟨_, heq⟩ x hx
    exact ((Line.eqv_iff l s.line hl (s.line_WF hs)).mp heq x).mpr hx
  · intro h; unfold interLineSeg; rw [h]
  · intro q h; unfold interLineSeg; rw [h]
    exact ⟨s.contains q, Seg.contains_iff s hs q, rfl⟩
  · intro o h ⟨ho, _⟩; unfold interLineSeg; rw [h, ho]
  · intro o h; exact interLineLine_shape l s.line o h

theorem interLineHalfLine_exact (l : Line) (h : HalfLine) (hl : l.WF) (hh : h.WF) :
    Exact (interLineHalfLine l h) l.den h.den := by
  have hr := interLineLine_exact l h.line hl (h.line_WF hh)
  refine carrier_filter (interLineLine l h.line) hr (h.den_sub_line hh) (.halfline h) hh (fun x => Iff.rfl)
    (fun o => o = some (.line l) ∧ l.eqv h.line = true) ?_ _ ?_ ?_ ?_ ?_
  · intro o _ ⟨_, heq⟩ x hx
    exact ((Line.eqv_iff l h.line hl (h.line_WF hh)).mp heq x).mpr hx
  · intro e; unfold interLineHalfLine; rw [e]
  · intro q e; unfold interLineHalfLine; rw [e]
    exact ⟨h.contains q, HalfLine.contains_iff h hh q, rfl⟩
  · intro o e ⟨ho, _⟩; unfold interLineHalfLine; rw [e, ho]
  · intro o e; exact interLineLine_shape l h.line o e

theorem Exact.symm {r : Res} {A B : V3 → Prop} (h : Exact r A B) : Exact r B A := by
  obtain ⟨o, ho, hw, hd⟩ := h
  exact ⟨o, ho, hw, fun x => by rw [hd x]; tauto⟩

theorem interPlaneSeg_exact (a : Plane) (s : Seg) (hs : s.WF) :
    Exact (interPlaneSeg a s) a.den s.den := by
  have hr := (interLinePlane_exact s.line a (s.line_WF hs)).symm
  refine carrier_filter (interLinePlane s.line a) hr (s.den_sub_line hs) (.seg s) hs (fun x => Iff.rfl)
    (fun o => o = some (.line s.line) ∧ a.containsLine s.line = true) ?_ _ ?_ ?_ ?_ ?_
  · intro o _ ⟨_, hc⟩ x hx
    exact (Plane.containsLine_iff a s.line).mp hc x hx
  · intro e; unfold interPlaneSeg; rw [e]
  · intro q e; unfold interPlaneSeg; rw [e]
    exact ⟨s.contains q, Seg.contains_iff s hs q, rfl⟩
  · intro o e ⟨ho, _⟩; unfold interPlaneSeg; rw [e, ho]
  · intro o e; exact interLinePlane_shape s.line a o e

theorem interPlaneHalfLine_exact (a : Plane) (h : HalfLine) (hh : h.WF) :
    Exact (interPlaneHalfLine a h) a.den h.den := by
  have hr := (interLinePlane_exact h.line a (h.line_WF hh)).symm
  refine carrier_filter (interLinePlane h.line a) hr (h.den_sub_line hh) (.halfline h) hh (fun x => Iff.rfl)
    (fun o => o = some (.line h.line) ∧ a.containsLine h.line = true) ?_ _ ?_ ?_ ?_ ?_
  · intro o _ ⟨_, hc⟩ x hx
    exact (Plane.containsLine_iff a h.line).mp hc x hx
  · intro e; unfold interPlaneHalfLine; rw [e]
  · intro q e; unfold interPlaneHalfLine; rw [e]
    exact ⟨h.contains q, HalfLine.contains_iff h hh q, rfl⟩
  · intro o e ⟨ho, _⟩; unfold interPlaneHalfLine; rw [e, ho]
  · intro o e; exact interLinePlane_shape h.line a o e
#print axioms interLineSeg_exact
#print axioms interPlaneHalfLine_exact

/-! ### plane × plane -/
theorem cross_ne_zero_of_not_parallel {u v : V3} (h : ¬ V3.parallel u v = true) : cross u v ≠ zero := by
  intro hc; exact h ((parallel_iff_cross u v).mpr hc)

/-- `Plane.__eq__` true ⇒ same point set -/
theorem Plane.eqv_den (a b : Plane) (ha : a.WF) (hb : b.WF) (h : a.eqv b = true) :
    ∀ x, a.den x ↔ b.den x := by
  unfold Plane.eqv at h
  rw [Bool.and_eq_true, Plane.contains_iff, parallel_iff_cross] at h
  obtain ⟨hp, hc⟩ := h
  have hk := exists_smul_of_cross_zero hb hc
  set k := dot a.n b.n / normSq b.n with hkd
  have hk0 : k ≠ 0 := smul_ne_zero_left (by rw [← hk]; exact ha)
  intro x
  simp only [Plane.den] at hp ⊢
  have e : dot a.n (sub x a.p) = k * (dot b.n (sub x b.p) - dot b.n (sub a.p b.p)) := by
    rw [hk]; simp only [dot, sub, smul]; ring
  rw [e, hp]
  constructor
  · intro h0
    have : dot b.n (sub x b.p) - 0 = 0 := (mul_eq_zero.mp h0).resolve_left hk0
    linarith
  · intro h0; rw [h0]; ring

/-- parallel normals and a common point ⇒ `Plane.__eq__` is true -/
theorem Plane.eqv_of_parallel_common (a b : Plane) (ha : a.WF) (hb : b.WF)
    (hpar : V3.parallel a.n b.n = true) (x : V3) (hxa : a.den x) (hxb : b.den x) : a.eqv b = true := by
  unfold Plane.eqv
  rw [Bool.and_eq_true, Plane.contains_iff]
  refine ⟨?_, hpar⟩
  rw [parallel_iff_cross] at hpar
  have hk := exists_smul_of_cross_zero hb hpar
  set k := dot a.n b.n / normSq b.n with hkd
  have hk0 : k ≠ 0 := smul_ne_zero_left (by rw [← hk]; exact ha)
  simp only [Plane.den] at hxa hxb ⊢
  have e : dot a.n (sub x a.p) = k * (dot b.n (sub x b.p) - dot b.n (sub a.p b.p)) := by
    rw [hk]; simp only [dot, sub, smul]; ring
  rw [e, hxb] at hxa
  have : (0 : Rat) - dot b.n (sub a.p b.p) = 0 := (mul_eq_zero.mp hxa).resolve_left hk0
  linarith

theorem interPlanePlane_exact (a b : Plane) (ha : a.WF) (hb : b.WF) :
    Exact (interPlanePlane a b) a.den b.den := by
  unfold interPlanePlane
  by_cases heq : a.eqv b = true
  · rw [if_pos heq]
    refine Exact.mk_some (.plane a) ha (fun x => ?_)
    have := Plane.eqv_den a b ha hb heq x
    simp only [Geo.den]; tauto
  · rw [if_neg heq]
    by_cases hpar : V3.parallel a.n b.n = true
    · rw [if_pos hpar]
      exact Exact.mk_none (fun x ⟨hxa, hxb⟩ => heq (Plane.eqv_of_parallel_common a b ha hb hpar x hxa hxb))
    · rw [if_neg hpar]
      have hV : cross a.n b.n ≠ zero := cross_ne_zero_of_not_parallel hpar
      have hVV := normSq_pos hV
      -- the auxiliary line is transversal to b
      have hdot : dot b.n (cross (cross a.n b.n) a.n) = normSq (cross a.n b.n) := by
        simp only [dot, cross, normSq]; ring
      have hno : ¬ V3.orthogonal (cross (cross a.n b.n) a.n) b.n = true := by
        simp only [V3.orthogonal, beq_iff_eq]
        intro h0
        have : dot b.n (cross (cross a.n b.n) a.n) = 0 := by simp only [dot] at h0 ⊢; linarith
        rw [hdot] at this; exact absurd this (ne_of_gt hVV)
      have hnc : ¬ b.containsLine ⟨a.p, cross (cross a.n b.n) a.n⟩ = true := by
        unfold Plane.containsLine; rw [Bool.and_eq_true]; exact fun h => hno h.2
      simp only [interLinePlane, hnc, hno, if_false, Bool.false_eq_true]
      set mu := (dot b.n b.p - dot b.n a.p) / dot b.n (cross (cross a.n b.n) a.n) with hmu
      set q := add a.p (smul mu (cross (cross a.n b.n) a.n)) with hq
      have hqa : a.den q := by
        simp only [Plane.den, hq, dot, sub, add, smul, cross]; ring
      have hqb : b.den q := by
        simp only [Plane.den]
        have : dot b.n (sub q b.p) = dot b.n a.p - dot b.n b.p + mu * dot b.n (cross (cross a.n b.n) a.n) := by
          simp only [hq, dot, sub, add, smul]; ring
        rw [this, hmu, div_mul_cancel₀]; ring
        rw [hdot]; exact ne_of_gt hVV
      refine Exact.mk_some (.line ⟨q, cross a.n b.n⟩) hV (fun x => ?_)
      simp only [Geo.den, Line.den]
      constructor
      · rintro ⟨t, rfl⟩
        simp only [Plane.den] at hqa hqb ⊢
        constructor
        · have : dot a.n (sub (add q (smul t (cross a.n b.n))) a.p) = dot a.n (sub q a.p) := by
            simp only [dot, sub, add, smul, cross]; ring
          rw [this]; exact hqa
        · have : dot b.n (sub (add q (smul t (cross a.n b.n))) b.p) = dot b.n (sub q b.p) := by
            simp only [dot, sub, add, smul, cross]; ring
          rw [this]; exact hqb
      · rintro ⟨hxa, hxb⟩
        simp only [Plane.den] at hqa hqb hxa hxb
        -- w = x - q is orthogonal to both normals, hence parallel to their cross product
        have w1 : dot a.n (sub x q) = 0 := by
          have : dot a.n (sub x q) = dot a.n (sub x a.p) - dot a.n (sub q a.p) := by
            simp only [dot, sub]; ring
          rw [this, hxa, hqa]; ring
        have w2 : dot b.n (sub x q) = 0 := by
          have : dot b.n (sub x q) = dot b.n (sub x b.p) - dot b.n (sub q b.p) := by
            simp only [dot, sub]; ring
          rw [this, hxb, hqb]; ring
        have hcr : cross (sub x q) (cross a.n b.n) = zero := by
          have e : cross (sub x q) (cross a.n b.n)
              = sub (smul (dot b.n (sub x q)) a.n) (smul (dot a.n (sub x q)) b.n) := by
            apply V3.ext' <;> simp only [cross, sub, smul, dot] <;> ring
          rw [e, w1, w2]; apply V3.ext' <;> simp [sub, smul, zero]
        obtain ⟨k, hk⟩ : ∃ k, sub x q = smul k (cross a.n b.n) := ⟨_, exists_smul_of_cross_zero hV hcr⟩
        refine ⟨k, ?_⟩
        have hx := congrArg V3.x hk; have hy := congrArg V3.y hk; have hz := congrArg V3.z hk
        simp only [sub, smul] at hx hy hz
        apply V3.ext' <;> simp only [add, smul] <;> linarith
#print axioms interPlanePlane_exact
end G3D
