import G3D.Model.Polygon
import G3D.Proofs.Vec
import Mathlib.Tactic.Ring
import Mathlib.Tactic.Linarith
import Mathlib.Tactic.LinearCombination
import Mathlib.Tactic.FieldSimp
import Mathlib.Algebra.Order.Field.Rat

namespace G3D
open V3

/-- x is a convex combination of pts -/
def InHull (pts : List V3) (x : V3) : Prop :=
  ∃ ws : List Rat, ws.length = pts.length ∧ (∀ w ∈ ws, 0 ≤ w) ∧ ws.sum = 1 ∧ comb ws pts = x

/-- scalar triple product -/
def trip (u v w : V3) : Rat := dot u (cross v w)

theorem orient_sum (n a b c x : V3) :
    orient n b c x + orient n c a x + orient n a b x = orient n a b c := by
  simp [orient, dot, cross, sub]; ring

theorem orient_rev (n a b x : V3) : orient n b a x = - orient n a b x := by
  simp [orient, dot, cross, sub]; ring

theorem normSq_pos_of_ne {n : V3} (h : n ≠ zero) : 0 < normSq n := by
  have h0 : 0 ≤ normSq n := by simp only [normSq, dot]; nlinarith [sq_nonneg n.x, sq_nonneg n.y, sq_nonneg n.z]
  rcases lt_or_eq_of_le h0 with h1 | h1
  · exact h1
  · exfalso; apply h
    simp only [normSq, dot] at h1
    apply V3.ext' <;> simp [zero] <;> nlinarith [sq_nonneg n.x, sq_nonneg n.y, sq_nonneg n.z]

/-- triangle: barycentric weights -/
theorem tri_hull (n p0 a b c x : V3)
    (ha : inPlane n p0 a = true) (hb : inPlane n p0 b = true) (hc : inPlane n p0 c = true)
    (hx : inPlane n p0 x = true)
    (hpos : 0 < orient n a b c)
    (h1 : 0 ≤ orient n a b x) (h2 : 0 ≤ orient n b c x) (h3 : 0 ≤ orient n c a x) :
    InHull [a, b, c] x := by
  simp only [inPlane, beq_iff_eq] at ha hb hc hx
  have hD : orient n a b c ≠ 0 := ne_of_gt hpos
  have hn : n ≠ zero := by
    intro h; rw [h] at hpos; simp [orient, dot, zero] at hpos
  have hnn := normSq_pos_of_ne hn
  set wa := orient n b c x with hwa
  set wb := orient n c a x with hwb
  set wc := orient n a b x with hwc
  set D := orient n a b c with hDd
  have hsum : wa + wb + wc = D := orient_sum n a b c x
  -- in-plane differences
  have ea : dot n (sub a x) = 0 := by simp only [dot, sub] at *; linarith
  have eb : dot n (sub b x) = 0 := by simp only [dot, sub] at *; linarith
  have ec : dot n (sub c x) = 0 := by simp only [dot, sub] at *; linarith
  -- Cramer-type identity: Σ w_i (p_i - x) = T • n
  let T := trip (sub a x) (sub b x) (sub c x)
  have hT : T = 0 := by
    have : T * normSq n = 0 := by
      have e : T * normSq n = wa * dot n (sub a x) + wb * dot n (sub b x) + wc * dot n (sub c x) := by
        simp only [T, trip, wa, wb, wc, orient, normSq, dot, cross, sub]; ring
      rw [e, ea, eb, ec]; ring
    rcases mul_eq_zero.mp this with h | h
    · exact h
    · exact absurd h (ne_of_gt hnn)
  have cx : wa * (a.x - x.x) + wb * (b.x - x.x) + wc * (c.x - x.x) = T * n.x := by
    simp only [T, trip, wa, wb, wc, orient, dot, cross, sub]; ring
  have cy : wa * (a.y - x.y) + wb * (b.y - x.y) + wc * (c.y - x.y) = T * n.y := by
    simp only [T, trip, wa, wb, wc, orient, dot, cross, sub]; ring
  have cz : wa * (a.z - x.z) + wb * (b.z - x.z) + wc * (c.z - x.z) = T * n.z := by
    simp only [T, trip, wa, wb, wc, orient, dot, cross, sub]; ring
  rw [hT] at cx cy cz
  refine ⟨[wa / D, wb / D, wc / D], rfl, ?_, ?_, ?_⟩
  · intro w hw
    simp at hw
    rcases hw with rfl | rfl | rfl <;> exact div_nonneg (by assumption) (le_of_lt hpos)
  · simp only [List.sum_cons, List.sum_nil, add_zero]
    rw [← add_div, ← add_div, div_eq_one_iff_eq hD]; linarith
  · apply V3.ext'
    · simp only [comb, add, smul, zero]; field_simp; linear_combination cx + x.x * hsum
    · simp only [comb, add, smul, zero]; field_simp; linear_combination cy + x.y * hsum
    · simp only [comb, add, smul, zero]; field_simp; linear_combination cz + x.z * hsum

theorem comb_zero_cons (ws : List Rat) (p : V3) (ps : List V3) :
    comb (0 :: ws) (p :: ps) = comb ws ps := by
  apply V3.ext' <;> simp [comb, add, smul]

/-- insert a zero weight at position 1 -/
theorem InHull.skip1 {p0 p1 : V3} {l : List V3} {x : V3} (h : InHull (p0 :: l) x) :
    InHull (p0 :: p1 :: l) x := by
  obtain ⟨ws, hl, hnn, hs, hc⟩ := h
  cases ws with
  | nil => simp at hl
  | cons w ws =>
    refine ⟨w :: 0 :: ws, by simpa using hl, ?_, ?_, ?_⟩
    · intro u hu
      simp at hu
      rcases hu with rfl | rfl | hu
      · exact hnn _ (by simp)
      · exact le_refl _
      · exact hnn _ (by simp [hu])
    · simpa using hs
    · rw [← hc]; simp only [comb]
      apply V3.ext' <;> simp [add, smul]

/-- pad a triangle combination with zeros -/
theorem comb_pad (ws : List Rat) (ps : List V3) (h : ws.length = ps.length) (qs : List V3) :
    comb (ws ++ List.replicate qs.length 0) (ps ++ qs) = comb ws ps := by
  induction ws generalizing ps with
  | nil =>
    cases ps with
    | nil =>
      induction qs with
      | nil => simp [comb]
      | cons q qs ih => simp only [List.length_cons, List.replicate_succ, List.nil_append] at ih ⊢; rw [comb_zero_cons]; simpa using ih
    | cons p ps => simp at h
  | cons w ws ih =>
    cases ps with
    | nil => simp at h
    | cons p ps =>
      simp only [List.cons_append, comb]
      rw [ih ps (by simpa using h)]

theorem InHull.pad {ps qs : List V3} {x : V3} (h : InHull ps x) : InHull (ps ++ qs) x := by
  obtain ⟨ws, hl, hnn, hs, hc⟩ := h
  refine ⟨ws ++ List.replicate qs.length 0, by simp [hl], ?_, ?_, ?_⟩
  · intro u hu
    rcases List.mem_append.mp hu with hu | hu
    · exact hnn _ hu
    · rw [List.mem_replicate] at hu; rw [hu.2]
  · simp [hs]
  · rw [comb_pad ws ps hl qs, hc]

theorem poly_hull (n pl x : V3) (hx : inPlane n pl x = true) :
    ∀ (rest : List V3) (p0 p1 p2 : V3),
      (∀ p ∈ p0 :: p1 :: p2 :: rest, inPlane n pl p = true) →
      triplesPos n (p0 :: p1 :: p2 :: rest) →
      (∀ e ∈ closedPairs (p0 :: p1 :: p2 :: rest), 0 ≤ orient n e.1 e.2 x) →
      InHull (p0 :: p1 :: p2 :: rest) x := by
  intro rest
  induction rest with
  | nil =>
    intro p0 p1 p2 hpl htp he
    have hpos : 0 < orient n p0 p1 p2 := htp.1 p1 p2 (List.Sublist.refl _)
    simp only [closedPairs, List.cons_append, List.nil_append, consec, List.mem_cons, List.not_mem_nil, or_false, forall_eq_or_imp, forall_eq] at he
    exact tri_hull n pl p0 p1 p2 x (hpl _ (by simp)) (hpl _ (by simp)) (hpl _ (by simp)) hx hpos he.1 he.2.1 he.2.2
  | cons r rs ih =>
    intro p0 p1 p2 hpl htp he
    have hpos : 0 < orient n p0 p1 p2 :=
      htp.1 p1 p2 (by simp)
    have hcp : closedPairs (p0 :: p1 :: p2 :: r :: rs) =
        (p0, p1) :: (p1, p2) :: consec (p2 :: r :: rs ++ [p0]) := by
      simp [closedPairs, consec]
    have hcq : closedPairs (p0 :: p2 :: r :: rs) = (p0, p2) :: consec (p2 :: r :: rs ++ [p0]) := by
      simp [closedPairs, consec]
    rw [hcp] at he
    rcases le_or_gt 0 (orient n p0 p2 x) with hs | hs
    · -- x passes the tests of the smaller polygon
      have hsmall := ih p0 p2 r
        (by intro p hp; apply hpl; simp at hp ⊢; tauto)
        (by
          refine ⟨?_, htp.2.2⟩
          intro b c hbc
          exact htp.1 b c (List.Sublist.cons _ hbc))
        (by
          rw [hcq]
          intro e hE
          rcases List.mem_cons.mp hE with rfl | hE
          · exact hs
          · exact he e (List.mem_cons_of_mem _ (List.mem_cons_of_mem _ hE)))
      exact hsmall.skip1
    · -- x is in the triangle p0 p1 p2
      have h3 : 0 ≤ orient n p2 p0 x := by rw [orient_rev]; linarith
      have htri := tri_hull n pl p0 p1 p2 x (hpl _ (by simp)) (hpl _ (by simp)) (hpl _ (by simp)) hx hpos
        (he (p0, p1) (by simp)) (he (p1, p2) (by simp)) h3
      have := htri.pad (qs := r :: rs)
      simpa using this
#print axioms poly_hull
end G3D
