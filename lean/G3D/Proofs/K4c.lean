import G3D.Proofs.K4b
import G3D.Proofs.Equality

/-! # Kernel K4, part c: structure of `interPolyhedronPolyhedron`, and the case without interior point

    * `K4.InK A B` : the common part (both membership tests); `K4.IsPiece` : the clips of the faces of one body by the
      other; every clip denotes `K ∩ plane(face)` (`K4.IsPiece.spec`)
    * `K4.Parts2`, `K4.finish`, `K4.handler_eq` : the handler never fails inside the two clipping loops, and its result
      is `K4.finish p` of parts `p` that are exactly the clips
    * `K4.flat_of_no_interior` : if no point is strictly inside all face half-spaces of both bodies, the common part
      lies in the plane of one face
    * `K4.finish_of_flat`, `K4.exact_of_flat` : in that case the handler returns `None` / a Point / a Segment / a ConvexPolygon denoting
      exactly the common part (in particular the two "Bug detected" branches are not taken) -/
namespace G3D
open V3

/-- the common part of two bodies: both membership tests pass -/
def K4.InK (A B : Polyhedron) (x : V3) : Prop := A.contains x = true ∧ B.contains x = true

theorem K4.InK_iff_hull {A B : Polyhedron} (hA : A.ExactHyp) (hB : B.ExactHyp) (x : V3) :
    K4.InK A B x ↔ (InHull A.verts x ∧ InHull B.verts x) :=
  and_congr (hA.proper.contains_iff_hull x) (hB.proper.contains_iff_hull x)

theorem K4.InK_iff_side (A B : Polyhedron) (x : V3) :
    K4.InK A B x ↔ ∀ f ∈ A.faces ++ B.faces, f.side x ≤ 0 := by
  unfold K4.InK
  rw [A.contains_iff_side, B.contains_iff_side]
  constructor
  · rintro ⟨h1, h2⟩ f hf
    rcases List.mem_append.mp hf with h | h
    · exact h1 f h
    · exact h2 f h
  · intro h
    exact ⟨fun f hf => h f (List.mem_append_left _ hf), fun f hf => h f (List.mem_append_right _ hf)⟩

theorem K4.InK_between {A B : Polyhedron} {a b x : V3} (ha : K4.InK A B a) (hb : K4.InK A B b)
    (hx : Between a b x) : K4.InK A B x :=
  ⟨Polyhedron.contains_between A ha.1 hb.1 hx, Polyhedron.contains_between B ha.2 hb.2 hx⟩

/-- `o` is the clip of a face of one body by the other body -/
def K4.IsPiece (A B : Polyhedron) (f : Polygon) (o : Option Obj) : Prop :=
  (f ∈ A.faces ∧ interPolygonPolyhedron B f = .ok o) ∨ (f ∈ B.faces ∧ interPolygonPolyhedron A f = .ok o)

theorem K4.IsPiece.mem {A B : Polyhedron} {f : Polygon} {o : Option Obj} (h : K4.IsPiece A B f o) :
    f ∈ A.faces ++ B.faces := by
  rcases h with h | h
  · exact List.mem_append_left _ h.1
  · exact List.mem_append_right _ h.1

/-- every clip is `None`, a Point, a well-formed Segment or a Valid polygon and denotes `K ∩ plane(face)` -/
theorem K4.IsPiece.spec {A B : Polyhedron} (hA : A.ExactHyp) (hB : B.ExactHyp) {f : Polygon} {o : Option Obj}
    (h : K4.IsPiece A B f o) : K4.Shape o ∧ ∀ x, denOptB o x ↔ (K4.InK A B x ∧ f.side x = 0) := by
  rcases h with ⟨hf, ho⟩ | ⟨hf, ho⟩
  · obtain ⟨o', hp⟩ := K4.piece B hB f (hA.proper.core.faces_valid f hf)
    have : o' = o := by have := hp.eq; rw [ho] at this; cases this; rfl
    subst this
    refine ⟨hp.shape, fun x => ?_⟩
    rw [hp.den x, hA.proper.face_iff f hf x, ← hB.proper.contains_iff_hull x]
    unfold K4.InK
    tauto
  · obtain ⟨o', hp⟩ := K4.piece A hA f (hB.proper.core.faces_valid f hf)
    have : o' = o := by have := hp.eq; rw [ho] at this; cases this; rfl
    subst this
    refine ⟨hp.shape, fun x => ?_⟩
    rw [hp.den x, hB.proper.face_iff f hf x, ← hA.proper.contains_iff_hull x]
    unfold K4.InK
    tauto

theorem K4.exists_piece {A B : Polyhedron} (hA : A.ExactHyp) (hB : B.ExactHyp) (f : Polygon)
    (hf : f ∈ A.faces ++ B.faces) : ∃ o, K4.IsPiece A B f o := by
  rcases List.mem_append.mp hf with h | h
  · obtain ⟨o, hp⟩ := K4.piece B hB f (hA.proper.core.faces_valid f h)
    exact ⟨o, Or.inl ⟨h, hp.eq⟩⟩
  · obtain ⟨o, hp⟩ := K4.piece A hA f (hB.proper.core.faces_valid f h)
    exact ⟨o, Or.inr ⟨h, hp.eq⟩⟩

/-! ### the handler = the two loops + `finish` -/

/-- the parts after both loops: exactly the clips, polygons and segments up to `same`, no repetitions -/
structure K4.Parts2 (A B : Polyhedron) (p : Parts) : Prop where
  gons_sub : ∀ g ∈ p.gons, ∃ f, K4.IsPiece A B f (some (.polygon g))
  gons_rep : ∀ f g, K4.IsPiece A B f (some (.polygon g)) → ∃ g' ∈ p.gons, g' = g ∨ g'.same g = true
  gons_pw : p.gons.Pairwise (fun a b => a.same b = false)
  segs_sub : ∀ s ∈ p.segs, ∃ f, K4.IsPiece A B f (some (.flat (.seg s)))
  segs_rep : ∀ f s, K4.IsPiece A B f (some (.flat (.seg s))) → ∃ s' ∈ p.segs, s' = s ∨ s'.same s = true
  segs_pw : p.segs.Pairwise (fun a b => a.same b = false)
  pts_mem : ∀ q, q ∈ p.pts ↔ ∃ f, K4.IsPiece A B f (some (.flat (.point q)))
  pts_nodup : p.pts.Nodup

/-- the final case distinction of the handler -/
def K4.finish (p2 : Parts) : ResB :=
  match p2.gons, p2.segs, p2.pts with
  | _ :: _ :: _, _, _ => do let R ← liftC (Polyhedron.mk? p2.gons); pure (some (.polyhedron R))
  | [Q], _, _ => pure (some (.polygon Q))
  | [], _ :: _ :: _, _ => throw .bug
  | [], [s], _ => seg? s
  | [], [], _ :: _ :: _ => throw .bug
  | [], [], [p] => pt? p
  | [], [], [] => pure none

/-- **no failure inside the loops**: the handler is `finish` of parts that are exactly the clips -/
theorem K4.handler_eq (A B : Polyhedron) (hA : A.ExactHyp) (hB : B.ExactHyp) :
    ∃ p, K4.Parts2 A B p ∧ interPolyhedronPolyhedron A B = K4.finish p := by
  obtain ⟨_, p1, h1, c1⟩ := clipFaces_spec B hB A.faces hA.proper.core.faces_valid {}
  obtain ⟨_, p2, h2, c2⟩ := clipFaces_spec A hA B.faces hB.proper.core.faces_valid p1
  refine ⟨p2, ?_, ?_⟩
  · refine ⟨?_, ?_, ?_, ?_, ?_, ?_, ?_, ?_⟩
    · intro g hg
      rcases c2.gons_sub g hg with h | ⟨f, hf, he⟩
      · rcases c1.gons_sub g h with h' | ⟨f, hf, he⟩
        · cases h'
        · exact ⟨f, Or.inl ⟨hf, he⟩⟩
      · exact ⟨f, Or.inr ⟨hf, he⟩⟩
    · rintro f g (⟨hf, he⟩ | ⟨hf, he⟩)
      · obtain ⟨g', hg', hs⟩ := c1.gons_rep f hf g he
        exact ⟨g', c2.gons_keep g' hg', hs⟩
      · exact c2.gons_rep f hf g he
    · exact c2.gons_pw (c1.gons_pw List.Pairwise.nil)
    · intro g hg
      rcases c2.segs_sub g hg with h | ⟨f, hf, he⟩
      · rcases c1.segs_sub g h with h' | ⟨f, hf, he⟩
        · cases h'
        · exact ⟨f, Or.inl ⟨hf, he⟩⟩
      · exact ⟨f, Or.inr ⟨hf, he⟩⟩
    · rintro f g (⟨hf, he⟩ | ⟨hf, he⟩)
      · obtain ⟨g', hg', hs⟩ := c1.segs_rep f hf g he
        exact ⟨g', c2.segs_keep g' hg', hs⟩
      · exact c2.segs_rep f hf g he
    · exact c2.segs_pw (c1.segs_pw List.Pairwise.nil)
    · intro q
      rw [c2.pts_mem q, c1.pts_mem q]
      constructor
      · rintro ((h | ⟨f, hf, he⟩) | ⟨f, hf, he⟩)
        · cases h
        · exact ⟨f, Or.inl ⟨hf, he⟩⟩
        · exact ⟨f, Or.inr ⟨hf, he⟩⟩
      · rintro ⟨f, ⟨hf, he⟩ | ⟨hf, he⟩⟩
        · exact Or.inl (Or.inr ⟨f, hf, he⟩)
        · exact Or.inr ⟨f, hf, he⟩
    · exact c2.pts_nodup (c1.pts_nodup List.nodup_nil)
  · unfold interPolyhedronPolyhedron
    rw [h1]
    simp only [bind, Except.bind]
    rw [h2]
    rfl

/-! ### small geometric facts -/

theorem K4.side_between (f : Polygon) (a b : V3) (t : Rat) :
    f.side (add a (smul t (sub b a))) = (1 - t) * f.side a + t * f.side b := by
  simp only [Polygon.side, dot, sub, add, smul]; ring

/-- a point is not a convex combination of points that are strictly lower along `d` -/
theorem K4.not_inHull_of_lt (d p : V3) (others : List V3) (h : ∀ q ∈ others, dot d q < dot d p) :
    ¬ InHull others p := by
  rintro ⟨ws, hl, hnn, hs, hc⟩
  have h1 := dot_comb d p ws others hl
  rw [hs] at h1
  have e : sub (add (comb ws others) (smul (1 - 1) p)) p = zero := by
    rw [hc]; apply V3.ext' <;> simp [sub, add, smul, zero]
  rw [e] at h1
  have hz : dot d zero = 0 := by simp [dot, zero]
  rw [hz] at h1
  have hf : ∀ q ∈ others, dot d (sub q p) < 0 := by
    intro q hq
    have := h q hq
    have e : dot d (sub q p) = dot d q - dot d p := by simp only [dot, sub]; ring
    rw [e]; linarith
  have := (sum_zipWith_negative ws others (fun q => dot d (sub q p)) hl hnn hf).2 h1.symm
  rw [hs] at this
  exact absurd this (by norm_num)

/-- a vertex of a Valid polygon lying in the hull of another vertex list is one of those vertices, provided that
    list lies in the hull of the polygon -/
theorem K4.vertex_mem_of_hull (P : Polygon) (hP : P.Valid) (l : List V3) (hl : ∀ q ∈ l, InHull P.pts q)
    (p : V3) (hp : p ∈ P.pts) (hpl : InHull l p) : p ∈ l := by
  by_contra hn
  obtain ⟨d, hd⟩ := hP.strictConvexPos p hp
  refine K4.not_inHull_of_lt d p l (fun q hq => ?_) hpl
  exact exposed_hull hd (hl q hq) (fun e => hn (e ▸ hq))

/-- a plane through three non-collinear points is the plane spanned by them -/
theorem K4.plane_of_three (pl : Plane) (hpl : pl.WF) (a b c : V3) (hN : cross (sub b a) (sub c a) ≠ zero)
    (ha : pl.den a) (hb : pl.den b) (hc : pl.den c) (x : V3) :
    pl.den x ↔ dot (cross (sub b a) (sub c a)) (sub x a) = 0 := by
  simp only [Plane.den] at ha hb hc ⊢
  have hu : dot pl.n (sub b a) = 0 := by
    have : dot pl.n (sub b a) = dot pl.n (sub b pl.p) - dot pl.n (sub a pl.p) := by simp only [dot, sub]; ring
    rw [this, ha, hb]; ring
  have hw : dot pl.n (sub c a) = 0 := by
    have : dot pl.n (sub c a) = dot pl.n (sub c pl.p) - dot pl.n (sub a pl.p) := by simp only [dot, sub]; ring
    rw [this, ha, hc]; ring
  obtain ⟨k, hk⟩ := parallel_of_perp _ _ pl.n hN hu hw
  have hk0 : k ≠ 0 := by
    intro h0
    apply hpl
    rw [hk, h0]; apply V3.ext' <;> simp [smul, zero]
  have e : dot pl.n (sub x pl.p) = k * dot (cross (sub b a) (sub c a)) (sub x a) + dot pl.n (sub a pl.p) := by
    have : dot pl.n (sub x pl.p) = dot pl.n (sub x a) + dot pl.n (sub a pl.p) := by simp only [dot, sub]; ring
    rw [this]
    congr 1
    rw [hk]; simp only [dot, smul]; ring
  rw [e, ha, add_zero]
  constructor
  · intro h; exact (mul_eq_zero.mp h).resolve_left hk0
  · intro h; rw [h]; ring

/-- an affine functional vanishing at three non-collinear points of a plane vanishes on the plane -/
theorem K4.side_zero_on_plane (f : Polygon) (pl : Plane) (hpl : pl.WF) (a b c : V3)
    (hN : cross (sub b a) (sub c a) ≠ zero) (ha : pl.den a) (hb : pl.den b) (hc : pl.den c)
    (fa : f.side a = 0) (fb : f.side b = 0) (fc : f.side c = 0) (x : V3) (hx : pl.den x) : f.side x = 0 := by
  have h0 := (K4.plane_of_three pl hpl a b c hN ha hb hc x).mp hx
  have hu : dot f.plane.n (sub b a) = 0 := by
    have : dot f.plane.n (sub b a) = f.side b - f.side a := by simp only [Polygon.side, dot, sub]; ring
    rw [this, fa, fb]; ring
  have hw : dot f.plane.n (sub c a) = 0 := by
    have : dot f.plane.n (sub c a) = f.side c - f.side a := by simp only [Polygon.side, dot, sub]; ring
    rw [this, fa, fc]; ring
  obtain ⟨k, hk⟩ := parallel_of_perp _ _ f.plane.n hN hu hw
  have : f.side x = f.side a + k * dot (cross (sub b a) (sub c a)) (sub x a) := by
    have e : f.side x = f.side a + dot f.plane.n (sub x a) := by simp only [Polygon.side, dot, sub]; ring
    rw [e, hk]; simp only [dot, smul]; ring
  rw [this, fa, h0]; ring

/-- three points of a segment are collinear -/
theorem K4.seg_collinear (s : Seg) (a b c : V3) (ha : s.den a) (hb : s.den b) (hc : s.den c) :
    cross (sub b a) (sub c a) = zero := by
  obtain ⟨ta, _, _, rfl⟩ := ha
  obtain ⟨tb, _, _, rfl⟩ := hb
  obtain ⟨tc, _, _, rfl⟩ := hc
  apply V3.ext' <;> simp only [cross, sub, add, smul, zero] <;> ring

/-- an affine functional vanishing at two distinct points of a segment vanishes on the segment -/
theorem K4.side_zero_on_seg (f : Polygon) (s0 : Seg) (a b : V3) (hab : a ≠ b) (ha : s0.den a) (hb : s0.den b)
    (fa : f.side a = 0) (fb : f.side b = 0) (x : V3) (hx : s0.den x) : f.side x = 0 := by
  obtain ⟨ta, _, _, rfl⟩ := ha
  obtain ⟨tb, _, _, rfl⟩ := hb
  obtain ⟨t, _, _, rfl⟩ := hx
  have hne : ta ≠ tb := fun e => hab (by rw [e])
  exact K3.side_zero_of_two f s0.a (sub s0.b s0.a) hne fa fb t

/-- Valid polygons with the same hull are equal in the sense of `ConvexPolygon.__eq__` -/
theorem K4.same_of_hull_eq (P Q : Polygon) (hP : P.Valid) (hQ : Q.Valid)
    (h : ∀ x, InHull P.pts x ↔ InHull Q.pts x) : P.same Q = true := by
  unfold Polygon.same
  rw [Bool.and_eq_true, Bool.and_eq_true, List.all_eq_true, List.all_eq_true]
  refine ⟨⟨?_, ?_⟩, ?_⟩
  · intro p hp
    simp only [decide_eq_true_eq]
    exact K4.vertex_mem_of_hull P hP Q.pts (fun q hq => (h q).mpr (vertex_in_hull _ _ hq)) p hp
      ((h p).mp (vertex_in_hull _ _ hp))
  · intro p hp
    simp only [decide_eq_true_eq]
    exact K4.vertex_mem_of_hull Q hQ P.pts (fun q hq => (h q).mp (vertex_in_hull _ _ hq)) p hp
      ((h p).mpr (vertex_in_hull _ _ hp))
  · obtain ⟨a, ha, b, hb, c, hc, hor⟩ := hP.nondeg
    have hN : cross (sub b a) (sub c a) ≠ zero := by
      intro e; apply hor; simp only [orient, e, dot, zero]; ring
    have inP : ∀ v ∈ P.pts, P.plane.den v := fun v hv => (Plane.contains_iff _ _).mp (hP.pts_in_plane v hv)
    have inQ : ∀ v ∈ P.pts, Q.plane.den v := fun v hv =>
      Polygon.hull_in_plane Q hQ v ((h v).mp (vertex_in_hull _ _ hv))
    apply (Plane.eqv_iff _ _ (Polygon.plane_WF P hP) (Polygon.plane_WF Q hQ)).mpr
    intro x
    rw [K4.plane_of_three _ (Polygon.plane_WF P hP) a b c hN (inP a ha) (inP b hb) (inP c hc),
      K4.plane_of_three _ (Polygon.plane_WF Q hQ) a b c hN (inQ a ha) (inQ b hb) (inQ c hc)]

/-- a list without `R`-related pairs in which all elements are `R`-related has at most one element -/
theorem K4.le_one_of_pw {α : Type} (R : α → α → Bool) (l : List α) (hpw : l.Pairwise (fun a b => R a b = false))
    (hall : ∀ a ∈ l, ∀ b ∈ l, R a b = true) : l = [] ∨ ∃ a, l = [a] := by
  match l, hpw, hall with
  | [], _, _ => exact Or.inl rfl
  | [a], _, _ => exact Or.inr ⟨a, rfl⟩
  | a :: b :: t, hpw, hall =>
    have h1 := (List.pairwise_cons.mp hpw).1 b (by simp)
    have h2 := hall a (by simp) b (by simp)
    rw [h1] at h2; cases h2

theorem K4.singleton_of_pw {α : Type} (R : α → α → Bool) (l : List α) (hpw : l.Pairwise (fun a b => R a b = false))
    (hall : ∀ a ∈ l, ∀ b ∈ l, R a b = true) (hne : ∃ a, a ∈ l) : ∃ a, l = [a] := by
  rcases K4.le_one_of_pw R l hpw hall with h | h
  · obtain ⟨a, ha⟩ := hne; rw [h] at ha; cases ha
  · exact h

/-! ### no interior point: the common part lies in a face plane -/

theorem K4.interior_of_strict (A B : Polyhedron) : ∀ (L : List Polygon), (∀ f ∈ L, f ∈ A.faces ++ B.faces) →
    (∃ x, K4.InK A B x) → (∀ f ∈ L, ∃ x, K4.InK A B x ∧ f.side x < 0) →
    ∃ o, K4.InK A B o ∧ ∀ f ∈ L, f.side o < 0 := by
  intro L
  induction L with
  | nil => intro _ ⟨x, hx⟩ _; exact ⟨x, hx, fun f hf => by cases hf⟩
  | cons f L ih =>
    intro hsub hne h
    obtain ⟨o', ho', hs'⟩ := ih (fun g hg => hsub g (by simp [hg])) hne (fun g hg => h g (by simp [hg]))
    obtain ⟨xf, hxf, hsf⟩ := h f (by simp)
    have hb : Between xf o' (add xf (smul (1/2) (sub o' xf))) := ⟨1/2, by norm_num, by norm_num, rfl⟩
    refine ⟨_, K4.InK_between hxf ho' hb, ?_⟩
    intro g hg
    rw [K4.side_between]
    have h1 : g.side xf ≤ 0 := (K4.InK_iff_side A B xf).mp hxf g (hsub g hg)
    have h2 : g.side o' ≤ 0 := (K4.InK_iff_side A B o').mp ho' g (hsub g hg)
    rcases List.mem_cons.mp hg with rfl | hg'
    · linarith
    · have := hs' g hg'; linarith

/-- if no point lies strictly inside all face half-spaces of both bodies, the common part lies in the plane of one
    of the faces -/
theorem K4.flat_of_no_interior (A B : Polyhedron) (hne : A.faces ≠ [])
    (hno : ¬ ∃ o, ∀ f ∈ A.faces ++ B.faces, f.side o < 0) :
    ∃ f0 ∈ A.faces ++ B.faces, ∀ x, K4.InK A B x → f0.side x = 0 := by
  by_contra hcon
  push Not at hcon
  obtain ⟨f1, hf1⟩ := List.exists_mem_of_ne_nil _ hne
  obtain ⟨x1, hx1, _⟩ := hcon f1 (List.mem_append_left _ hf1)
  apply hno
  obtain ⟨o, _, ho⟩ := K4.interior_of_strict A B (A.faces ++ B.faces) (fun f hf => hf) ⟨x1, hx1⟩
    (fun f hf => by
      obtain ⟨x, hx, hs⟩ := hcon f hf
      exact ⟨x, hx, lt_of_le_of_ne ((K4.InK_iff_side A B x).mp hx f hf) hs⟩)
  exact ⟨o, ho⟩

/-! ### evaluation of `finish` -/
theorem K4.finish_nil (p : Parts) (h1 : p.gons = []) (h2 : p.segs = []) (h3 : p.pts = []) :
    K4.finish p = .ok none := by
  unfold K4.finish; rw [h1, h2, h3]; rfl

theorem K4.finish_pt (p : Parts) (q : V3) (h1 : p.gons = []) (h2 : p.segs = []) (h3 : p.pts = [q]) :
    K4.finish p = pt? q := by
  unfold K4.finish; rw [h1, h2, h3]

theorem K4.finish_seg (p : Parts) (s : Seg) (h1 : p.gons = []) (h2 : p.segs = [s]) :
    K4.finish p = seg? s := by
  unfold K4.finish; rw [h1, h2]

theorem K4.finish_gon (p : Parts) (Q : Polygon) (h1 : p.gons = [Q]) :
    K4.finish p = .ok (some (.polygon Q)) := by
  unfold K4.finish; rw [h1]; rfl

theorem K4.finish_many (p : Parts) (Q1 Q2 : Polygon) (t : List Polygon) (h1 : p.gons = Q1 :: Q2 :: t) :
    K4.finish p = (do let R ← liftC (Polyhedron.mk? p.gons); pure (some (.polyhedron R))) := by
  unfold K4.finish; rw [h1]

/-! ### the flat case -/

/-- **the common part lies in a face plane ⇒ exact, no "Bug" branch**: the handler returns `None`, a Point, a
    well-formed Segment or a ConvexPolygon denoting exactly the common part -/
theorem K4.finish_of_flat (A B : Polyhedron) (hA : A.ExactHyp) (hB : B.ExactHyp) (p : Parts)
    (hp : K4.Parts2 A B p) (f0 : Polygon)
    (hf0 : f0 ∈ A.faces ++ B.faces) (hflat : ∀ x, K4.InK A B x → f0.side x = 0) :
    ∃ o, K4.finish p = .ok o ∧ K4.Shape o ∧ ∀ x, denOptB o x ↔ K4.InK A B x := by
  obtain ⟨o0, hpc0⟩ := K4.exists_piece hA hB f0 hf0
  obtain ⟨hsh0, hd0⟩ := hpc0.spec hA hB
  have hd0' : ∀ x, denOptB o0 x ↔ K4.InK A B x := fun x => by
    rw [hd0 x]; exact ⟨fun h => h.1, fun h => ⟨h, hflat x h⟩⟩
  have hsubK : ∀ {f : Polygon} {o : Option Obj}, K4.IsPiece A B f o → ∀ x, denOptB o x → K4.InK A B x :=
    fun h x hx => (((h.spec hA hB).2 x).mp hx).1
  cases hsh0 with
  | none =>
    have hK : ∀ x, ¬ K4.InK A B x := fun x hx => (hd0' x).mpr hx
    have hg : p.gons = [] := List.eq_nil_iff_forall_not_mem.mpr (fun g hg => by
      obtain ⟨f, hf⟩ := hp.gons_sub g hg
      cases (hf.spec hA hB).1 with
      | gon _ hv =>
        obtain ⟨p0, _, _, _, hpts, _, _⟩ := hv
        exact hK p0 (hsubK hf p0 (vertex_in_hull _ _ (by rw [hpts]; simp))))
    have hs : p.segs = [] := List.eq_nil_iff_forall_not_mem.mpr (fun s hs => by
      obtain ⟨f, hf⟩ := hp.segs_sub s hs
      exact hK s.a (hsubK hf s.a s.den_a))
    have hpt : p.pts = [] := List.eq_nil_iff_forall_not_mem.mpr (fun q hq => by
      obtain ⟨f, hf⟩ := (hp.pts_mem q).mp hq
      exact hK q (hsubK hf q rfl))
    exact ⟨none, K4.finish_nil p hg hs hpt, .none, fun x => ⟨fun h => h.elim, fun h => (hK x h).elim⟩⟩
  | point q0 =>
    have hK : ∀ x, K4.InK A B x ↔ x = q0 := fun x => (hd0' x).symm
    have hg : p.gons = [] := List.eq_nil_iff_forall_not_mem.mpr (fun g hg => by
      obtain ⟨f, hf⟩ := hp.gons_sub g hg
      cases (hf.spec hA hB).1 with
      | gon _ hv =>
        have hnd := hv.nodup
        obtain ⟨p0, p1, _, _, hpts, _, _⟩ := hv
        have e0 := (hK p0).mp (hsubK hf p0 (vertex_in_hull _ _ (by rw [hpts]; simp)))
        have e1 := (hK p1).mp (hsubK hf p1 (vertex_in_hull _ _ (by rw [hpts]; simp)))
        rw [hpts, e0, e1] at hnd
        simp at hnd)
    have hs : p.segs = [] := List.eq_nil_iff_forall_not_mem.mpr (fun s hs => by
      obtain ⟨f, hf⟩ := hp.segs_sub s hs
      cases (hf.spec hA hB).1 with
      | seg _ hw =>
        apply hw.1
        rw [(hK s.a).mp (hsubK hf s.a s.den_a), (hK s.b).mp (hsubK hf s.b s.den_b)])
    have hall : ∀ q ∈ p.pts, q = q0 := fun q hq => by
      obtain ⟨f, hf⟩ := (hp.pts_mem q).mp hq
      exact (hK q).mp (hsubK hf q rfl)
    have hmem : q0 ∈ p.pts := (hp.pts_mem q0).mpr ⟨f0, hpc0⟩
    have hpt : p.pts = [q0] := by
      have hnd := hp.pts_nodup
      match hpp : p.pts, hall, hmem, hnd with
      | [], _, hmem, _ => cases hmem
      | [a], hall, _, _ => rw [hall a (by simp)]
      | a :: b :: t, hall, _, hnd =>
        rw [hall a (by simp), hall b (by simp)] at hnd
        simp at hnd
    exact ⟨_, K4.finish_pt p q0 hg hs hpt, .point q0, fun x => (hK x).symm⟩
  | seg s0 hw0 =>
    have hg : p.gons = [] := List.eq_nil_iff_forall_not_mem.mpr (fun g hg => by
      obtain ⟨f, hf⟩ := hp.gons_sub g hg
      cases (hf.spec hA hB).1 with
      | gon _ hv =>
        obtain ⟨a, ha, b, hb, c, hc, hor⟩ := hv.nondeg
        apply hor
        have h3 := K4.seg_collinear s0 a b c ((hd0' a).mpr (hsubK hf a (vertex_in_hull _ _ ha)))
          ((hd0' b).mpr (hsubK hf b (vertex_in_hull _ _ hb))) ((hd0' c).mpr (hsubK hf c (vertex_in_hull _ _ hc)))
        simp only [orient, h3, dot, zero]; ring)
    -- every collected segment denotes the whole common part
    have hsden : ∀ s ∈ p.segs, s.WF ∧ ∀ x, s.den x ↔ K4.InK A B x := by
      intro s hs
      obtain ⟨f, hf⟩ := hp.segs_sub s hs
      obtain ⟨hsh, hd⟩ := hf.spec hA hB
      cases hsh with
      | seg _ hw =>
        refine ⟨hw, fun x => ⟨fun h => ((hd x).mp h).1, fun h => (hd x).mpr ⟨h, ?_⟩⟩⟩
        have ha := (hd s.a).mp s.den_a
        have hb := (hd s.b).mp s.den_b
        exact K4.side_zero_on_seg f s0 s.a s.b hw.1 ((hd0' _).mpr ha.1) ((hd0' _).mpr hb.1) ha.2 hb.2 x
          ((hd0' x).mpr h)
    obtain ⟨s1, hs1⟩ := K4.singleton_of_pw Seg.same p.segs hp.segs_pw
      (fun a ha b hb => (Seg.eqv_iff a b (hsden a ha).1 (hsden b hb).1).mpr
        (fun x => by rw [(hsden a ha).2 x, (hsden b hb).2 x]))
      (by obtain ⟨s', hs', _⟩ := hp.segs_rep f0 s0 hpc0; exact ⟨s', hs'⟩)
    have h1 := hsden s1 (by rw [hs1]; simp)
    exact ⟨_, K4.finish_seg p s1 hg hs1, .seg s1 h1.1, h1.2⟩
  | gon Q0 hv0 =>
    have hgden : ∀ g ∈ p.gons, g.Valid ∧ ∀ x, InHull g.pts x ↔ K4.InK A B x := by
      intro g hg
      obtain ⟨f, hf⟩ := hp.gons_sub g hg
      obtain ⟨hsh, hd⟩ := hf.spec hA hB
      cases hsh with
      | gon _ hv =>
        refine ⟨hv, fun x => ⟨fun h => ((hd x).mp h).1, fun h => (hd x).mpr ⟨h, ?_⟩⟩⟩
        obtain ⟨a, ha, b, hb, c, hc, hor⟩ := hv.nondeg
        have hN : cross (sub b a) (sub c a) ≠ zero := by
          intro e; apply hor; simp only [orient, e, dot, zero]; ring
        have hva := (hd a).mp (vertex_in_hull _ _ ha)
        have hvb := (hd b).mp (vertex_in_hull _ _ hb)
        have hvc := (hd c).mp (vertex_in_hull _ _ hc)
        have inQ0 : ∀ y, K4.InK A B y → Q0.plane.den y := fun y hy =>
          Polygon.hull_in_plane Q0 hv0 y ((hd0' y).mpr hy)
        exact K4.side_zero_on_plane f Q0.plane (Polygon.plane_WF Q0 hv0) a b c hN (inQ0 a hva.1) (inQ0 b hvb.1)
          (inQ0 c hvc.1) hva.2 hvb.2 hvc.2 x (inQ0 x h)
    obtain ⟨g1, hg1⟩ := K4.singleton_of_pw Polygon.same p.gons hp.gons_pw
      (fun a ha b hb => K4.same_of_hull_eq a b (hgden a ha).1 (hgden b hb).1
        (fun x => by rw [(hgden a ha).2 x, (hgden b hb).2 x]))
      (by obtain ⟨g', hg', _⟩ := hp.gons_rep f0 Q0 hpc0; exact ⟨g', hg'⟩)
    have h1 := hgden g1 (by rw [hg1]; simp)
    exact ⟨_, K4.finish_gon p g1 hg1, .gon g1 h1.1, h1.2⟩
#print axioms K4.finish_of_flat

theorem K4.exact_of_flat (A B : Polyhedron) (hA : A.ExactHyp) (hB : B.ExactHyp) (f0 : Polygon)
    (hf0 : f0 ∈ A.faces ++ B.faces) (hflat : ∀ x, K4.InK A B x → f0.side x = 0) :
    ∃ o, interPolyhedronPolyhedron A B = .ok o ∧ K4.Shape o ∧ ∀ x, denOptB o x ↔ K4.InK A B x := by
  obtain ⟨p, hp, heq⟩ := K4.handler_eq A B hA hB
  rw [heq]
  exact K4.finish_of_flat A B hA hB p hp f0 hf0 hflat

/-- **items 2 + 3 without interior point**: if no point lies strictly inside all face half-spaces of both bodies, the
    handler returns `None`, a Point, a well-formed Segment or a Valid ConvexPolygon denoting exactly `A ∩ B` -/
theorem K4.exact_of_no_interior (A B : Polyhedron) (hA : A.ExactHyp) (hB : B.ExactHyp)
    (hno : ¬ ∃ o, ∀ f ∈ A.faces ++ B.faces, f.side o < 0) :
    ∃ o, interPolyhedronPolyhedron A B = .ok o ∧ K4.Shape o ∧ ∀ x, denOptB o x ↔ K4.InK A B x := by
  obtain ⟨f0, hf0, hflat⟩ := K4.flat_of_no_interior A B hA.proper.core.nonempty hno
  exact K4.exact_of_flat A B hA hB f0 hf0 hflat
#print axioms K4.exact_of_no_interior

end G3D
