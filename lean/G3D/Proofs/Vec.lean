import G3D.Model.Vec
import Mathlib.Tactic.Ring
import Mathlib.Tactic.Linarith
import Mathlib.Tactic.FieldSimp
import Mathlib.Tactic.LinearCombination
import Mathlib.Algebra.Order.Field.Rat

namespace G3D
open V3

@[ext] theorem V3.ext' {a b : V3} (hx : a.x = b.x) (hy : a.y = b.y) (hz : a.z = b.z) : a = b := by
  cases a; cases b; simp_all

theorem cross_anticomm (a b : V3) : cross a b = neg (cross b a) := by
  apply V3.ext' <;> simp [cross, neg] <;> ring

theorem dot_cross_self (a b : V3) : dot a (cross a b) = 0 := by
  simp [dot, cross]; ring

theorem lagrange (a b : V3) : normSq (cross a b) = normSq a * normSq b - (dot a b)^2 := by
  simp [normSq, dot, cross]; ring

theorem parallel_iff_cross (u v : V3) : parallel u v = true ↔ cross u v = zero := by
  unfold parallel
  rw [beq_iff_eq]
  constructor
  · intro h
    have h2 : normSq (cross u v) = 0 := by rw [lagrange]; linarith
    simp only [normSq, dot] at h2
    have hx : (cross u v).x = 0 := by nlinarith [sq_nonneg (cross u v).x, sq_nonneg (cross u v).y, sq_nonneg (cross u v).z]
    have hy : (cross u v).y = 0 := by nlinarith [sq_nonneg (cross u v).x, sq_nonneg (cross u v).y, sq_nonneg (cross u v).z]
    have hz : (cross u v).z = 0 := by nlinarith [sq_nonneg (cross u v).x, sq_nonneg (cross u v).y, sq_nonneg (cross u v).z]
    exact V3.ext' hx hy hz
  · intro h
    have := lagrange u v
    rw [h] at this
    simp [normSq, dot, zero] at this
    simp [normSq, dot]
    linarith

/-- point on line iff parametrised -/
theorem Line.contains_iff (l : Line) (hd : l.dv ≠ zero) (p : V3) :
    l.contains p = true ↔ ∃ t : Rat, p = add l.sv (smul t l.dv) := by
  unfold Line.contains
  rw [parallel_iff_cross]
  constructor
  · intro h
    have hn : normSq l.dv ≠ 0 := by
      intro h0
      apply hd
      simp only [normSq, dot] at h0
      apply V3.ext' <;> simp [zero] <;> nlinarith [sq_nonneg l.dv.x, sq_nonneg l.dv.y, sq_nonneg l.dv.z]
    refine ⟨dot (sub p l.sv) l.dv / normSq l.dv, ?_⟩
    have hx := congrArg V3.x h
    have hy := congrArg V3.y h
    have hz := congrArg V3.z h
    simp [cross, sub, zero] at hx hy hz
    have key : ∀ a b : Rat, a * normSq l.dv = b → a = b / normSq l.dv := by
      intro a b hab; rw [eq_div_iff hn]; exact hab
    apply V3.ext'
    · have := key (p.x - l.sv.x) (dot (sub p l.sv) l.dv * l.dv.x)
        (by simp [normSq, dot, sub]; linear_combination l.dv.y * hz - l.dv.z * hy)
      simp only [add, smul]; rw [div_mul_eq_mul_div]; linarith
    · have := key (p.y - l.sv.y) (dot (sub p l.sv) l.dv * l.dv.y)
        (by simp [normSq, dot, sub]; linear_combination l.dv.z * hx - l.dv.x * hz)
      simp only [add, smul]; rw [div_mul_eq_mul_div]; linarith
    · have := key (p.z - l.sv.z) (dot (sub p l.sv) l.dv * l.dv.z)
        (by simp [normSq, dot, sub]; linear_combination l.dv.x * hy - l.dv.y * hx)
      simp only [add, smul]; rw [div_mul_eq_mul_div]; linarith
  · rintro ⟨t, rfl⟩
    apply V3.ext' <;> simp [cross, sub, add, smul, zero] <;> ring

#print axioms Line.contains_iff
end G3D
