import G3D.Proofs.FlatPolygon

/-! # `ConvexPolygon.__contains__` ⊆ hull, WITHOUT any assumption on the order of the vertices

    For an arbitrary closed chain of coplanar points: if `x` (in the plane) is weakly on the left of every
    directed edge of the chain, then `x` is a convex combination of the vertices, unless `x` is collinear
    with every pair of vertices (which is impossible as soon as three vertices are not collinear).
    Hence for every polygon object with coplanar vertices, three of them non-collinear:
    `P.contains x = true → InHull P.pts x` — no convexity / angular-order hypothesis (`Polygon.Valid`) needed.
    (The converse direction does need `Valid`.) -/
namespace G3D
open V3

/-- in the plane ⟂ `n`: if `p ≠ x` and `q`, `r` are both collinear with `p`, `x`, then `q`, `r`, `x` are collinear -/
theorem orient_trans (n x p q r : V3) (hp : dot n (sub p x) = 0) (hpx : p ≠ x)
    (h1 : orient n p q x = 0) (h2 : orient n p r x = 0) : orient n q r x = 0 := by
  have hpos : 0 < normSq (sub p x) := normSq_pos (fun h => hpx (sub_eq_zero_iff.mp h))
  have key : normSq (sub p x) * orient n q r x = 0 := by
    simp only [orient, normSq, dot, cross, sub] at hp h1 h2 ⊢
    linear_combination
      ((p.x - x.x) * ((q.y - x.y) * (r.z - x.z) - (q.z - x.z) * (r.y - x.y))
        + (p.y - x.y) * ((q.z - x.z) * (r.x - x.x) - (q.x - x.x) * (r.z - x.z))
        + (p.z - x.z) * ((q.x - x.x) * (r.y - x.y) - (q.y - x.y) * (r.x - x.x))) * hp
      - ((p.x - x.x) * (r.x - x.x) + (p.y - x.y) * (r.y - x.y) + (p.z - x.z) * (r.z - x.z)) * h1
      + ((p.x - x.x) * (q.x - x.x) + (p.y - x.y) * (q.y - x.y) + (p.z - x.z) * (q.z - x.z)) * h2
  rcases mul_eq_zero.mp key with h | h
  · exact absurd h (ne_of_gt hpos)
  · exact h

/-- every pair of vertices is collinear with `x` -/
def ChainDeg (n x : V3) (l : List V3) : Prop := ∀ u ∈ l, ∀ v ∈ l, orient n u v x = 0

theorem chain_hull_aux (n pl x : V3) (hx : inPlane n pl x = true) :
    ∀ (m : List V3) (p0 p1 : V3),
      (∀ p ∈ p0 :: p1 :: m, inPlane n pl p = true) →
      (∀ e ∈ closedPairs (p0 :: p1 :: m), 0 ≤ orient n e.1 e.2 x) →
      InHull (p0 :: p1 :: m) x ∨ ChainDeg n x (p0 :: p1 :: m) := by
  intro m
  induction m with
  | nil =>
    intro p0 p1 _ he
    right
    have h1 : 0 ≤ orient n p0 p1 x := he (p0, p1) (by simp [closedPairs, consec])
    have h2 : 0 ≤ orient n p1 p0 x := he (p1, p0) (by simp [closedPairs, consec])
    rw [orient_rev] at h2
    have h0 : orient n p0 p1 x = 0 := by linarith
    intro u hu v hv
    simp only [List.mem_cons, List.not_mem_nil, or_false] at hu hv
    rcases hu with rfl | rfl <;> rcases hv with rfl | rfl
    · exact orient_same n _ x
    · exact h0
    · rw [orient_rev, h0]; simp
    · exact orient_same n _ x
  | cons p2 rest ih =>
    intro p0 p1 hpl he
    have hcp : closedPairs (p0 :: p1 :: p2 :: rest) =
        (p0, p1) :: (p1, p2) :: consec (p2 :: rest ++ [p0]) := by
      simp [closedPairs, consec]
    have hcq : closedPairs (p0 :: p2 :: rest) = (p0, p2) :: consec (p2 :: rest ++ [p0]) := by
      simp [closedPairs, consec]
    rw [hcp] at he
    have e01 : 0 ≤ orient n p0 p1 x := he (p0, p1) (by simp)
    have e12 : 0 ≤ orient n p1 p2 x := he (p1, p2) (by simp)
    have hsum := orient_sum n p0 p1 p2 x
    have hp0 := hpl p0 (by simp)
    have hp1 := hpl p1 (by simp)
    have hp2 := hpl p2 (by simp)
    -- x in the triangle p0 p1 p2 as soon as it is positively oriented
    have tri : 0 < orient n p0 p1 p2 → 0 ≤ orient n p2 p0 x → InHull (p0 :: p1 :: p2 :: rest) x := by
      intro hpos h3
      have htri := tri_hull n pl p0 p1 p2 x hp0 hp1 hp2 hx hpos e01 e12 h3
      have := htri.pad (qs := rest)
      simpa using this
    rcases le_or_gt 0 (orient n p0 p2 x) with hs | hs
    · -- x passes the tests of the chain without p1
      have hsmall := ih p0 p2
        (by intro p hp; apply hpl; simp at hp ⊢; tauto)
        (by
          rw [hcq]
          intro e hE
          rcases List.mem_cons.mp hE with rfl | hE
          · exact hs
          · exact he e (List.mem_cons_of_mem _ (List.mem_cons_of_mem _ hE)))
      rcases hsmall with hin | hdeg
      · exact Or.inl hin.skip1
      · -- the shorter chain is degenerate
        have h20 : orient n p2 p0 x = 0 := hdeg p2 (by simp) p0 (by simp)
        rw [h20] at hsum
        rcases lt_or_eq_of_le (show 0 ≤ orient n p0 p1 p2 by linarith) with hpos | hzero
        · exact Or.inl (tri hpos (by rw [h20]))
        · have z01 : orient n p0 p1 x = 0 := by linarith
          have z12 : orient n p1 p2 x = 0 := by linarith
          by_cases hx0 : p0 = x
          · left; rw [← hx0]; exact vertex_in_hull _ _ (by simp)
          · right
            have hdot : dot n (sub p0 x) = 0 := by
              simp only [inPlane, beq_iff_eq, dot, sub] at hx hp0 ⊢; linarith
            -- p1 is collinear with x and every vertex of the shorter chain
            have hp1v : ∀ v ∈ p0 :: p2 :: rest, orient n p1 v x = 0 := by
              intro v hv
              exact orient_trans n x p0 p1 v hdot hx0 z01 (hdeg p0 (by simp) v hv)
            intro u hu v hv
            have hu' : u = p1 ∨ u ∈ p0 :: p2 :: rest := by
              simp only [List.mem_cons] at hu ⊢; tauto
            have hv' : v = p1 ∨ v ∈ p0 :: p2 :: rest := by
              simp only [List.mem_cons] at hv ⊢; tauto
            rcases hu' with rfl | hu' <;> rcases hv' with rfl | hv'
            · exact orient_same n _ x
            · exact hp1v v hv'
            · rw [orient_rev, hp1v u hu']; simp
            · exact hdeg u hu' v hv'
    · -- x is strictly on the right of p0 → p2: it is in the triangle p0 p1 p2
      have h3 : 0 < orient n p2 p0 x := by rw [orient_rev]; linarith
      exact Or.inl (tri (by linarith) (le_of_lt h3))

/-- an arbitrary closed chain of coplanar points, three of them non-collinear: a point of the plane weakly
    on the left of every directed edge is a convex combination of the vertices -/
theorem chain_hull (n pl x : V3) (hx : inPlane n pl x = true) (l : List V3)
    (hpl : ∀ p ∈ l, inPlane n pl p = true)
    (hnd : ∃ a ∈ l, ∃ b ∈ l, ∃ c ∈ l, orient n a b c ≠ 0)
    (he : ∀ e ∈ closedPairs l, 0 ≤ orient n e.1 e.2 x) : InHull l x := by
  obtain ⟨a, ha, b, hb, c, hc, habc⟩ := hnd
  have hdeg_absurd : ChainDeg n x l → False := by
    intro hdeg
    have := orient_sum n a b c x
    rw [hdeg b hb c hc, hdeg c hc a ha, hdeg a ha b hb] at this
    exact habc (by linarith)
  cases l with
  | nil => simp at ha
  | cons p0 t =>
    cases t with
    | nil =>
      exfalso; apply habc
      simp only [List.mem_singleton] at ha hb hc
      subst ha; subst hb; subst hc
      exact orient_same n _ _
    | cons p1 m =>
      rcases chain_hull_aux n pl x hx m p0 p1 hpl he with h | h
      · exact h
      · exact absurd h hdeg_absurd
#print axioms chain_hull

/-- **`__contains__` ⊆ hull for every polygon object with coplanar, not all collinear vertices** — no
    hypothesis on the order of the vertices -/
theorem Polygon.contains_sub_hull (P : Polygon) (hpl : ∀ p ∈ P.pts, P.plane.contains p = true)
    (hnd : ∃ a ∈ P.pts, ∃ b ∈ P.pts, ∃ c ∈ P.pts, orient P.plane.n a b c ≠ 0)
    (x : V3) (hx : P.contains x = true) : InHull P.pts x := by
  rw [Polygon.contains_eq] at hx
  unfold polyContains at hx
  rw [Bool.and_eq_true, List.all_eq_true] at hx
  refine chain_hull P.plane.n P.plane.p x hx.1 P.pts ?_ hnd ?_
  · intro p hp; rw [← Plane.contains_eq_inPlane]; exact hpl p hp
  · intro e he
    have := hx.2 e he
    simpa using this
#print axioms Polygon.contains_sub_hull

/-- a Valid polygon has three non-collinear vertices -/
theorem Polygon.Valid.nondeg {P : Polygon} (hv : P.Valid) :
    ∃ a ∈ P.pts, ∃ b ∈ P.pts, ∃ c ∈ P.pts, orient P.plane.n a b c ≠ 0 := by
  obtain ⟨p0, p1, p2, rest, hp, _, htp⟩ := hv
  rw [hp] at htp ⊢
  exact ⟨p0, by simp, p1, by simp, p2, by simp, ne_of_gt (htp.1 p1 p2 (by simp))⟩

theorem Polygon.Valid.pts_in_plane {P : Polygon} (hv : P.Valid) : ∀ p ∈ P.pts, P.plane.contains p = true := by
  obtain ⟨_, _, _, _, _, hpl, _⟩ := hv
  intro p hp; rw [Plane.contains_eq_inPlane]; exact hpl p hp

end G3D
