import G3D.Extracted.Hpolygon
import G3D.Proofs.HandlersTieShared
/-! # Tie, group `hpolygon` (property C02): flat × ConvexPolygon — extracted body (`G3D.Extracted.Hpolygon`,
    tools/extract_hpolygon.py) = hand model.  See `G3D.Proofs.HandlersTie` for the conventions. -/
set_option linter.unusedSimpArgs false
set_option linter.unusedVariables false
namespace G3D.Tie
open V3 PyRt Extracted

/-! ## flat × ConvexPolygon -/

/-! ### `inter_line_convexpolygon` -/

def lineEdgeStep (l : Line) (s : Seg) (st : Option Obj × List V3) : PyM (ForInStep (Option Obj × List V3)) :=
  match interLineSeg l s with
  | .ok none => .ok (.yield (none, st.2))
  | .ok (some (.point q)) => .ok (.yield (none, addNew st.2 q))
  | .ok (some (.seg r)) => .ok (.done (some (.flat (.seg r)), st.2))
  | .ok _ => .error .bug
  | .error _ => .error .bug

theorem lineEdgesLoop_eq (l : Line) (ss : List Seg) (acc : List V3) :
    lineEdgesLoop l ss acc =
      (do let st ← forIn ss ((none : Option Obj), acc) (lineEdgeStep l)
          match st.1 with
          | some o => .ok (some o)
          | none => ofPoints st.2) := by
  induction ss generalizing acc with
  | nil => simp [lineEdgesLoop]
  | cons s ss ih =>
    simp only [List.forIn_cons, lineEdgesLoop, lineEdgeStep]
    split <;> simp [ih, seg?, *]

theorem h_inter_line_convexpolygon_eq (l : Line) (P : Polygon) :
    h_inter_line_convexpolygon (.obj (.flat (.line l))) (.obj (.polygon P)) =
      Val.ofRes (interLinePolygon l P) := by
  unfold h_inter_line_convexpolygon
  simp only [pyrt, List.map_map, interLinePolygon]
  rcases hlp : interLinePlane l P.plane with e | o
  · exact absurd hlp (interLinePlane_ne_error _ _ e)
  rcases o with _ | g
  · simp [pyrt]
  cases g with
  | point q => simp [pyrt]
  | plane c => simp [pyrt]
  | seg c => simp [pyrt]
  | halfline c => simp [pyrt]
  | line L =>
    simp only [pyrt, decide_true, if_true, pyMeth_segments]
    rcases liftC P.segments? with e | ss
    · simp [pyrt]
    simp only [pyrt, List.map_map]
    rw [show ((none : Option Val), Val.set []) = reprRP (none, []) from rfl]
    rw [forIn_repr (Val.obj ∘ sgObj) reprRP ss _ (lineEdgeStep l)]
    rotate_left
    · intro s _ st
      simp only [Function.comp, sgObj, pyrt, lineEdgeStep, reprRP]
      rcases hls : interLineSeg l s with e | o
      · cases interLineSeg_onlyBug l s e hls; simp [pyrt]
      · rcases o with _ | g
        · simp [pyrt, ForInStep.map', reprRP]
        · cases g <;> simp [pyrt, ForInStep.map', Val.ptSet, reprRP]
    rw [lineEdgesLoop_eq]
    cases forIn ss ((none : Option Obj), ([] : List V3)) (lineEdgeStep l) with
    | error e => simp [pyrt]
    | ok st =>
      obtain ⟨r, acc⟩ := st
      cases r with
      | some o => simp [pyrt, reprRP]
      | none =>
        simp only [pyrt, reprRP, Option.map_none, Val.ptSet, List.length_map, ofPoints_cases]
        match acc with
        | [] => simp [pyrt]
        | [p] => simp [pyrt, ptObj]
        | [p, q] => simp [pyrt, ptObj]
        | p :: q :: r :: rest =>
          have h0 : ¬ ((rest.length : Int) + 1 + 1 + 1 = 0) := by omega
          have h1 : ¬ ((rest.length : Int) + 1 + 1 = 0) := by omega
          have h2 : ¬ ((rest.length : Int) + 1 + 1 + 1 = 2) := by omega
          simp [pyrt, h0, h1, h2]

/-! ### `inter_plane_convexpolygon` -/
theorem h_inter_plane_convexpolygon_eq (a : Plane) (P : Polygon) :
    h_inter_plane_convexpolygon (.obj (.flat (.plane a))) (.obj (.polygon P)) =
      Val.ofRes (interPlanePolygon a P) := by
  unfold h_inter_plane_convexpolygon
  simp only [pyrt, interPlanePolygon]
  rcases hpp : interPlanePlane a P.plane with e | o
  · cases interPlanePlane_onlyBug _ _ e hpp; simp [pyrt]
  rcases o with _ | g
  · simp [pyrt]
  cases g <;> simp [pyrt]

/-! ### `inter_segment_convexpolygon`, `inter_convexpolygon_halfline` -/
theorem h_inter_segment_convexpolygon_eq (s : Seg) (P : Polygon) :
    h_inter_segment_convexpolygon (.obj (.flat (.seg s))) (.obj (.polygon P)) =
      Val.ofRes (interSegPolygon s P) := by
  unfold h_inter_segment_convexpolygon
  simp only [pyrt, interSegPolygon, interCarrierPolygon]
  rcases hlp : interLinePlane s.line P.plane with e | o
  · exact absurd hlp (interLinePlane_ne_error _ _ e)
  rcases o with _ | g
  · simp [pyrt]
  cases g with
  | point q =>
    simp only [pyrt, decide_true, if_true, reduceCtorEq, decide_false, Bool.false_eq_true, if_false]
    by_cases h1 : s.contains q = true <;> by_cases h2 : P.contains q = true <;> simp [h1, h2, pyrt, pt?]
  | plane c => simp [pyrt]
  | seg c => simp [pyrt]
  | halfline c => simp [pyrt]
  | line L =>
    simp only [pyrt, decide_true, if_true, reduceCtorEq, decide_false, Bool.false_eq_true, if_false]
    rcases interLinePolygon s.line P with e | o
    · simp [pyrt]
    rcases o with _ | ⟨g | Q | B'⟩
    · simp [pyrt]
    · cases g <;> simp [pyrt]
    · simp [pyrt]
    · simp [pyrt]

theorem h_inter_convexpolygon_halfline_eq (P : Polygon) (h : HalfLine) :
    h_inter_convexpolygon_halfline (.obj (.polygon P)) (.obj (.flat (.halfline h))) =
      Val.ofRes (interPolygonHalfLine P h) := by
  unfold h_inter_convexpolygon_halfline
  simp only [pyrt, interPolygonHalfLine, interCarrierPolygon]
  rcases hlp : interLinePlane h.line P.plane with e | o
  · exact absurd hlp (interLinePlane_ne_error _ _ e)
  rcases o with _ | g
  · simp [pyrt]
  cases g with
  | point q =>
    simp only [pyrt, decide_true, if_true, reduceCtorEq, decide_false, Bool.false_eq_true, if_false]
    by_cases h1 : h.contains q = true <;> by_cases h2 : P.contains q = true <;> simp [h1, h2, pyrt, pt?]
  | plane c => simp [pyrt]
  | seg c => simp [pyrt]
  | halfline c => simp [pyrt]
  | line L =>
    simp only [pyrt, decide_true, if_true, reduceCtorEq, decide_false, Bool.false_eq_true, if_false]
    rcases interLinePolygon h.line P with e | o
    · simp [pyrt]
    rcases o with _ | ⟨g | Q | B'⟩
    · simp [pyrt]
    · cases g <;> simp [pyrt]
    · simp [pyrt]
    · simp [pyrt]
/-! ### `inter_point_convexpolygon` -/
theorem h_inter_point_convexpolygon_eq (p : V3) (P : Polygon) :
    h_inter_point_convexpolygon (.obj (.flat (.point p))) (.obj (.polygon P)) = Val.ofRes (interPointPolygon p P) := by
  unfold h_inter_point_convexpolygon
  by_cases h : P.contains p = true <;> simp [pyrt, interPointPolygon, pt?, h]

/-! ## axiom audit -/
#print axioms h_inter_line_convexpolygon_eq
#print axioms h_inter_plane_convexpolygon_eq
#print axioms h_inter_segment_convexpolygon_eq
#print axioms h_inter_convexpolygon_halfline_eq
#print axioms h_inter_point_convexpolygon_eq

end G3D.Tie
