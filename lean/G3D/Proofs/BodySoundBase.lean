import G3D.Proofs.PolyPoly
import G3D.Proofs.Construct

/-! # Soundness of the body handlers, part 1: vocabulary, convexity of the membership test,
    `get_segment_from_point_list`, the hit-collecting loops, flat × ConvexPolyhedron.

    "Sound" = every vertex / end point of a returned object lies in both operands (`result ⊆ a ∩ b`,
    third clause of C12; soundness half of C02 / C03).  The denotation of a polyhedron operand is its own
    membership test `B.contains` (`BodyDen`), so the unproved hull kernel is not needed. -/
namespace G3D
open V3

/-- vertices / end points of a result -/
def resVerts : Option Obj → List V3
  | some (.flat (.point p)) => [p]
  | some (.flat (.seg s)) => [s.a, s.b]
  | some (.polygon P) => P.pts
  | some (.polyhedron B) => B.verts
  | _ => []

/-- the membership test as the denotation of a polyhedron -/
def BodyDen (B : Polyhedron) (x : V3) : Prop := B.contains x = true

/-- a returned Segment is well formed (distinct end points, cached line = Line(a, b)) -/
def ResSegWF : Option Obj → Prop
  | some (.flat (.seg s)) => s.WF
  | _ => True

/-- whenever `r` returns a value, a returned Segment is well formed and every result vertex lies in `A` and in `B` -/
def Sound (r : ResB) (A B : V3 → Prop) : Prop :=
  ∀ o, r = .ok o → ResSegWF o ∧ ∀ v ∈ resVerts o, A v ∧ B v

/-- exact, and a returned Segment is well formed (`ExactB` + `ResSegWF`; `ExactPS` without the restriction
    to Point / Segment results) -/
def ExactW (r : ResB) (A B : V3 → Prop) : Prop :=
  ∃ o, r = .ok o ∧ ResSegWF o ∧ ∀ x, denOptB o x ↔ (A x ∧ B x)

/-- hypotheses on a polyhedron operand.  `faceVerts`, `edgeWF`, `edgeVerts` hold for every successfully
    constructed polyhedron (`Polyhedron.mk?_structure`, BodySoundAll.lean); `faceValid` and `vertsInside` are the
    decidable content of "the faces are convex polygons and the body is convex"; `centerInPlane` holds for
    every face that is a constructed polygon (it is not used by the soundness proofs, only by
    `Polyhedron.Good.contains_iff_halfspaces`). -/
structure Polyhedron.Good (B : Polyhedron) : Prop where
  faceValid : ∀ f ∈ B.faces, f.Valid
  vertsInside : B.VertsInside
  centerInPlane : ∀ f ∈ B.faces, f.plane.contains f.center = true
  faceVerts : ∀ f ∈ B.faces, ∀ v ∈ f.pts, v ∈ B.verts
  edgeWF : ∀ s ∈ B.edges, s.WF
  edgeVerts : ∀ s ∈ B.edges, s.a ∈ B.verts ∧ s.b ∈ B.verts

/-! ### basic facts about `Sound` -/
theorem Sound.error {A B : V3 → Prop} (e : BErr) : Sound (.error e) A B := fun _ h => by cases h

theorem Sound.none {A B : V3 → Prop} : Sound (.ok none) A B := by
  intro o h; cases h; exact ⟨trivial, fun v hv => by simp [resVerts] at hv⟩

theorem Sound.pt {A B : V3 → Prop} {p : V3} (hA : A p) (hB : B p) : Sound (pt? p) A B := by
  intro o h; cases h
  refine ⟨trivial, fun v hv => ?_⟩
  simp only [resVerts, List.mem_singleton] at hv; subst hv; exact ⟨hA, hB⟩

theorem Sound.seg {A B : V3 → Prop} {s : Seg} (hw : s.WF) (ha : A s.a ∧ B s.a) (hb : A s.b ∧ B s.b) :
    Sound (seg? s) A B := by
  intro o h; cases h
  refine ⟨hw, fun v hv => ?_⟩
  simp only [resVerts, List.mem_cons, List.not_mem_nil, or_false] at hv
  rcases hv with rfl | rfl
  · exact ha
  · exact hb

theorem Sound.polygon {A B : V3 → Prop} {P : Polygon} (h : ∀ v ∈ P.pts, A v ∧ B v) :
    Sound (.ok (some (.polygon P))) A B := by
  intro o ho; cases ho; exact ⟨trivial, h⟩

theorem Sound.polyhedron {A B : V3 → Prop} {R : Polyhedron} (h : ∀ v ∈ R.verts, A v ∧ B v) :
    Sound (.ok (some (.polyhedron R))) A B := by
  intro o ho; cases ho; exact ⟨trivial, h⟩

theorem Sound.bind {α : Type} {A B : V3 → Prop} (x : Except BErr α) (f : α → ResB)
    (hf : ∀ a, x = .ok a → Sound (f a) A B) : Sound (x >>= f) A B := by
  cases x with
  | error e => intro o h; cases h
  | ok a => exact hf a rfl

theorem Sound.mono {r : ResB} {A B A' B' : V3 → Prop} (h : Sound r A B) (hA : ∀ x, A x → B x → A' x)
    (hB : ∀ x, A x → B x → B' x) : Sound r A' B' := by
  intro o ho
  obtain ⟨hw, hv⟩ := h o ho
  exact ⟨hw, fun v hm => ⟨hA v (hv v hm).1 (hv v hm).2, hB v (hv v hm).1 (hv v hm).2⟩⟩

theorem Sound.swap {r : ResB} {A B : V3 → Prop} (h : Sound r A B) : Sound r B A := by
  intro o ho
  obtain ⟨hw, hv⟩ := h o ho
  exact ⟨hw, fun v hm => ⟨(hv v hm).2, (hv v hm).1⟩⟩

theorem Seg.den_a (s : Seg) : s.den s.a :=
  ⟨0, le_refl _, by norm_num, by apply V3.ext' <;> simp [add, smul, sub]⟩

theorem Seg.den_b (s : Seg) : s.den s.b :=
  ⟨1, by norm_num, le_refl _, by apply V3.ext' <;> simp [add, smul, sub]⟩

theorem ObjFlatWF.resSegWF {o : Option Obj} (h : ObjFlatWF o) : ResSegWF o := by
  rcases ObjFlatWF_cases o h with rfl | ⟨q, rfl⟩ | ⟨s, rfl, hs⟩
  · trivial
  · trivial
  · exact hs

/-- every vertex of the denotation-exact result lies in both operands -/
theorem ExactW.sound {r : ResB} {A B : V3 → Prop} (h : ExactW r A B) : Sound r A B := by
  obtain ⟨o, ho, hw, hd⟩ := h
  intro o' ho'
  rw [ho] at ho'; cases ho'
  refine ⟨hw, fun v hv => ?_⟩
  apply (hd v).mp
  cases o with
  | none => simp [resVerts] at hv
  | some ob =>
    cases ob with
    | flat g =>
      cases g with
      | point q =>
        simp only [resVerts, List.mem_singleton] at hv
        subst hv; simp [denOptB, ObjDen, Geo.den]
      | seg s =>
        simp only [resVerts, List.mem_cons, List.not_mem_nil, or_false] at hv
        simp only [denOptB, ObjDen, Geo.den]
        rcases hv with rfl | rfl
        · exact s.den_a
        · exact s.den_b
      | line _ => simp [resVerts] at hv
      | plane _ => simp [resVerts] at hv
      | halfline _ => simp [resVerts] at hv
    | polygon P => exact vertex_in_hull _ _ hv
    | polyhedron R => exact vertex_in_hull _ _ hv

theorem ExactPS.toExactW {r : ResB} {A B : V3 → Prop} (h : ExactPS r A B) : ExactW r A B := by
  obtain ⟨o, ho, hw, hd⟩ := h; exact ⟨o, ho, hw.resSegWF, hd⟩

theorem ExactW.toExactB {r : ResB} {A B : V3 → Prop} (h : ExactW r A B) : ExactB r A B := by
  obtain ⟨o, ho, _, hd⟩ := h; exact ⟨o, ho, hd⟩

theorem ExactW_of_liftFlat {r : Res} {A B : V3 → Prop} (h : Exact r A B) : ExactW (liftFlat r) A B := by
  obtain ⟨o, ho, hw, hd⟩ := h
  rw [ho]
  cases o with
  | none => exact ⟨none, rfl, trivial, fun x => by simpa [denOptB, denOpt] using hd x⟩
  | some g =>
    refine ⟨some (.flat g), rfl, ?_, fun x => by simpa [denOptB, denOpt, ObjDen] using hd x⟩
    have := hw g rfl
    cases g <;> first | exact this | trivial

/-! ### the membership test of a polyhedron is convex -/
theorem Polyhedron.contains_of_hull (B : Polyhedron) (pts : List V3) (h : ∀ v ∈ pts, B.contains v = true)
    (x : V3) (hx : InHull pts x) : B.contains x = true := by
  obtain ⟨ws, hlen, hnn, hsum, rfl⟩ := hx
  unfold Polyhedron.contains
  rw [List.all_eq_true]
  intro f hf
  simp only [decide_eq_true_eq]
  have hx' : comb ws pts = add (comb ws pts) (smul (1 - ws.sum) f.center) := by
    rw [hsum]; apply V3.ext' <;> simp [add, smul]
  rw [hx', affine_comb f.plane.n f.center ws _ hlen]
  have := sum_zipWith_nonneg ws pts (fun p => - dot (sub p f.center) f.plane.n) hnn
    (fun p hp => by
      have h1 := h p hp
      unfold Polyhedron.contains at h1
      rw [List.all_eq_true] at h1
      have h2 := h1 f hf
      simp only [decide_eq_true_eq] at h2
      linarith)
  have e := sum_zipWith_neg ws pts (fun p => dot (sub p f.center) f.plane.n)
  rw [e] at this
  linarith

theorem Polyhedron.contains_vert (B : Polyhedron) (hv : B.VertsInside) (v : V3) (h : v ∈ B.verts) :
    B.contains v = true := by
  unfold Polyhedron.contains
  rw [List.all_eq_true]
  intro f hf
  simp only [decide_eq_true_eq]
  exact hv f hf v h

theorem Polyhedron.contains_between (B : Polyhedron) {a b x : V3} (ha : B.contains a = true)
    (hb : B.contains b = true) (hx : Between a b x) : B.contains x = true := by
  refine Polyhedron.contains_of_hull B [a, b] ?_ x (between_in_hull (l := [a, b]) (by simp) (by simp) hx)
  intro v hv
  simp only [List.mem_cons, List.not_mem_nil, or_false] at hv
  rcases hv with rfl | rfl
  · exact ha
  · exact hb

theorem Polyhedron.contains_seg (B : Polyhedron) (s : Seg) (ha : B.contains s.a = true)
    (hb : B.contains s.b = true) (x : V3) (hx : s.den x) : B.contains x = true :=
  Polyhedron.contains_between B ha hb hx

/-- face ⊆ body -/
theorem Polyhedron.Good.face_sub {B : Polyhedron} (hg : B.Good) (f : Polygon) (hf : f ∈ B.faces) (x : V3)
    (hx : InHull f.pts x) : B.contains x = true :=
  Polyhedron.contains_of_hull B f.pts
    (fun v hv => Polyhedron.contains_vert B hg.vertsInside v (hg.faceVerts f hf v hv)) x hx

/-- edge ⊆ body -/
theorem Polyhedron.Good.edge_sub {B : Polyhedron} (hg : B.Good) (s : Seg) (hs : s ∈ B.edges) (x : V3)
    (hx : s.den x) : B.contains x = true :=
  Polyhedron.contains_seg B s
    (Polyhedron.contains_vert B hg.vertsInside _ (hg.edgeVerts s hs).1)
    (Polyhedron.contains_vert B hg.vertsInside _ (hg.edgeVerts s hs).2) x hx

/-- with the face centres in the face planes the membership test is the intersection of the face half-spaces
    `(x - plane.p) . n ≤ 0` -/
theorem Polyhedron.Good.contains_iff_halfspaces {B : Polyhedron} (hg : B.Good) (x : V3) :
    B.contains x = true ↔ ∀ f ∈ B.faces, dot (sub x f.plane.p) f.plane.n ≤ 0 := by
  unfold Polyhedron.contains
  rw [List.all_eq_true]
  have key : ∀ f ∈ B.faces, dot (sub x f.center) f.plane.n = dot (sub x f.plane.p) f.plane.n := by
    intro f hf
    have h2 := (Plane.contains_iff f.plane f.center).mp (hg.centerInPlane f hf)
    simp only [Plane.den, dot, sub] at h2 ⊢
    linarith
  constructor
  · intro h f hf
    have := h f hf
    simp only [decide_eq_true_eq] at this
    rw [← key f hf]; exact this
  · intro h f hf
    simp only [decide_eq_true_eq]
    rw [key f hf]; exact h f hf

/-! ### `get_segment_from_point_list` -/
theorem BS.foldl_min_mem : ∀ (l : List Rat) (a : Rat), l.foldl min a = a ∨ l.foldl min a ∈ l
  | [], a => Or.inl rfl
  | x :: l, a => by
    rw [List.foldl_cons]
    rcases BS.foldl_min_mem l (min a x) with h | h
    · rw [h]
      rcases min_choice a x with h' | h'
      · left; exact h'
      · right; rw [h']; simp
    · right; simp [h]

theorem BS.foldl_max_mem : ∀ (l : List Rat) (a : Rat), l.foldl max a = a ∨ l.foldl max a ∈ l
  | [], a => Or.inl rfl
  | x :: l, a => by
    rw [List.foldl_cons]
    rcases BS.foldl_max_mem l (max a x) with h | h
    · rw [h]
      rcases max_choice a x with h' | h'
      · left; exact h'
      · right; rw [h']; simp
    · right; simp [h]

/-- the two end points of the returned segment are two of the given points (the extreme relative
    parameters are attained), and the segment is well formed -/
theorem segmentFromPointList_endpoints (ps : List V3) (s : Seg) (h : segmentFromPointList ps = .ok s) :
    s.WF ∧ s.a ∈ ps ∧ s.b ∈ ps := by
  cases ps with
  | nil => simp [segmentFromPointList] at h
  | cons p0 t =>
    cases t with
    | nil => simp [segmentFromPointList] at h
    | cons p1 rest =>
      unfold segmentFromPointList at h
      simp only at h
      by_cases hany : (rest.any fun pi => !(V3.parallel (sub pi p0) (sub p1 p0))) = true
      · rw [if_pos hany] at h; cases h
      · rw [if_neg hany] at h
        by_cases hz : rest ≠ [] ∧ normSq (sub p1 p0) = 0
        · rw [if_pos hz] at h; cases h
        · rw [if_neg hz] at h
          -- every relative parameter is the parameter of one of the points
          have hpar : ∀ pi ∈ rest, V3.parallel (sub pi p0) (sub p1 p0) = true := by
            intro pi hpi
            cases hp : V3.parallel (sub pi p0) (sub p1 p0) with
            | true => rfl
            | false =>
              exfalso; apply hany
              rw [List.any_eq_true]; exact ⟨pi, hpi, by simp [hp]⟩
          have hrel : ∀ r ∈ (0 : Rat) :: 1 :: rest.map (fun pi => dot (sub pi p0) (sub p1 p0) / normSq (sub p1 p0)),
              add p0 (smul r (sub p1 p0)) ∈ p0 :: p1 :: rest := by
            intro r hr
            simp only [List.mem_cons, List.mem_map] at hr
            rcases hr with rfl | rfl | ⟨pi, hpi, rfl⟩
            · have e : add p0 (smul 0 (sub p1 p0)) = p0 := by apply V3.ext' <;> simp [add, smul]
              rw [e]; simp
            · have e : add p0 (smul 1 (sub p1 p0)) = p1 := by apply V3.ext' <;> simp [add, smul, sub]
              rw [e]; simp
            · have hne : rest ≠ [] := fun e => by rw [e] at hpi; simp at hpi
              have hv0 : sub p1 p0 ≠ zero := by
                intro e; apply hz; exact ⟨hne, by rw [e]; simp [normSq, dot, zero]⟩
              have hc := (parallel_iff_cross _ _).mp (hpar pi hpi)
              have he := exists_smul_of_cross_zero hv0 hc
              rw [← he]
              have : add p0 (sub pi p0) = pi := by apply V3.ext' <;> simp [add, sub]
              rw [this]; simp [hpi]
          have hlo := BS.foldl_min_mem ((0 : Rat) :: 1 :: rest.map (fun pi => dot (sub pi p0) (sub p1 p0) / normSq (sub p1 p0))) 0
          have hhi := BS.foldl_max_mem ((0 : Rat) :: 1 :: rest.map (fun pi => dot (sub pi p0) (sub p1 p0) / normSq (sub p1 p0))) 0
          have hlo' : List.foldl min 0 ((0 : Rat) :: 1 :: rest.map (fun pi => dot (sub pi p0) (sub p1 p0) / normSq (sub p1 p0))) ∈
              (0 : Rat) :: 1 :: rest.map (fun pi => dot (sub pi p0) (sub p1 p0) / normSq (sub p1 p0)) := by
            rcases hlo with h' | h'
            · rw [h']; simp
            · exact h'
          have hhi' : List.foldl max 0 ((0 : Rat) :: 1 :: rest.map (fun pi => dot (sub pi p0) (sub p1 p0) / normSq (sub p1 p0))) ∈
              (0 : Rat) :: 1 :: rest.map (fun pi => dot (sub pi p0) (sub p1 p0) / normSq (sub p1 p0)) := by
            rcases hhi with h' | h'
            · rw [h']; simp
            · exact h'
          have ma := hrel _ hlo'
          have mb := hrel _ hhi'
          split at h
          · cases h
          · rename_i hab
            cases h
            exact ⟨Seg.mk'_WF hab, ma, mb⟩
#print axioms segmentFromPointList_endpoints

/-! ### collected points -/
theorem ofPoints_sound {A B : V3 → Prop} (ps : List V3) (h : ∀ p ∈ ps, A p ∧ B p) : Sound (ofPoints ps) A B := by
  cases ps with
  | nil => exact Sound.none
  | cons p t =>
    cases t with
    | nil => exact Sound.pt (h p (by simp)).1 (h p (by simp)).2
    | cons q t2 =>
      cases t2 with
      | nil =>
        simp only [ofPoints, ofPointSet, mkSeg]
        by_cases hpq : p = q
        · rw [if_pos hpq]; exact Sound.error _
        · rw [if_neg hpq]
          exact Sound.seg (s := Seg.mk' p q) (Seg.mk'_WF hpq) (h p (by simp)) (h q (by simp))
      | cons r t3 => exact Sound.error _

theorem BS.all_addNew {Q : V3 → Prop} {acc : List V3} {q : V3} (hacc : ∀ p ∈ acc, Q p) (hq : Q q) :
    ∀ p ∈ addNew acc q, Q p := by
  intro p hp
  rcases (mem_addNew acc q p).mp hp with h | rfl
  · exact hacc p h
  · exact hq

theorem faceHits_inv (Q : V3 → Prop) (facePt : Polygon → ResB) :
    ∀ (fs : List Polygon) (acc out : List V3),
      (∀ f ∈ fs, ∀ q, facePt f = .ok (some (.flat (.point q))) → Q q) →
      (∀ p ∈ acc, Q p) → faceHits facePt fs acc = .ok out → ∀ p ∈ out, Q p := by
  intro fs
  induction fs with
  | nil => intro acc out _ hacc h; simp only [faceHits] at h; cases h; exact hacc
  | cons f fs ih =>
    intro acc out hf hacc h
    have hf' : ∀ f' ∈ fs, ∀ q, facePt f' = .ok (some (.flat (.point q))) → Q q :=
      fun f' hm => hf f' (by simp [hm])
    unfold faceHits at h
    split at h
    · exact ih acc out hf' hacc h
    · exact ih acc out hf' hacc h
    · rename_i q hq
      exact ih _ out hf' (BS.all_addNew hacc (hf f (by simp) q hq)) h
    · cases h
    · cases h

theorem edgeHits_inv (Q : V3 → Prop) (edgePt : Seg → Res) :
    ∀ (ss : List Seg) (acc out : List V3),
      (∀ s ∈ ss, ∀ q, edgePt s = .ok (some (.point q)) → Q q) →
      (∀ p ∈ acc, Q p) → edgeHits edgePt ss acc = .ok out → ∀ p ∈ out, Q p := by
  intro ss
  induction ss with
  | nil => intro acc out _ hacc h; simp only [edgeHits] at h; cases h; exact hacc
  | cons s ss ih =>
    intro acc out hs hacc h
    have hs' : ∀ s' ∈ ss, ∀ q, edgePt s' = .ok (some (.point q)) → Q q :=
      fun s' hm => hs s' (by simp [hm])
    unfold edgeHits at h
    split at h
    · exact ih acc out hs' hacc h
    · exact ih acc out hs' hacc h
    · rename_i q hq
      exact ih _ out hs' (BS.all_addNew hacc (hs s (by simp) q hq)) h
    · cases h

theorem boundaryHits_inv (Q : V3 → Prop) (facePt : Polygon → ResB) (edgePt : Seg → Res) (B : Polyhedron)
    (hf : ∀ f ∈ B.faces, ∀ q, facePt f = .ok (some (.flat (.point q))) → Q q)
    (he : ∀ s ∈ B.edges, ∀ q, edgePt s = .ok (some (.point q)) → Q q)
    (out : List V3) (h : boundaryHits facePt edgePt B = .ok out) : ∀ p ∈ out, Q p := by
  unfold boundaryHits at h
  cases h1 : faceHits facePt B.faces [] with
  | error e => rw [h1] at h; cases h
  | ok acc =>
    rw [h1] at h
    exact edgeHits_inv Q edgePt B.edges acc out he
      (faceHits_inv Q facePt B.faces [] acc hf (by simp) h1) h

/-- a Point result of an exact flat handler lies in both operands -/
theorem Exact.point_mem {r : Res} {A B : V3 → Prop} (h : Exact r A B) (q : V3) (hq : r = .ok (some (.point q))) :
    A q ∧ B q := by
  obtain ⟨o, ho, _, hd⟩ := h
  rw [hq] at ho; cases ho
  exact (hd q).mp rfl

theorem ExactB.point_mem {r : ResB} {A B : V3 → Prop} (h : ExactB r A B) (q : V3)
    (hq : r = .ok (some (.flat (.point q)))) : A q ∧ B q := by
  obtain ⟨o, ho, hd⟩ := h
  rw [hq] at ho; cases ho
  exact (hd q).mp rfl


theorem BS.liftC_ok {α : Type} {r : Except CErr α} {a : α} (h : liftC r = .ok a) : r = .ok a := by
  cases r with
  | error e => simp [liftC] at h
  | ok b => simp only [liftC] at h; cases h; rfl

/-! ### Point × ConvexPolyhedron -/
theorem interPointPolyhedron_sound (p : V3) (B : Polyhedron) :
    Sound (interPointPolyhedron p B) (· = p) (BodyDen B) := by
  unfold interPointPolyhedron
  by_cases hc : B.contains p = true
  · rw [if_pos hc]; exact Sound.pt rfl hc
  · rw [if_neg hc]; exact Sound.none

/-! ### Line × ConvexPolyhedron -/
theorem interLinePolyhedron_loop_sound (l : Line) (hl : l.WF) (B : Polyhedron) (hg : B.Good) :
    ∀ (fs : List Polygon) (acc : List V3), (∀ f ∈ fs, f ∈ B.faces) → (∀ p ∈ acc, l.den p ∧ BodyDen B p) →
      Sound (interLinePolyhedron.loop l fs acc) l.den (BodyDen B) := by
  intro fs
  induction fs with
  | nil =>
    intro acc _ hacc
    unfold interLinePolyhedron.loop
    split
    · exact Sound.none
    · rename_i p; exact Sound.pt (hacc p (by simp)).1 (hacc p (by simp)).2
    · refine Sound.bind _ _ (fun s hs => ?_)
      obtain ⟨hw, ha, hb⟩ := segmentFromPointList_endpoints _ s hs
      exact Sound.seg hw (hacc _ ha) (hacc _ hb)
  | cons f fs ih =>
    intro acc hfs hacc
    have hfB := hfs f (by simp)
    obtain ⟨o, ho, hw, hd⟩ := interLinePolygon_exact l hl f (hg.faceValid f hfB)
    have hfs' : ∀ f' ∈ fs, f' ∈ B.faces := fun f' hm => hfs f' (by simp [hm])
    unfold interLinePolyhedron.loop
    rw [ho]
    rcases ObjFlatWF_cases o hw with rfl | ⟨q, rfl⟩ | ⟨s, rfl, hsW⟩
    · exact ih acc hfs' hacc
    · simp only
      have hq : l.den q ∧ InHull f.pts q := (hd q).mp rfl
      exact ih _ hfs' (BS.all_addNew hacc ⟨hq.1, hg.face_sub f hfB q hq.2⟩)
    · simp only
      have ha : l.den s.a ∧ InHull f.pts s.a := (hd s.a).mp s.den_a
      have hb : l.den s.b ∧ InHull f.pts s.b := (hd s.b).mp s.den_b
      exact Sound.seg hsW ⟨ha.1, hg.face_sub f hfB _ ha.2⟩ ⟨hb.1, hg.face_sub f hfB _ hb.2⟩

theorem interLinePolyhedron_sound (l : Line) (hl : l.WF) (B : Polyhedron) (hg : B.Good) :
    Sound (interLinePolyhedron l B) l.den (BodyDen B) :=
  interLinePolyhedron_loop_sound l hl B hg B.faces [] (fun _ h => h) (by simp)

/-! ### Plane × ConvexPolyhedron -/
theorem interPlanePolyhedron_loop_eq (a : Plane) : ∀ (ss : List Seg) (acc : List V3),
    interPlanePolyhedron.loop a ss acc = edgeHits (interPlaneSeg a) ss acc := by
  intro ss
  induction ss with
  | nil => intro acc; simp [interPlanePolyhedron.loop, edgeHits]
  | cons s ss ih =>
    intro acc
    rw [interPlanePolyhedron.loop, edgeHits]
    split <;> simp_all

theorem interPlanePolyhedron_hits (a : Plane) (B : Polyhedron) (hg : B.Good) (out : List V3)
    (h : interPlanePolyhedron.loop a B.edges [] = .ok out) : ∀ p ∈ out, a.den p ∧ BodyDen B p := by
  rw [interPlanePolyhedron_loop_eq] at h
  refine edgeHits_inv (fun p => a.den p ∧ BodyDen B p) _ B.edges [] out ?_ (by simp) h
  intro s hs q hq
  have := (interPlaneSeg_exact a s (hg.edgeWF s hs)).point_mem q hq
  exact ⟨this.1, hg.edge_sub s hs q this.2⟩

theorem interPlanePolyhedron_sound (a : Plane) (ha : a.WF) (B : Polyhedron) (hg : B.Good) :
    Sound (interPlanePolyhedron a B) a.den (BodyDen B) := by
  have key := interPlanePolyhedron_hits a B hg
  unfold interPlanePolyhedron
  split
  · rename_i f hfind
    have hfB : f ∈ B.faces := List.mem_of_find?_eq_some hfind
    have hin : f.inPlane a = true := by simpa using List.find?_some hfind
    apply Sound.polygon
    intro v hv
    have hval := hg.faceValid f hfB
    have hh := vertex_in_hull _ _ hv
    refine ⟨?_, hg.face_sub f hfB v hh⟩
    exact (Plane.eqv_den f.plane a (Polygon.plane_WF f hval) ha hin v).mp (Polygon.hull_in_plane f hval v hh)
  · split
    · exact Sound.error _
    · exact Sound.none
    · rename_i p h
      have := key _ h p (by simp)
      exact Sound.pt this.1 this.2
    · rename_i p q h
      refine Sound.bind _ _ (fun s hs => ?_)
      by_cases hpq : p = q
      · rw [if_pos hpq] at hs; simp [liftC] at hs
      · rw [if_neg hpq] at hs
        simp only [liftC] at hs; cases hs
        exact Sound.seg (Seg.mk'_WF hpq) (key _ h p (by simp)) (key _ h q (by simp))
    · rename_i ps _ _ _ h
      refine Sound.bind _ _ (fun P hP => ?_)
      obtain ⟨_, _, hsub, _, _⟩ := Polygon.mk?_ok ps false P (BS.liftC_ok hP)
      exact Sound.polygon (fun v hv => key _ h v (hsub v hv))

/-! ### Segment × ConvexPolyhedron -/
theorem segPolyhedronPointSet_hits (a : Seg) (ha : a.WF) (B : Polyhedron) (hg : B.Good) (out : List V3)
    (h : segPolyhedronPointSet a B = .ok out) : ∀ p ∈ out, a.den p ∧ BodyDen B p := by
  unfold segPolyhedronPointSet at h
  refine boundaryHits_inv (fun p => a.den p ∧ BodyDen B p) _ _ B ?_ ?_ out h
  · intro f hf q hq
    have := (interSegPolygon_exact a ha f (hg.faceValid f hf)).point_mem q hq
    exact ⟨this.1, hg.face_sub f hf q this.2⟩
  · intro s hs q hq
    have := (interSegSeg_exact s a (hg.edgeWF s hs) ha).point_mem q hq
    exact ⟨this.2, hg.edge_sub s hs q this.1⟩

theorem interSegPolyhedron_sound (a : Seg) (ha : a.WF) (B : Polyhedron) (hg : B.Good) :
    Sound (interSegPolyhedron a B) a.den (BodyDen B) := by
  unfold interSegPolyhedron
  by_cases hc : (B.contains a.a && B.contains a.b) = true
  · rw [if_pos hc]
    rw [Bool.and_eq_true] at hc
    exact Sound.seg ha ⟨a.den_a, hc.1⟩ ⟨a.den_b, hc.2⟩
  · rw [if_neg hc]
    refine Sound.bind _ _ (fun acc hacc => ?_)
    have hinv := segPolyhedronPointSet_hits a ha B hg acc hacc
    apply ofPoints_sound
    intro p hp
    split at hp
    · rename_i h1
      rw [Bool.and_eq_true] at h1
      exact BS.all_addNew hinv ⟨a.den_a, h1.1⟩ p hp
    · split at hp
      · rename_i h2
        rw [Bool.and_eq_true] at h2
        exact BS.all_addNew hinv ⟨a.den_b, h2.2⟩ p hp
      · exact hinv p hp

/-! ### ConvexPolyhedron × HalfLine -/
theorem HalfLine.den_p (h : HalfLine) : h.den h.p :=
  ⟨0, le_refl _, by apply V3.ext' <;> simp [add, smul]⟩

theorem interPolyhedronHalfLine_sound (B : Polyhedron) (hg : B.Good) (h : HalfLine) (hh : h.WF) :
    Sound (interPolyhedronHalfLine B h) h.den (BodyDen B) := by
  unfold interPolyhedronHalfLine
  refine Sound.bind _ _ (fun acc hacc => ?_)
  have hinv : ∀ p ∈ acc, h.den p ∧ BodyDen B p := by
    refine boundaryHits_inv (fun p => h.den p ∧ BodyDen B p) _ _ B ?_ ?_ acc hacc
    · intro f hf q hq
      have := (interPolygonHalfLine_exact f (hg.faceValid f hf) h hh).point_mem q hq
      exact ⟨this.1, hg.face_sub f hf q this.2⟩
    · intro s hs q hq
      have := (interSegHalfLine_exact s h (hg.edgeWF s hs) hh).point_mem q hq
      exact ⟨this.2, hg.edge_sub s hs q this.1⟩
  apply ofPoints_sound
  intro p hp
  split at hp
  · rename_i h1
    exact BS.all_addNew hinv ⟨h.den_p, h1⟩ p hp
  · exact hinv p hp

#print axioms interPointPolyhedron_sound
#print axioms interLinePolyhedron_sound
#print axioms interPlanePolyhedron_sound
#print axioms interSegPolyhedron_sound
#print axioms interPolyhedronHalfLine_sound
end G3D
