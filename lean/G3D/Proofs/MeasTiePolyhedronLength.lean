import G3D.Extracted.Mmeas
import G3D.Proofs.MeasTieBase
import G3D.Proofs.MeasTieSegment
/-! # mmeas, `ConvexPolyhedron.length`  (C06)
    `G3D.Extracted.m_ConvexPolyhedron_length` is regenerated on every run by tools/extract_mmeas.py from the BODY in
    geometry/polyhedron.py: `l = 0; for segment in self.segment_set: l += segment.length(); return l`.
    It is the sum of the square roots of the model's squared edge lengths, in whatever order the set is iterated.
    Unconditional.  Imports the tie of `Segment.length` because the Python delegates to it. -/
namespace G3D.MeasTie.Polyhedron
open G3D G3D.MeasRt G3D.KTie G3D.Extracted G3D.MeasTie Real

section length
/-- the accumulator loop is the sum of the segment lengths -/
theorem m_ConvexPolyhedron_length_sum (M : MPolyhedron) :
    m_ConvexPolyhedron_length M = (M.segment_set.map m_Segment_length).sum := by
  simp only [m_ConvexPolyhedron_length]
  rw [foldl_add_sum, zero_add]

/-- **`ConvexPolyhedron.length()` = Σ_edges √lenSq**, for every iteration order of `segment_set` -/
theorem m_ConvexPolyhedron_length_tie (B : Polyhedron) (M : MPolyhedron)
    (hs : List.Perm M.segment_set (B.edges.map segToM)) :
    m_ConvexPolyhedron_length M = (B.edgeLenSqs.map (fun q => √((q : ℚ) : ℝ))).sum := by
  rw [m_ConvexPolyhedron_length_sum, sum_map_perm hs]
  unfold Polyhedron.edgeLenSqs
  rw [List.map_map, List.map_map]
  apply sum_map_congr
  intro s _
  exact Segment.m_Segment_length_tie s

/-- in the model's own order -/
theorem m_ConvexPolyhedron_length_model (B : Polyhedron) :
    m_ConvexPolyhedron_length (bodyToM B) = (B.edgeLenSqs.map (fun q => √((q : ℚ) : ℝ))).sum :=
  m_ConvexPolyhedron_length_tie B (bodyToM B) (List.Perm.refl _)
end length

#print axioms m_ConvexPolyhedron_length_sum
#print axioms m_ConvexPolyhedron_length_tie
#print axioms m_ConvexPolyhedron_length_model
end G3D.MeasTie.Polyhedron
