import G3D.Extracted.Kvecr
import G3D.Proofs.VecRLemmas
import G3D.Model.Angle
import Mathlib.Analysis.Real.Sqrt
import Mathlib.Tactic.Ring
import Mathlib.Tactic.Linarith
import Mathlib.Tactic.FieldSimp
import Mathlib.Tactic.Positivity
/-! # kvec, `Vector.angle` cosine  (C11)
    `G3D.Extracted.impl_*` are regenerated on every run (tools/extract_kvecr.py, engine tools/kernels_engine.py): the REAL code is run on
    symbolic numbers, every comparison against the tolerance is recorded (operands and shape) and answered from a scripted
    path.  Each kernel has its own `section`: when the walk of ONE kernel fails the generated file holds only the marker
    `impl_<kernel>_EXTRACTION_FAILED` for it and exactly the theorems of that section stop compiling.
    (The ties of the group kvec are spread over five modules, one per property served: KTieKvecEq (C08), KTieKvecOrth (C11),
    KTieKvecLen (C06), KTieKvecPar (C11, C19; imported by the membership ties), KTieKvecAngle (C11).) -/
namespace G3D.KTie.Kvec
open G3D G3D.Extracted Real

section angle
theorem angle_cosine_tie (a b : RVec) :
    impl_angle_cosine a b = RVec.dot a b / (√(RVec.normSq a) * √(RVec.normSq b)) := by
  simp only [impl_angle_cosine, sum0]
  congr 1
  simp only [RVec.dot]; ring

/-- cos² as computed = the model's `cosSqVec` (unconditionally: both sides are 0 when a vector is zero) -/
theorem angle_cosSq (a b : V3) : (impl_angle_cosine a.toR b.toR) ^ 2 = ((cosSqVec a b : ℚ) : ℝ) := by
  rw [angle_cosine_tie, div_pow, mul_pow, Real.sq_sqrt (nsq_nonneg _), Real.sq_sqrt (nsq_nonneg _),
    toR_dot, toR_normSq, toR_normSq]
  simp only [cosSqVec]; push_cast; ring

/-- Cauchy–Schwarz: the clamp `max(-1.0, min(1.0, cosine))` is the identity on exact values -/
theorem angle_cosine_range (a b : RVec) : -1 ≤ impl_angle_cosine a b ∧ impl_angle_cosine a b ≤ 1 := by
  have hsq : (impl_angle_cosine a b) ^ 2 ≤ 1 := by
    rw [angle_cosine_tie, div_pow, mul_pow, Real.sq_sqrt (nsq_nonneg _), Real.sq_sqrt (nsq_nonneg _)]
    have hl := lagrangeR a b
    have hc := nsq_nonneg (RVec.cross a b)
    have hAB : 0 ≤ RVec.normSq a * RVec.normSq b := mul_nonneg (nsq_nonneg a) (nsq_nonneg b)
    apply div_le_one_of_le₀ _ hAB
    linarith
  have := abs_le_one_iff_mul_self_le_one.mpr (by nlinarith : impl_angle_cosine a b * impl_angle_cosine a b ≤ 1)
  exact abs_le.mp this

theorem angle_path : impl_angle_path = [("R < 1.0", true), ("R > -1.0", true)] := by decide
end angle

end G3D.KTie.Kvec
