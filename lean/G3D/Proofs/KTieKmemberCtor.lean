import G3D.Extracted.Kmember
import G3D.Proofs.KTieKmember
/-! # kmember (rational part), constructor pins: the comparisons of `HalfLine(Point, Vector)`  (C19)
    `G3D.Extracted.impl_*` are regenerated on every run (tools/extract_kmember.py, engine tools/kernels_engine.py): the REAL code is run on
    symbolic numbers, every comparison against the tolerance is recorded (operands and shape) and answered from a scripted
    path.  Each kernel has its own `section`: when the walk of ONE kernel fails the generated file holds only the marker
    `impl_<kernel>_EXTRACTION_FAILED` for it and exactly the theorems of that section stop compiling. -/
namespace G3D.KTie.Kmember
open G3D V3 G3D.Extracted

section halfLineCtor
theorem halfLineCtor_path : impl_halfLineCtor_path = [("R < eps", false), ("abs(R) < eps", false)] := by decide
end halfLineCtor

section combined
/-- (conjunction of `halfLineContains_paths` and `halfLineCtor_path`, kept under its former name) -/
theorem halfLineContains_shape :
    impl_halfLineContains_shape = "R > -eps" ∧
    impl_halfLineContains_path = [("abs(R) < eps", false), ("abs(R) < eps", false), ("abs(R) < eps", false), ("abs(R) < (eps * S)", true), ("R > -eps", true)] ∧
    impl_halfLineContainsOffLine_path = [("abs(R) < eps", false), ("abs(R) < eps", false), ("abs(R) < eps", false), ("abs(R) < (eps * S)", false)] ∧
    impl_halfLineCtor_path = [("R < eps", false), ("abs(R) < eps", false)] :=
  ⟨halfLineContains_paths.1, halfLineContains_paths.2.1, halfLineContains_paths.2.2, halfLineCtor_path⟩
end combined

end G3D.KTie.Kmember
