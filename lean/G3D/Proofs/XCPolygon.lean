import G3D.Proofs.Xf2
import G3D.Proofs.MeasPolygon
import G3D.Proofs.SameSet
import Mathlib.Tactic.Ring
import Mathlib.Tactic.Linarith
import Mathlib.Tactic.LinearCombination
import Mathlib.Tactic.Positivity

/-! # C13, constructors: `ConvexPolygon(points, reverse)` commutes with every `T : Xf` (signed axis permutation `σ`,
    scaling `k > 0`, translation)

    `XC.mk?_xf` — UNCONDITIONALLY (no convexity hypothesis, every input list, both values of `reverse`):

      `Polygon.mk? (T.pts i) rev = (Polygon.mk? i rev).map (XC.img T)`

    i.e. the constructor raises the same exception on the transformed input, and on success it stores exactly the image
    `XC.img T P` of what it stores for the original input: the SAME vertex order (`T.pts P.pts`, no rotation of the
    cycle), plane point `T.pt P.plane.p`, centre `T.pt P.center`, and normal `det σ · k² · σ n`
    (`= k² · T.pnrm n`, a positive multiple of the pseudo-vector image of the normal).
    The reason: in the constructor's frame the two components of the sort key are multiplied by `k²` and `k⁴`, which
    changes neither the angle class nor the sign of any cross product of two keys.

    Consequences (`XC.img_*`, `XC.mk?_xf_ok`): validity, vertex set, centre, `==` with `T.polygon P`, membership
    (Bool level and hull level), squared area `× k⁴`, squared edge lengths `× k²`; `StrictConvexPos` is preserved
    (`XC.strictConvexPos_pts`). -/
namespace G3D
open V3
open XfAux

/-! ### the image of a stored polygon -/
/-- the normal the constructor computes from transformed points: `det σ · k² · σ n` -/
def XC.cnrm (T : Xf) (n : V3) : V3 := smul (T.s.det * T.k^2) (T.s.apply n)

/-- what the constructor stores for the transformed input -/
def XC.img (T : Xf) (P : Polygon) : Polygon :=
  ⟨T.pts P.pts, ⟨T.pt P.plane.p, XC.cnrm T P.plane.n⟩, T.pt P.center⟩

theorem XC.cnrm_eq (T : Xf) (n : V3) : XC.cnrm T n = smul (T.k^2) (T.pnrm n) := by
  simp only [XC.cnrm, Xf.pnrm, Xf.nrm, smul_smul']
  congr 1; ring

theorem XC.cross_dir (T : Xf) (u v : V3) : cross (T.dir u) (T.dir v) = XC.cnrm T (cross u v) := T.cross_dir u v

theorem XC.apply_neg (s : SP) (v : V3) : s.apply (neg v) = neg (s.apply v) := by
  obtain ⟨p, sx, sy, sz⟩ := s
  cases p <;> (apply V3.ext' <;> simp only [SP.apply, Perm3.apply, neg] <;> ring)

theorem XC.cnrm_neg (T : Xf) (n : V3) : XC.cnrm T (neg n) = neg (XC.cnrm T n) := by
  simp only [XC.cnrm, XC.apply_neg]
  apply V3.ext' <;> simp only [smul, neg] <;> ring

theorem XC.apply_eq_zero (s : SP) (v : V3) : s.apply v = zero ↔ v = zero := by
  constructor
  · intro h
    have : normSq v = 0 := by
      rw [← SP.normSq_apply s v, h]; simp [normSq, dot, zero]
    exact normSq_eq_zero.mp this
  · intro h; rw [h]; exact SP.apply_zero s

theorem XC.detk_ne (T : Xf) (hk : 0 < T.k) : T.s.det * T.k^2 ≠ 0 :=
  mul_ne_zero (SP.det_ne_zero T.s) (by positivity)

theorem XC.smul_zero' (c : Rat) : smul c zero = zero := by
  apply V3.ext' <;> simp [smul, zero]

theorem XC.cnrm_eq_zero (T : Xf) (hk : 0 < T.k) (n : V3) : XC.cnrm T n = zero ↔ n = zero := by
  constructor
  · intro h
    exact (XC.apply_eq_zero T.s n).mp (smul_eq_zero_of_ne (XC.detk_ne T hk) h)
  · intro h; rw [h, XC.cnrm, SP.apply_zero, XC.smul_zero']

theorem XC.dir_eq_zero (T : Xf) (hk : 0 < T.k) (v : V3) : T.dir v = zero ↔ v = zero := by
  constructor
  · intro h
    exact (XC.apply_eq_zero T.s v).mp (smul_eq_zero_of_ne (ne_of_gt hk) h)
  · intro h; rw [h]; exact T.dir_zero

theorem XC.dot_cnrm_dir (T : Xf) (n u : V3) : dot (XC.cnrm T n) (T.dir u) = (T.s.det * T.k^2 * T.k) * dot n u := by
  simp only [XC.cnrm, Xf.dir, dot_smul_left, dot_smul_right, SP.dot_apply]; ring

theorem XC.plane_contains (T : Xf) (hk : 0 < T.k) (p0 n x : V3) :
    (⟨T.pt p0, XC.cnrm T n⟩ : Plane).contains (T.pt x) = (⟨p0, n⟩ : Plane).contains x := by
  rw [Plane.contains_eq_inPlane, Plane.contains_eq_inPlane]
  simp only [inPlane]
  rw [Xf.pt_sub, XC.dot_cnrm_dir]
  exact beq_mul_zero (mul_ne_zero (XC.detk_ne T hk) (ne_of_gt hk)) _

/-! ### de-duplication -/
theorem XC.bne_pt (T : Xf) (hk : 0 < T.k) (x a : V3) : (T.pt x != T.pt a) = (x != a) := by
  simp only [bne, T.pt_beq hk]

theorem XC.dedupV_map (T : Xf) (hk : 0 < T.k) : ∀ l : List V3, dedupV (l.map T.pt) = (dedupV l).map T.pt := by
  intro l
  induction l with
  | nil => rfl
  | cons a l ih =>
    simp only [List.map_cons, dedupV, ih, List.filter_map, Function.comp_def, XC.bne_pt T hk]

theorem XC.dedupV_pts (T : Xf) (hk : 0 < T.k) (l : List V3) : dedupV (T.pts l) = T.pts (dedupV l) :=
  XC.dedupV_map T hk l

/-! ### the sort key: components multiplied by `k²` and `k⁴` -/
/-- componentwise positive rescaling of an angle key -/
def XC.sc (a b : Rat) (k : Rat × Rat) : Rat × Rat := (a * k.1, b * k.2)

theorem XC.angCls_scale {a b : Rat} (ha : 0 < a) (hb : 0 < b) (y z : Rat) : angCls (a * y) (b * z) = angCls y z := by
  unfold angCls
  have hz0 : b * z = 0 ↔ z = 0 := by
    constructor
    · intro h; exact (mul_eq_zero.mp h).resolve_left (ne_of_gt hb)
    · intro h; rw [h]; ring
  have hy0 : 0 ≤ a * y ↔ 0 ≤ y := by
    constructor
    · intro h; by_contra hn; have := not_le.mp hn; nlinarith
    · intro h; positivity
  have hzp : 0 < b * z ↔ 0 < z := by
    constructor
    · intro h; by_contra hn; have := not_lt.mp hn; nlinarith
    · intro h; positivity
  simp only [hz0, hy0, hzp]

theorem XC.kcross_scale (a b : Rat) (k1 k2 : Rat × Rat) :
    (XC.sc a b k1).1 * (XC.sc a b k2).2 - (XC.sc a b k1).2 * (XC.sc a b k2).1 =
      (a * b) * (k1.1 * k2.2 - k1.2 * k2.1) := by
  simp only [XC.sc]; ring

theorem XC.angLt_scale {a b : Rat} (ha : 0 < a) (hb : 0 < b) (k1 k2 : Rat × Rat) :
    angLt (XC.sc a b k1) (XC.sc a b k2) = angLt k1 k2 := by
  unfold angLt
  simp only [XC.kcross_scale]
  simp only [XC.sc, XC.angCls_scale ha hb, decide_pos_mul (mul_pos ha hb)]

theorem XC.angEq_scale {a b : Rat} (ha : 0 < a) (hb : 0 < b) (k1 k2 : Rat × Rat) :
    angEq (XC.sc a b k1) (XC.sc a b k2) = angEq k1 k2 := by
  unfold angEq
  simp only [XC.kcross_scale]
  simp only [XC.sc, XC.angCls_scale ha hb, beq_mul_zero (ne_of_gt (mul_pos ha hb))]

theorem XC.angInsert_map {a b : Rat} (ha : 0 < a) (hb : 0 < b) (f : V3 → V3) (k : Rat × Rat) (p : V3) :
    ∀ acc : List ((Rat × Rat) × V3),
      angInsert (XC.sc a b k) (f p) (acc.map (fun e => (XC.sc a b e.1, f e.2))) =
        (angInsert k p acc).map (fun e => (XC.sc a b e.1, f e.2)) := by
  intro acc
  induction acc with
  | nil => rfl
  | cons e acc ih =>
    obtain ⟨k', p'⟩ := e
    simp only [List.map_cons, angInsert, XC.angEq_scale ha hb, XC.angLt_scale ha hb]
    split
    · rfl
    · split
      · rfl
      · simp only [List.map_cons, ih]

theorem XC.foldl_angInsert_map {a b : Rat} (ha : 0 < a) (hb : 0 < b) (f : V3 → V3) (key key' : V3 → Rat × Rat)
    (hkey : ∀ p, key' (f p) = XC.sc a b (key p)) :
    ∀ (ded : List V3) (acc : List ((Rat × Rat) × V3)),
      (ded.map f).foldl (fun acc p => angInsert (key' p) p acc) (acc.map (fun e => (XC.sc a b e.1, f e.2))) =
      (ded.foldl (fun acc p => angInsert (key p) p acc) acc).map (fun e => (XC.sc a b e.1, f e.2)) := by
  intro ded
  induction ded with
  | nil => intro acc; rfl
  | cons d ds ih =>
    intro acc
    simp only [List.map_cons, List.foldl_cons, hkey, XC.angInsert_map ha hb, ih]

/-- the key of the image point in the image frame -/
theorem XC.key_img (T : Xf) (pv v0 n : V3) :
    (dot (T.dir pv) (T.dir v0), dot (T.dir pv) (cross (XC.cnrm T n) (T.dir v0))) =
      XC.sc (T.k^2) (T.k^4) (dot pv v0, dot pv (cross n v0)) := by
  simp only [XC.sc]
  congr 1
  · exact T.dot_dir pv v0
  · simp only [XC.cnrm, Xf.dir, cross_smul_smul, SP.cross_apply, smul_smul', dot_smul_left, dot_smul_right,
      SP.dot_apply]
    linear_combination (T.k^4 * dot pv (cross n v0)) * SP.det_mul_self T.s

/-! ### the constructor -/
/-- **C13, `ConvexPolygon(points, reverse)` commutes with `T`** — unconditionally: same exceptions, and on success
    the stored record is the image record (same vertex ORDER, image plane point and centre, normal `det σ·k²·σ n`) -/
theorem XC.mk?_map (T : Xf) (hk : 0 < T.k) (l : List V3) (rev : Bool) :
    Polygon.mk? (l.map T.pt) rev = (Polygon.mk? l rev).map (XC.img T) := by
  unfold Polygon.mk?
  simp only [XC.dedupV_map T hk, List.length_map]
  by_cases hlen : l.length < 3
  · simp only [if_pos hlen]; rfl
  · simp only [if_neg hlen]
    cases hded : dedupV l with
    | nil => rfl
    | cons p0 r1 =>
      cases r1 with
      | nil => rfl
      | cons p1 r2 =>
        cases r2 with
        | nil => rfl
        | cons p2 rest =>
          have hm : meanV (T.pt p0 :: T.pt p1 :: T.pt p2 :: rest.map T.pt) =
              T.pt (meanV (p0 :: p1 :: p2 :: rest)) := by
            have := T.meanV_pts (p0 :: p1 :: p2 :: rest) (by simp)
            simpa [Xf.pts] using this
          simp only [List.map_cons, hm, Xf.pt_sub, XC.cross_dir]
          by_cases hn0 : cross (sub p1 p0) (sub p2 p0) = zero
          · have hn0' : XC.cnrm T (cross (sub p1 p0) (sub p2 p0)) = zero := (XC.cnrm_eq_zero T hk _).mpr hn0
            simp only [if_pos hn0, if_pos hn0']; rfl
          · have hn0' : ¬ XC.cnrm T (cross (sub p1 p0) (sub p2 p0)) = zero :=
              fun h => hn0 ((XC.cnrm_eq_zero T hk _).mp h)
            simp only [if_neg hn0, if_neg hn0']
            by_cases hv0 : sub p0 (meanV (p0 :: p1 :: p2 :: rest)) = zero
            · have hv0' : T.dir (sub p0 (meanV (p0 :: p1 :: p2 :: rest))) = zero := (XC.dir_eq_zero T hk _).mpr hv0
              simp only [if_pos hv0, if_pos hv0']; rfl
            · have hv0' : ¬ T.dir (sub p0 (meanV (p0 :: p1 :: p2 :: rest))) = zero :=
                fun h => hv0 ((XC.dir_eq_zero T hk _).mp h)
              simp only [if_neg hv0, if_neg hv0']
              have hnn : (if rev = true then neg (XC.cnrm T (cross (sub p1 p0) (sub p2 p0)))
                    else XC.cnrm T (cross (sub p1 p0) (sub p2 p0))) =
                  XC.cnrm T (if rev = true then neg (cross (sub p1 p0) (sub p2 p0))
                    else cross (sub p1 p0) (sub p2 p0)) := by
                cases rev
                · simp
                · simp [XC.cnrm_neg]
              rw [hnn]
              generalize (if rev = true then neg (cross (sub p1 p0) (sub p2 p0)) else cross (sub p1 p0) (sub p2 p0)) = n
              have hall : (T.pt p0 :: T.pt p1 :: T.pt p2 :: rest.map T.pt).all
                    (⟨T.pt p0, XC.cnrm T n⟩ : Plane).contains =
                  (p0 :: p1 :: p2 :: rest).all (⟨p0, n⟩ : Plane).contains := by
                have : (T.pt p0 :: T.pt p1 :: T.pt p2 :: rest.map T.pt) =
                    (p0 :: p1 :: p2 :: rest).map T.pt := by simp
                rw [this, List.all_map]
                congr 1
                funext x
                exact XC.plane_contains T hk p0 n x
              rw [hall]
              by_cases hc : (!(p0 :: p1 :: p2 :: rest).all (⟨p0, n⟩ : Plane).contains) = true
              · simp only [if_pos hc]; rfl
              · simp only [if_neg hc]
                have hsort := XC.foldl_angInsert_map (a := T.k^2) (b := T.k^4) (by positivity) (by positivity) T.pt
                  (fun p => (dot (sub p (meanV (p0 :: p1 :: p2 :: rest))) (sub p0 (meanV (p0 :: p1 :: p2 :: rest))),
                    dot (sub p (meanV (p0 :: p1 :: p2 :: rest))) (cross n (sub p0 (meanV (p0 :: p1 :: p2 :: rest))))))
                  (fun p => (dot (sub p (T.pt (meanV (p0 :: p1 :: p2 :: rest))))
                      (T.dir (sub p0 (meanV (p0 :: p1 :: p2 :: rest)))),
                    dot (sub p (T.pt (meanV (p0 :: p1 :: p2 :: rest))))
                      (cross (XC.cnrm T n) (T.dir (sub p0 (meanV (p0 :: p1 :: p2 :: rest)))))))
                  (fun p => by simp only [Xf.pt_sub]; exact XC.key_img T _ _ _) (p0 :: p1 :: p2 :: rest) []
                simp only [List.map_cons, List.map_nil] at hsort
                simp only [Except.map, XC.img, Xf.pts]
                rw [hsort]
                simp only [List.map_map, Function.comp_def]

theorem XC.mk?_xf (T : Xf) (hk : 0 < T.k) (i : List V3) (rev : Bool) :
    Polygon.mk? (T.pts i) rev = (Polygon.mk? i rev).map (XC.img T) := XC.mk?_map T hk i rev
#print axioms XC.mk?_xf

/-- success on the original input gives success on the transformed input, with the image record -/
theorem XC.mk?_xf_ok (T : Xf) (hk : 0 < T.k) (i : List V3) (rev : Bool) (P : Polygon)
    (h : Polygon.mk? i rev = .ok P) : Polygon.mk? (T.pts i) rev = .ok (XC.img T P) := by
  rw [XC.mk?_xf T hk, h]; rfl

/-- … and conversely every result on the transformed input is the image of a result on the original input -/
theorem XC.mk?_xf_ok_inv (T : Xf) (hk : 0 < T.k) (i : List V3) (rev : Bool) (P' : Polygon)
    (h : Polygon.mk? (T.pts i) rev = .ok P') : ∃ P, Polygon.mk? i rev = .ok P ∧ P' = XC.img T P := by
  rw [XC.mk?_xf T hk] at h
  cases hP : Polygon.mk? i rev with
  | error e => rw [hP] at h; cases h
  | ok P => rw [hP] at h; cases h; exact ⟨P, rfl, rfl⟩

/-- the same exception is raised -/
theorem XC.mk?_xf_error (T : Xf) (hk : 0 < T.k) (i : List V3) (rev : Bool) (e : CErr) :
    Polygon.mk? (T.pts i) rev = .error e ↔ Polygon.mk? i rev = .error e := by
  rw [XC.mk?_xf T hk]
  cases Polygon.mk? i rev with
  | error e' => simp [Except.map]
  | ok P => simp [Except.map]

/-- success is equivalent -/
theorem XC.mk?_xf_isOk (T : Xf) (hk : 0 < T.k) (i : List V3) (rev : Bool) :
    (∃ P', Polygon.mk? (T.pts i) rev = .ok P') ↔ (∃ P, Polygon.mk? i rev = .ok P) :=
  ⟨fun ⟨P', h⟩ => let ⟨P, hP, _⟩ := XC.mk?_xf_ok_inv T hk i rev P' h; ⟨P, hP⟩,
   fun ⟨P, h⟩ => ⟨_, XC.mk?_xf_ok T hk i rev P h⟩⟩

/-! ### strictly convex position is preserved (`d ↦ σ d`) -/
theorem XC.dot_nrm_pt (T : Xf) (d q : V3) : dot (T.nrm d) (T.pt q) = T.k * dot d q + dot (T.nrm d) T.t := by
  have h := SP.dot_apply T.s d q
  simp only [Xf.nrm, Xf.pt]
  simp only [dot, add, smul] at h ⊢
  linear_combination T.k * h

theorem XC.strictConvexPos_pts (T : Xf) (hk : 0 < T.k) (l : List V3) (h : StrictConvexPos l) :
    StrictConvexPos (T.pts l) := by
  intro p' hp'
  obtain ⟨p, hp, rfl⟩ := List.mem_map.mp hp'
  obtain ⟨d, hd⟩ := h p hp
  refine ⟨T.nrm d, fun q' hq' hne => ?_⟩
  obtain ⟨q, hq, rfl⟩ := List.mem_map.mp hq'
  have := hd q hq (fun e => hne (by rw [e]))
  rw [XC.dot_nrm_pt, XC.dot_nrm_pt]
  nlinarith

theorem XC.strictConvexPos_pts_iff (T : Xf) (hk : 0 < T.k) (l : List V3) :
    StrictConvexPos (T.pts l) ↔ StrictConvexPos l := by
  refine ⟨fun h => ?_, XC.strictConvexPos_pts T hk l⟩
  intro p hp
  obtain ⟨d', hd'⟩ := h (T.pt p) (List.mem_map.mpr ⟨p, hp, rfl⟩)
  obtain ⟨d, rfl⟩ := SP.apply_surjective T.s d'
  refine ⟨d, fun q hq hne => ?_⟩
  have := hd' (T.pt q) (List.mem_map.mpr ⟨q, hq, rfl⟩) (fun e => hne (T.pt_injective hk e))
  have e1 := XC.dot_nrm_pt T d q
  have e2 := XC.dot_nrm_pt T d p
  simp only [Xf.nrm] at e1 e2
  rw [e1, e2] at this
  nlinarith

theorem XC.strictConvexPos_dedupV_pts (T : Xf) (hk : 0 < T.k) (i : List V3) (h : StrictConvexPos (dedupV i)) :
    StrictConvexPos (dedupV (T.pts i)) := by
  rw [XC.dedupV_pts T hk]; exact XC.strictConvexPos_pts T hk _ h

/-! ### properties of the image record -/
theorem XC.img_pts (T : Xf) (P : Polygon) : (XC.img T P).pts = T.pts P.pts := rfl
theorem XC.img_center (T : Xf) (P : Polygon) : (XC.img T P).center = T.pt P.center := rfl
theorem XC.img_plane_p (T : Xf) (P : Polygon) : (XC.img T P).plane.p = T.pt P.plane.p := rfl
/-- the stored normal is a POSITIVE multiple (`k²`) of the pseudo-vector image of the normal -/
theorem XC.img_plane_n (T : Xf) (P : Polygon) : (XC.img T P).plane.n = smul (T.k^2) (T.pnrm P.plane.n) :=
  XC.cnrm_eq T _

theorem XC.inPlane_cnrm (T : Xf) (hk : 0 < T.k) (n p x : V3) :
    inPlane (XC.cnrm T n) (T.pt p) (T.pt x) = inPlane n p x := by
  have := XC.plane_contains T hk p n x
  rwa [Plane.contains_eq_inPlane, Plane.contains_eq_inPlane] at this

theorem XC.orient_cnrm (T : Xf) (n a b c : V3) :
    orient (XC.cnrm T n) (T.pt a) (T.pt b) (T.pt c) = T.k^4 * orient n a b c := by
  rw [XC.cnrm_eq, orient_smul, T.orient_pnrm]; ring

theorem XC.img_valid (T : Xf) (hk : 0 < T.k) (P : Polygon) (hv : P.Valid) : (XC.img T P).Valid := by
  obtain ⟨p0, p1, p2, rest, hp, hpl, htp⟩ := hv
  refine ⟨T.pt p0, T.pt p1, T.pt p2, T.pts rest, by simp [XC.img, Xf.pts, hp], ?_, ?_⟩
  · intro p hpm
    simp only [XC.img, Xf.pts, List.mem_map] at hpm
    obtain ⟨q, hq, rfl⟩ := hpm
    simp only [XC.img]
    rw [XC.inPlane_cnrm T hk]; exact hpl q hq
  · show triplesPos (XC.cnrm T P.plane.n) (T.pts P.pts)
    rw [XC.cnrm_eq, triplesPos_smul_pos _ (by positivity)]
    exact T.triplesPos_pts hk _ _ htp

theorem XC.edgeTest_cnrm (T : Xf) (hk : 0 < T.k) (n a b x : V3) :
    decide (0 ≤ orient (XC.cnrm T n) (T.pt a) (T.pt b) (T.pt x)) = decide (0 ≤ orient n a b x) := by
  rw [XC.orient_cnrm]
  exact decide_nonneg_mul (by positivity) _

/-- C13 (membership, constructed polygon), Bool level, no validity needed -/
theorem XC.img_contains (T : Xf) (hk : 0 < T.k) (P : Polygon) (x : V3) :
    (XC.img T P).contains (T.pt x) = P.contains x := by
  rw [Polygon.contains_eq, Polygon.contains_eq]
  simp only [XC.img, polyContains, XC.inPlane_cnrm T hk, T.closedPairs_pts, List.all_map]
  congr 1
  apply List.all_congr rfl
  intro e
  exact XC.edgeTest_cnrm T hk _ _ _ _

theorem XC.img_centreInside (T : Xf) (hk : 0 < T.k) (P : Polygon) (hc : P.CentreInside) :
    (XC.img T P).CentreInside := by
  intro e he
  simp only [XC.img, T.closedPairs_pts, List.mem_map] at he
  obtain ⟨e0, he0, rfl⟩ := he
  show 0 ≤ orient (XC.cnrm T P.plane.n) (T.pt e0.1) (T.pt e0.2) (T.pt P.center)
  rw [XC.orient_cnrm]
  have := hc e0 he0
  positivity

theorem XC.center_inPlane (T : Xf) (hk : 0 < T.k) (P : Polygon)
    (hc : G3D.inPlane P.plane.n P.plane.p P.center = true) :
    G3D.inPlane (XC.img T P).plane.n (XC.img T P).plane.p (XC.img T P).center = true := by
  simp only [XC.img]; rw [XC.inPlane_cnrm T hk]; exact hc

/-- C13 (equality): the constructed polygon is `==` to the transformed polygon (same vertex set, same carrier plane) -/
theorem XC.img_same (T : Xf) (hk : 0 < T.k) (P : Polygon) (hv : P.Valid) : (XC.img T P).same (T.polygon P) = true :=
  (Polygon.same_iff_same_verts _ _ (XC.img_valid T hk P hv) (T.polygon_valid hk P hv)).mpr (fun _ => Iff.rfl)

theorem XC.triNum_cnrm (T : Xf) (hk : 0 < T.k) (n c a b : V3) :
    triNum (XC.cnrm T n) (T.pt c) (T.pt a) (T.pt b) = T.k^4 * triNum n c a b := by
  rw [XC.cnrm_eq]
  have h := T.triNum_pt hk n c a b
  unfold triNum at h ⊢
  rw [dot_smul_left, absQ_pos_mul (by positivity), h]; ring

/-- area numerator `× k⁴`, `n·n × k⁴`: the area (`areaNum / (2|n|)`) is multiplied by `k²` -/
theorem XC.img_areaNum (T : Xf) (hk : 0 < T.k) (P : Polygon) :
    (XC.img T P).areaNum = T.k^4 * P.areaNum ∧ normSq (XC.img T P).plane.n = T.k^4 * normSq P.plane.n := by
  constructor
  · unfold Polygon.areaNum
    simp only [XC.img]
    rw [T.closedPairs_pts, List.map_map, ← list_sum_map_mul_left]
    congr 1
    apply List.map_congr_left
    intro e _
    simp only [Function.comp]
    exact XC.triNum_cnrm T hk _ _ _ _
  · show normSq (XC.cnrm T P.plane.n) = _
    rw [XC.cnrm_eq, normSq_smul, T.normSq_pnrm]; ring

/-- C13 (area, constructed polygon): squared area `× k⁴` -/
theorem XC.img_areaSq (T : Xf) (hk : 0 < T.k) (P : Polygon) : (XC.img T P).areaSq = T.k^4 * P.areaSq := by
  unfold Polygon.areaSq
  rw [(XC.img_areaNum T hk P).1, (XC.img_areaNum T hk P).2]
  have hk4 : T.k^4 ≠ 0 := by positivity
  rw [show (T.k^4 * P.areaNum)^2 = T.k^4 * (T.k^4 * P.areaNum^2) by ring,
    show 4 * (T.k^4 * normSq P.plane.n) = T.k^4 * (4 * normSq P.plane.n) by ring,
    mul_div_mul_left _ _ hk4, mul_div_assoc]

/-- C13 (length, constructed polygon): squared edge lengths `× k²`, in the same order -/
theorem XC.img_edgeLenSqs (T : Xf) (P : Polygon) : (XC.img T P).edgeLenSqs = P.edgeLenSqs.map (T.k^2 * ·) := by
  simp only [Polygon.edgeLenSqs, XC.img]
  exact T.edgeLenSqs_pts P.pts

/-! ### the statement of the task -/
/-- **C13, ConvexPolygon constructor** (points in strictly convex position): building from the transformed points
    succeeds and gives a valid polygon with the transformed vertices IN THE SAME ORDER, the transformed centre and plane
    point, a normal that is a positive multiple of the pseudo-vector image; it is `==` to the transformed polygon;
    membership is transported, area² × k⁴, squared edge lengths × k² -/
theorem XC.polygon_ctor_xf (T : Xf) (hk : 0 < T.k) (i : List V3) (rev : Bool) (P : Polygon)
    (hx : StrictConvexPos (dedupV i)) (h : Polygon.mk? i rev = .ok P) :
    ∃ P', Polygon.mk? (T.pts i) rev = .ok P' ∧ P.Valid ∧ P'.Valid ∧
      P'.pts = T.pts P.pts ∧ (∀ p, p ∈ P'.pts ↔ p ∈ T.pts P.pts) ∧
      P'.center = T.pt P.center ∧ P'.plane.p = T.pt P.plane.p ∧
      P'.plane.n = smul (T.k^2) (T.pnrm P.plane.n) ∧
      P'.same (T.polygon P) = true ∧
      (∀ x, InHull P'.pts (T.pt x) ↔ InHull P.pts x) ∧
      (∀ x, P'.contains (T.pt x) = P.contains x) ∧
      P'.areaSq = T.k^4 * P.areaSq ∧ P'.edgeLenSqs = P.edgeLenSqs.map (T.k^2 * ·) := by
  obtain ⟨hv, _, _⟩ := Polygon.mk?_valid_of_strictConvex i rev P h hx
  exact ⟨XC.img T P, XC.mk?_xf_ok T hk i rev P h, hv, XC.img_valid T hk P hv, rfl, fun _ => Iff.rfl, rfl, rfl,
    XC.img_plane_n T P, XC.img_same T hk P hv, fun x => T.InHull_pts hk P.pts x, XC.img_contains T hk P,
    XC.img_areaSq T hk P, XC.img_edgeLenSqs T P⟩
#print axioms XC.polygon_ctor_xf

/-- **… from ANY listing of the transformed point set** (other order, repetitions, other value of `reverse`): the
    result `P'` is valid, has the transformed vertex set and centre, is `==` to the transformed polygon, membership is
    transported, area² × k⁴, squared edge lengths × k² as a multiset; and when its normal points the way of the
    pseudo-vector image its cycle is a rotation of the transformed cycle -/
theorem XC.polygon_ctor_xf_sameSet (T : Xf) (hk : 0 < T.k) (i i' : List V3) (rev rev' : Bool) (P P' : Polygon)
    (hx : StrictConvexPos (dedupV i)) (hset : ∀ p, p ∈ i' ↔ p ∈ T.pts i)
    (h : Polygon.mk? i rev = .ok P) (h' : Polygon.mk? i' rev' = .ok P') :
    P'.Valid ∧ (∀ p, p ∈ P'.pts ↔ p ∈ T.pts P.pts) ∧ P'.center = T.pt P.center ∧
      P'.same (T.polygon P) = true ∧
      (∀ x, InHull P'.pts (T.pt x) ↔ InHull P.pts x) ∧
      (∀ x, P'.contains (T.pt x) = P.contains x) ∧
      P'.areaSq = T.k^4 * P.areaSq ∧ List.Perm P'.edgeLenSqs (P.edgeLenSqs.map (T.k^2 * ·)) ∧
      ((∃ c : Rat, 0 < c ∧ P'.plane.n = smul c (T.pnrm P.plane.n)) →
        ∃ l1 l2, T.pts P.pts = l1 ++ l2 ∧ P'.pts = l2 ++ l1) := by
  obtain ⟨hv, _, _⟩ := Polygon.mk?_valid_of_strictConvex i rev P h hx
  have hQ := XC.mk?_xf_ok T hk i rev P h
  have hxT := XC.strictConvexPos_dedupV_pts T hk i hx
  have hx' : StrictConvexPos (dedupV i') :=
    hxT.perm (Meas.dedupV_perm_of_same_set i' (T.pts i) hset)
  obtain ⟨hv', _, _⟩ := Polygon.mk?_valid_of_strictConvex i' rev' P' h' hx'
  obtain ⟨ha, he, hc, hm⟩ := Polygon.mk?_measures_input_order i' (T.pts i) rev' rev P' (XC.img T P) hset hx' h' hQ
  have hvQ := XC.img_valid T hk P hv
  have hsame : P'.same (XC.img T P) = true := (Polygon.same_iff_same_verts _ _ hv' hvQ).mpr hm
  have hcont : ∀ y, P'.contains y = (XC.img T P).contains y :=
    (Polygon.same_iff_same_contains _ _ hv' hvQ).mp hsame
  refine ⟨hv', hm, hc, ?_, ?_, ?_, ?_, ?_, ?_⟩
  · exact (Polygon.same_iff_same_verts _ _ hv' (T.polygon_valid hk P hv)).mpr hm
  · intro x
    rw [← T.InHull_pts hk P.pts x]
    exact SameSet.hull_congr (fun p hp => (hm p).mp hp) (fun p hp => (hm p).mpr hp) (T.pt x)
  · intro x; rw [hcont, XC.img_contains T hk]
  · rw [ha, XC.img_areaSq T hk]
  · rw [← XC.img_edgeLenSqs]; exact he
  · rintro ⟨c, hc0, hn⟩
    obtain ⟨p0, p1, p2, rest, hp, _, htp⟩ := hv
    have hvT := T.polygon_valid hk P ⟨p0, p1, p2, rest, hp, ‹_›, htp⟩
    obtain ⟨_, _, _, _, hpT, _, htpT⟩ := hvT
    obtain ⟨q0, q1, q2, qr, hq, _, htq⟩ := hv'
    refine cycle_unique (T.pnrm P.plane.n) (T.pts P.pts) P'.pts ?_ (by rw [hq]; simp) htpT ?_ hm
    · have : (T.polygon P).pts = T.pts P.pts := rfl
      rw [← this, hpT]; simp
    · rw [hn] at htq
      exact (triplesPos_smul_pos c hc0 _ _).mp htq
#print axioms XC.polygon_ctor_xf_sameSet

end G3D
