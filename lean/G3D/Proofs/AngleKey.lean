import Mathlib.Analysis.SpecialFunctions.Complex.Arg
import Mathlib.Analysis.SpecialFunctions.Trigonometric.Arctan
import Mathlib.Tactic.Linarith
import Mathlib.Tactic.Positivity
import G3D.Model.Body
import G3D.Proofs.Sort

/-! # The exact angular comparator *is* `atan2` shifted into `[0, 2π)`

`ConvexPolygon._check_and_sort_points` sorts the vertices by

```python
vector_angle = math.atan2(z_coordinate, y_coordinate)
if vector_angle < 0:
    vector_angle += 2 * math.pi
```

`math.atan2(z, y)` is the principal argument of `y + z·i`, i.e. Mathlib's `Complex.arg ⟨y, z⟩`,
with values in `(-π, π]` and `atan2(0, 0) = 0 = Complex.arg 0`.

The model (`G3D/Model/Body.lean`) replaces the float key by the exact comparator `angLt` / `angEq`
on the rational pair `(y, z)`.  This file proves that the comparator decides exactly `<` / `=` on
the real key. -/

namespace G3D.AngleKey
open Real

/-- `math.atan2(z, y)` (note the argument order of `atan2`): the principal argument of `y + z i`,
    in `(-π, π]`, with `atan2 0 0 = 0`. -/
noncomputable def atan2 (z y : ℝ) : ℝ := Complex.arg ⟨y, z⟩

/-! ### `atan2` by the C-library case table agrees with `Complex.arg` -/

/-- `atan2(z, y)` as the C standard / Python `math.atan2` document it (real arguments, no signed zero) -/
noncomputable def atan2C (z y : ℝ) : ℝ :=
  if 0 < y then arctan (z / y)
  else if y < 0 then (if 0 ≤ z then arctan (z / y) + π else arctan (z / y) - π)
  else if 0 < z then π / 2 else if z < 0 then -(π / 2) else 0

theorem arg_eq_arctan_of_re_pos {y z : ℝ} (hy : 0 < y) : Complex.arg ⟨y, z⟩ = arctan (z / y) := by
  have h := Complex.abs_arg_lt_pi_div_two_iff.mpr (Or.inl (show 0 < (⟨y, z⟩ : ℂ).re from hy))
  rw [abs_lt] at h
  have ht := Complex.tan_arg ⟨y, z⟩
  simp only at ht
  rw [← ht, arctan_tan h.1 h.2]

theorem atan2C_eq_atan2 (z y : ℝ) : atan2C z y = atan2 z y := by
  unfold atan2C atan2
  by_cases hy : 0 < y
  · rw [if_pos hy, arg_eq_arctan_of_re_pos hy]
  · rw [if_neg hy]
    by_cases hy' : y < 0
    · rw [if_pos hy']
      have hneg : Complex.arg (-(⟨y, z⟩ : ℂ)) = arctan (z / y) := by
        have : (-(⟨y, z⟩ : ℂ)) = ⟨-y, -z⟩ := by apply Complex.ext <;> simp
        rw [this, arg_eq_arctan_of_re_pos (neg_pos.mpr hy'), neg_div_neg_eq]
      have hneg' : Complex.arg (-(⟨y, z⟩ : ℂ)) = arcsin ((-(⟨y, z⟩ : ℂ)).im / ‖(⟨y, z⟩ : ℂ)‖) := by
        rw [Complex.arg_of_re_nonneg (by simpa using hy'.le), norm_neg]
      by_cases hz : 0 ≤ z
      · rw [if_pos hz, Complex.arg_of_re_neg_of_im_nonneg (show (⟨y, z⟩ : ℂ).re < 0 from hy') hz,
          ← hneg', hneg]
      · rw [if_neg hz, Complex.arg_of_re_neg_of_im_neg (show (⟨y, z⟩ : ℂ).re < 0 from hy')
          (show (⟨y, z⟩ : ℂ).im < 0 from not_le.mp hz), ← hneg', hneg]
    · rw [if_neg hy']
      have hy0 : y = 0 := le_antisymm (not_lt.mp hy) (not_lt.mp hy')
      subst hy0
      by_cases hz : 0 < z
      · rw [if_pos hz]; exact (Complex.arg_eq_pi_div_two_iff.mpr ⟨rfl, hz⟩).symm
      · rw [if_neg hz]
        by_cases hz' : z < 0
        · rw [if_pos hz']; exact (Complex.arg_eq_neg_pi_div_two_iff.mpr ⟨rfl, hz'⟩).symm
        · rw [if_neg hz']
          have hz0 : z = 0 := le_antisymm (not_lt.mp hz) (not_lt.mp hz')
          subst hz0
          exact (Complex.arg_eq_zero_iff.mpr ⟨le_refl _, rfl⟩).symm

/-- the sort key exactly as the code computes it -/
noncomputable def key (y z : ℝ) : ℝ :=
  if atan2 z y < 0 then atan2 z y + 2 * π else atan2 z y

/-- the model's class function over `ℝ` -/
noncomputable def clsR (y z : ℝ) : ℕ :=
  if z = 0 then (if 0 ≤ y then 0 else 2) else if 0 < z then 1 else 3

theorem clsR_cast (y z : ℚ) : clsR (y : ℝ) (z : ℝ) = angCls y z := by
  simp only [clsR, angCls, Rat.cast_eq_zero, Rat.cast_nonneg, Rat.cast_pos]

theorem atan2_mem (z y : ℝ) : -π < atan2 z y ∧ atan2 z y ≤ π :=
  ⟨Complex.neg_pi_lt_arg _, Complex.arg_le_pi _⟩

/-- 1. the key lies in `[0, 2π)` -/
theorem key_range (y z : ℝ) : 0 ≤ key y z ∧ key y z < 2 * π := by
  obtain ⟨h1, h2⟩ := atan2_mem z y
  have := pi_pos
  unfold key
  split_ifs with h
  · constructor <;> linarith
  · constructor <;> linarith

/-- the key, class by class -/
theorem key_spec (y z : ℝ) :
    (clsR y z = 0 ∧ key y z = 0) ∨
    (clsR y z = 1 ∧ 0 < z ∧ key y z = atan2 z y ∧ 0 < atan2 z y ∧ atan2 z y < π) ∨
    (clsR y z = 2 ∧ key y z = π) ∨
    (clsR y z = 3 ∧ z < 0 ∧ key y z = atan2 z y + 2 * π ∧ -π < atan2 z y ∧ atan2 z y < 0) := by
  have hpi := pi_pos
  rcases lt_trichotomy z 0 with hz | hz | hz
  · -- class 3
    right; right; right
    have ha : atan2 z y < 0 := Complex.arg_neg_iff.mpr hz
    refine ⟨?_, hz, ?_, (atan2_mem z y).1, ha⟩
    · simp [clsR, hz.ne, not_lt.mpr hz.le]
    · simp [key, ha]
  · by_cases hy : 0 ≤ y
    · left
      have ha : atan2 z y = 0 := Complex.arg_eq_zero_iff.mpr ⟨hy, hz⟩
      exact ⟨by simp [clsR, hz, hy], by simp [key, ha]⟩
    · right; right; left
      have ha : atan2 z y = π := Complex.arg_eq_pi_iff.mpr ⟨not_le.mp hy, hz⟩
      exact ⟨by simp [clsR, hz, hy], by simp [key, ha, not_lt.mpr hpi.le]⟩
  · right; left
    have h0 : 0 ≤ atan2 z y := Complex.arg_nonneg_iff.mpr hz.le
    have h1 : atan2 z y ≠ 0 := fun h => hz.ne' (Complex.arg_eq_zero_iff.mp h).2
    have h2 : atan2 z y < π := Complex.arg_lt_pi_iff.mpr (Or.inr hz.ne')
    refine ⟨?_, hz, ?_, lt_of_le_of_ne h0 (Ne.symm h1), h2⟩
    · simp [clsR, hz.ne', hz]
    · simp [key, not_lt.mpr h0]

/-- `|v| |w| sin (arg w - arg v) = v × w` -/
theorem cross_eq_sin (y1 z1 y2 z2 : ℝ) :
    y1 * z2 - z1 * y2 =
      ‖(⟨y1, z1⟩ : ℂ)‖ * ‖(⟨y2, z2⟩ : ℂ)‖ * sin (atan2 z2 y2 - atan2 z1 y1) := by
  have c1 := Complex.norm_mul_cos_arg ⟨y1, z1⟩
  have s1 := Complex.norm_mul_sin_arg ⟨y1, z1⟩
  have c2 := Complex.norm_mul_cos_arg ⟨y2, z2⟩
  have s2 := Complex.norm_mul_sin_arg ⟨y2, z2⟩
  simp only at c1 s1 c2 s2
  unfold atan2
  rw [sin_sub]
  calc y1 * z2 - z1 * y2
      = (‖(⟨y1, z1⟩ : ℂ)‖ * cos (Complex.arg ⟨y1, z1⟩)) * (‖(⟨y2, z2⟩ : ℂ)‖ * sin (Complex.arg ⟨y2, z2⟩))
        - (‖(⟨y1, z1⟩ : ℂ)‖ * sin (Complex.arg ⟨y1, z1⟩)) * (‖(⟨y2, z2⟩ : ℂ)‖ * cos (Complex.arg ⟨y2, z2⟩)) := by
        rw [c1, s1, c2, s2]
    _ = _ := by ring

theorem norm_pos_of_im {y z : ℝ} (hz : z ≠ 0) : 0 < ‖(⟨y, z⟩ : ℂ)‖ := by
  rw [norm_pos_iff]
  intro h
  exact hz (by simpa using congrArg Complex.im h)

theorem sin_pos_iff_of_abs_lt_pi {d : ℝ} (h1 : -π < d) (h2 : d < π) : 0 < sin d ↔ 0 < d := by
  constructor
  · intro h
    by_contra hd
    have := sin_nonpos_of_nonpos_of_neg_pi_le (not_lt.mp hd) h1.le
    linarith
  · intro h; exact sin_pos_of_pos_of_lt_pi h h2

/-- two arguments less than `π` apart are ordered by the sign of the cross product -/
theorem atan2_lt_iff_cross {y1 z1 y2 z2 : ℝ} (hz1 : z1 ≠ 0) (hz2 : z2 ≠ 0)
    (h1 : -π < atan2 z2 y2 - atan2 z1 y1) (h2 : atan2 z2 y2 - atan2 z1 y1 < π) :
    atan2 z1 y1 < atan2 z2 y2 ↔ 0 < y1 * z2 - z1 * y2 := by
  have hN : 0 < ‖(⟨y1, z1⟩ : ℂ)‖ * ‖(⟨y2, z2⟩ : ℂ)‖ := mul_pos (norm_pos_of_im hz1) (norm_pos_of_im hz2)
  rw [cross_eq_sin, mul_pos_iff_of_pos_left hN, sin_pos_iff_of_abs_lt_pi h1 h2]
  constructor <;> intro h <;> linarith

theorem atan2_eq_iff_cross {y1 z1 y2 z2 : ℝ} (hz1 : z1 ≠ 0) (hz2 : z2 ≠ 0)
    (h1 : -π < atan2 z2 y2 - atan2 z1 y1) (h2 : atan2 z2 y2 - atan2 z1 y1 < π) :
    atan2 z1 y1 = atan2 z2 y2 ↔ y1 * z2 - z1 * y2 = 0 := by
  have hN : 0 < ‖(⟨y1, z1⟩ : ℂ)‖ * ‖(⟨y2, z2⟩ : ℂ)‖ := mul_pos (norm_pos_of_im hz1) (norm_pos_of_im hz2)
  rw [cross_eq_sin, mul_eq_zero, sin_eq_zero_iff_of_lt_of_lt h1 h2]
  constructor
  · intro h; right; linarith
  · rintro (h | h)
    · exact absurd h hN.ne'
    · linarith

/-- real form of 2.: `key` compares as the class / cross-product comparator -/
theorem key_lt_iff_real (y1 z1 y2 z2 : ℝ) :
    key y1 z1 < key y2 z2 ↔
      clsR y1 z1 < clsR y2 z2 ∨
      (clsR y1 z1 = clsR y2 z2 ∧ (clsR y1 z1 = 1 ∨ clsR y1 z1 = 3) ∧ 0 < y1 * z2 - z1 * y2) := by
  have hpi := pi_pos
  rcases key_spec y1 z1 with ⟨c1, k1⟩ | ⟨c1, hz1, k1, a1, b1⟩ | ⟨c1, k1⟩ | ⟨c1, hz1, k1, a1, b1⟩ <;>
  rcases key_spec y2 z2 with ⟨c2, k2⟩ | ⟨c2, hz2, k2, a2, b2⟩ | ⟨c2, k2⟩ | ⟨c2, hz2, k2, a2, b2⟩ <;>
  rw [c1, c2, k1, k2]
  -- (1,1) and (3,3) need the cross product; all others are decided by the bands
  case inr.inl.inr.inl =>
    rw [atan2_lt_iff_cross hz1.ne' hz2.ne' (by linarith) (by linarith)]
    simp
  case inr.inr.inr.inr.inr.inr =>
    rw [add_lt_add_iff_right, atan2_lt_iff_cross hz1.ne hz2.ne (by linarith) (by linarith)]
    simp
  all_goals
    first
    | (refine iff_of_true (by linarith) (Or.inl (by norm_num)))
    | (refine iff_of_false (by linarith) (by norm_num))

/-- real form of 3. -/
theorem key_eq_iff_real (y1 z1 y2 z2 : ℝ) :
    key y1 z1 = key y2 z2 ↔
      clsR y1 z1 = clsR y2 z2 ∧
        ((clsR y1 z1 = 0 ∨ clsR y1 z1 = 2) ∨ y1 * z2 - z1 * y2 = 0) := by
  have hpi := pi_pos
  rcases key_spec y1 z1 with ⟨c1, k1⟩ | ⟨c1, hz1, k1, a1, b1⟩ | ⟨c1, k1⟩ | ⟨c1, hz1, k1, a1, b1⟩ <;>
  rcases key_spec y2 z2 with ⟨c2, k2⟩ | ⟨c2, hz2, k2, a2, b2⟩ | ⟨c2, k2⟩ | ⟨c2, hz2, k2, a2, b2⟩ <;>
  rw [c1, c2, k1, k2]
  case inr.inl.inr.inl =>
    rw [atan2_eq_iff_cross hz1.ne' hz2.ne' (by linarith) (by linarith)]
    simp
  case inr.inr.inr.inr.inr.inr =>
    rw [add_left_inj, atan2_eq_iff_cross hz1.ne hz2.ne (by linarith) (by linarith)]
    simp
  all_goals
    first
    | (refine iff_of_true rfl (by norm_num))
    | (refine iff_of_false (by intro h; linarith) (by norm_num))

/-! ### the model's comparator on rational pairs -/

theorem angLt_iff_cls (q1 q2 : ℚ × ℚ) :
    angLt q1 q2 = true ↔
      angCls q1.1 q1.2 < angCls q2.1 q2.2 ∨
      (angCls q1.1 q1.2 = angCls q2.1 q2.2 ∧ (angCls q1.1 q1.2 = 1 ∨ angCls q1.1 q1.2 = 3) ∧
        0 < q1.1 * q2.2 - q1.2 * q2.1) := by
  unfold angLt
  simp only []
  split_ifs with h1 h2
  · simp [h1]
  · rw [decide_eq_true_iff]
    exact ⟨fun h => Or.inr ⟨h2.1, h2.2, h⟩, fun h => h.elim (fun h' => absurd h' h1) (fun h' => h'.2.2)⟩
  · simp only [false_iff, not_or]
    refine ⟨h1, fun h => h2 ⟨h.1, h.2.1⟩⟩

theorem angEq_iff_cls (q1 q2 : ℚ × ℚ) :
    angEq q1 q2 = true ↔
      angCls q1.1 q1.2 = angCls q2.1 q2.2 ∧
        ((angCls q1.1 q1.2 = 0 ∨ angCls q1.1 q1.2 = 2) ∨ q1.1 * q2.2 - q1.2 * q2.1 = 0) := by
  unfold angEq
  simp only [Bool.and_eq_true, Bool.or_eq_true, beq_iff_eq]

theorem cross_cast (q1 q2 : ℚ × ℚ) :
    (q1.1 : ℝ) * (q2.2 : ℝ) - (q1.2 : ℝ) * (q2.1 : ℝ) = ((q1.1 * q2.2 - q1.2 * q2.1 : ℚ) : ℝ) := by
  push_cast; ring

/-- 2. `angLt` decides `<` on the code's key.  No hypothesis is needed: the pair `(0,0)` has
    `atan2 0 0 = 0` (Python and `Complex.arg` agree) and the model puts it into class 0. -/
theorem key_lt_iff (q1 q2 : ℚ × ℚ) :
    key (q1.1 : ℝ) (q1.2 : ℝ) < key (q2.1 : ℝ) (q2.2 : ℝ) ↔ angLt q1 q2 = true := by
  rw [key_lt_iff_real, angLt_iff_cls, clsR_cast, clsR_cast, cross_cast, Rat.cast_pos]

/-- 3. `angEq` decides `=` on the code's key (dict-key collision) -/
theorem key_eq_iff (q1 q2 : ℚ × ℚ) :
    key (q1.1 : ℝ) (q1.2 : ℝ) = key (q2.1 : ℝ) (q2.2 : ℝ) ↔ angEq q1 q2 = true := by
  rw [key_eq_iff_real, angEq_iff_cls, clsR_cast, clsR_cast, cross_cast, Rat.cast_eq_zero]

/-- 4. isotropic scale invariance of the key itself -/
theorem key_scale {c : ℝ} (hc : 0 < c) (y z : ℝ) : key (c * y) (c * z) = key y z := by
  have h : atan2 (c * z) (c * y) = atan2 z y := by
    unfold atan2
    have := Complex.arg_real_mul ⟨y, z⟩ hc
    rw [← this]
    congr 1
    apply Complex.ext <;> simp
  unfold key
  rw [h]

theorem clsR_scale {a b : ℝ} (ha : 0 < a) (hb : 0 < b) (y z : ℝ) : clsR (a * y) (b * z) = clsR y z := by
  unfold clsR
  simp only [mul_eq_zero, hb.ne', false_or, mul_nonneg_iff_of_pos_left ha, mul_pos_iff_of_pos_left hb]

/-- 4'. the model's frame `(v0, n × v0)` differs from the code's orthonormal frame
    `(v0/|v0|, (n/|n|) × (v0/|v0|))` by *different* positive factors `a = |v0|`, `b = |n||v0|` on the
    two axes; the key changes, the order of keys does not. -/
theorem key_lt_scale2 {a b : ℝ} (ha : 0 < a) (hb : 0 < b) (y1 z1 y2 z2 : ℝ) :
    key (a * y1) (b * z1) < key (a * y2) (b * z2) ↔ key y1 z1 < key y2 z2 := by
  rw [key_lt_iff_real, key_lt_iff_real, clsR_scale ha hb, clsR_scale ha hb]
  have : a * y1 * (b * z2) - b * z1 * (a * y2) = (a * b) * (y1 * z2 - z1 * y2) := by ring
  rw [this, mul_pos_iff_of_pos_left (mul_pos ha hb)]

theorem key_eq_scale2 {a b : ℝ} (ha : 0 < a) (hb : 0 < b) (y1 z1 y2 z2 : ℝ) :
    key (a * y1) (b * z1) = key (a * y2) (b * z2) ↔ key y1 z1 = key y2 z2 := by
  rw [key_eq_iff_real, key_eq_iff_real, clsR_scale ha hb, clsR_scale ha hb]
  have : a * y1 * (b * z2) - b * z1 * (a * y2) = (a * b) * (y1 * z2 - z1 * y2) := by ring
  rw [this, mul_eq_zero]
  simp [(mul_pos ha hb).ne']

/-- 2'. the comparator on the model's rational pair `q = (a·y, b·z)` decides the order of the code's
    keys of the real (normalised-frame) coordinates `(y, z)` -/
theorem key_lt_iff_model {a b : ℝ} (ha : 0 < a) (hb : 0 < b) (q1 q2 : ℚ × ℚ) (y1 z1 y2 z2 : ℝ)
    (h1y : (q1.1 : ℝ) = a * y1) (h1z : (q1.2 : ℝ) = b * z1)
    (h2y : (q2.1 : ℝ) = a * y2) (h2z : (q2.2 : ℝ) = b * z2) :
    key y1 z1 < key y2 z2 ↔ angLt q1 q2 = true := by
  rw [← key_lt_iff, h1y, h1z, h2y, h2z, key_lt_scale2 ha hb]

theorem key_eq_iff_model {a b : ℝ} (ha : 0 < a) (hb : 0 < b) (q1 q2 : ℚ × ℚ) (y1 z1 y2 z2 : ℝ)
    (h1y : (q1.1 : ℝ) = a * y1) (h1z : (q1.2 : ℝ) = b * z1)
    (h2y : (q2.1 : ℝ) = a * y2) (h2z : (q2.2 : ℝ) = b * z2) :
    key y1 z1 = key y2 z2 ↔ angEq q1 q2 = true := by
  rw [← key_eq_iff, h1y, h1z, h2y, h2z, key_eq_scale2 ha hb]

/-- the key of a rational pair -/
noncomputable def keyQ (q : ℚ × ℚ) : ℝ := key (q.1 : ℝ) (q.2 : ℝ)

/-- 5. a list is `angLt`-sorted iff its keys are strictly increasing -/
theorem pairwise_angLt_iff (l : List (ℚ × ℚ)) :
    List.Pairwise (fun a b => angLt a b = true) l ↔ List.Pairwise (fun a b => keyQ a < keyQ b) l :=
  List.Pairwise.iff (fun a b => (key_lt_iff a b).symm)

/-- the same for the association list `angInsert` works on -/
theorem pairwise_angLt_iff' {α : Type} (l : List ((ℚ × ℚ) × α)) :
    List.Pairwise (fun a b => angLt a.1 b.1 = true) l ↔
      List.Pairwise (fun a b => keyQ a.1 < keyQ b.1) l :=
  List.Pairwise.iff (fun (a b : (ℚ × ℚ) × α) => (key_lt_iff a.1 b.1).symm)

/-! ### `dict[angle] = point` + `sorted(dict)` is the model's `angSort`

A *faithful key* is any real-valued function on the model's rational pairs whose `<` / `=` are
decided by `angLt` / `angEq`.  `keyQ` is one; so is the key in the code's normalised frame. -/

structure Faithful (K : ℚ × ℚ → ℝ) : Prop where
  lt_iff : ∀ q1 q2, K q1 < K q2 ↔ angLt q1 q2 = true
  eq_iff : ∀ q1 q2, K q1 = K q2 ↔ angEq q1 q2 = true

theorem faithful_keyQ : Faithful keyQ := ⟨key_lt_iff, key_eq_iff⟩

/-- the code's key in its orthonormal frame: the model's pair is `(a·y, b·z)` with `a = |v0|`,
    `b = |n||v0|` (real, in general irrational), so the code's coordinates are `(q.1 / a, q.2 / b)` -/
noncomputable def keyFrame (a b : ℝ) (q : ℚ × ℚ) : ℝ := key ((q.1 : ℝ) / a) ((q.2 : ℝ) / b)

theorem faithful_keyFrame {a b : ℝ} (ha : 0 < a) (hb : 0 < b) : Faithful (keyFrame a b) := by
  have e : ∀ q : ℚ × ℚ, keyFrame a b q = key (a⁻¹ * (q.1 : ℝ)) (b⁻¹ * (q.2 : ℝ)) := by
    intro q; unfold keyFrame; rw [div_eq_inv_mul, div_eq_inv_mul]
  constructor
  · intro q1 q2
    rw [e, e, key_lt_scale2 (inv_pos.mpr ha) (inv_pos.mpr hb), key_lt_iff]
  · intro q1 q2
    rw [e, e, key_eq_scale2 (inv_pos.mpr ha) (inv_pos.mpr hb), key_eq_iff]

/-- the Python loop `for p in pts: d[K p] = p` starting from the dict `d` -/
noncomputable def pyDictFrom (K : V3 → ℝ) (d : ℝ → Option V3) (pts : List V3) : ℝ → Option V3 :=
  pts.foldl (fun d p => Function.update d (K p) (some p)) d

/-- the dict after the loop of `_check_and_sort_points` -/
noncomputable def pyDict (K : V3 → ℝ) (pts : List V3) : ℝ → Option V3 :=
  pyDictFrom K (fun _ => none) pts

/-- `L` lists the items of the dict `d` by strictly increasing key: this is
    `[(a, d[a]) for a in sorted(d)]` -/
def IsSortedItems (d : ℝ → Option V3) (L : List (ℝ × V3)) : Prop :=
  L.Pairwise (fun x y => x.1 < y.1) ∧ ∀ a v, (a, v) ∈ L ↔ d a = some v

/-- `sorted(d)` is unique -/
theorem IsSortedItems.unique {d : ℝ → Option V3} {L L' : List (ℝ × V3)}
    (h : IsSortedItems d L) (h' : IsSortedItems d L') : L = L' := by
  have nd : ∀ {M : List (ℝ × V3)}, M.Pairwise (fun x y => x.1 < y.1) → M.Nodup := by
    intro M hM
    exact hM.imp (fun {x y} hxy he => by rw [he] at hxy; exact lt_irrefl _ hxy)
  have hp : L.Perm L' := by
    rw [List.perm_ext_iff_of_nodup (nd h.1) (nd h'.1)]
    rintro ⟨a, v⟩
    rw [h.2, h'.2]
  exact List.Perm.eq_of_pairwise (fun x y _ _ h1 h2 => absurd h2 (not_lt.mpr h1.le)) h.1 h'.1 hp

section
variable {K : ℚ × ℚ → ℝ} (hK : Faithful K)
include hK

/-- one dict assignment is one `angInsert` -/
theorem angInsert_items (k : ℚ × ℚ) (p : V3) : ∀ (l : List ((ℚ × ℚ) × V3)),
    l.Pairwise (fun x y => K x.1 < K y.1) → ∀ a v,
    (∃ e ∈ angInsert k p l, K e.1 = a ∧ e.2 = v) ↔
      (if a = K k then v = p else ∃ e ∈ l, K e.1 = a ∧ e.2 = v) := by
  intro l
  induction l with
  | nil =>
    intro _ a v
    simp only [angInsert, List.mem_singleton, exists_eq_left, List.not_mem_nil, false_and, exists_false]
    split_ifs with h
    · constructor
      · rintro ⟨_, h2⟩; exact h2.symm
      · intro h2; exact ⟨h.symm, h2.symm⟩
    · constructor
      · rintro ⟨h1, _⟩; exact h h1.symm
      · exact False.elim
  | cons e0 rest ih =>
    obtain ⟨k', p'⟩ := e0
    intro hs a v
    rw [List.pairwise_cons] at hs
    obtain ⟨hhd, hrest⟩ := hs
    simp only [angInsert]
    by_cases hE : angEq k k' = true
    · have hkk : K k = K k' := (hK.eq_iff k k').mpr hE
      rw [if_pos hE]
      simp only [List.mem_cons, exists_eq_or_imp]
      split_ifs with ha
      · constructor
        · rintro (⟨_, h2⟩ | ⟨e, he, h1, _⟩)
          · exact h2.symm
          · have := hhd e he
            simp only at this
            rw [h1, ha, hkk] at this
            exact absurd this (lt_irrefl _)
        · intro h2; exact Or.inl ⟨by rw [ha, hkk], h2.symm⟩
      · constructor
        · rintro (⟨h1, _⟩ | h)
          · exact absurd (by rw [← h1, hkk]) ha
          · exact Or.inr h
        · rintro (⟨h1, _⟩ | h)
          · exact absurd (by rw [← h1, hkk]) ha
          · exact Or.inr h
    · rw [if_neg hE]
      have hne : K k ≠ K k' := fun h => hE ((hK.eq_iff k k').mp h)
      by_cases hL : angLt k k' = true
      · have hlt : K k < K k' := (hK.lt_iff k k').mpr hL
        rw [if_pos hL]
        simp only [List.mem_cons, exists_eq_or_imp]
        split_ifs with ha
        · constructor
          · rintro (⟨_, h2⟩ | ⟨h1, _⟩ | ⟨e, he, h1, _⟩)
            · exact h2.symm
            · rw [ha] at h1; exact absurd h1.symm hne
            · have := hhd e he
              simp only at this
              rw [h1, ha] at this
              exact absurd (lt_trans hlt this) (lt_irrefl _)
          · intro h2; exact Or.inl ⟨ha.symm, h2.symm⟩
        · constructor
          · rintro (⟨h1, _⟩ | h)
            · exact absurd h1.symm ha
            · exact h
          · intro h; exact Or.inr h
      · rw [if_neg hL]
        simp only [List.mem_cons, exists_eq_or_imp]
        rw [ih hrest a v]
        split_ifs with ha
        · constructor
          · rintro (⟨h1, _⟩ | h)
            · rw [ha] at h1; exact absurd h1.symm hne
            · exact h
          · intro h; exact Or.inr h
        · exact Iff.rfl

theorem angInsert_pairwise (k : ℚ × ℚ) (p : V3) (l : List ((ℚ × ℚ) × V3))
    (hs : l.Pairwise (fun x y => K x.1 < K y.1)) :
    (angInsert k p l).Pairwise (fun x y => K x.1 < K y.1) := by
  have e : ∀ m : List ((ℚ × ℚ) × V3), m.Pairwise (fun x y => K x.1 < K y.1) ↔ KSorted m :=
    fun m => List.Pairwise.iff (fun (x y : (ℚ × ℚ) × V3) => hK.lt_iff x.1 y.1)
  rw [e] at hs ⊢
  exact angInsert_sorted k p l hs

/-- the loop invariant: the association list holds the items of the dict, by increasing key -/
theorem foldl_angInsert_items (kf : V3 → ℚ × ℚ) : ∀ (pts : List V3) (acc : List ((ℚ × ℚ) × V3))
    (d : ℝ → Option V3),
    acc.Pairwise (fun x y => K x.1 < K y.1) →
    (∀ a v, (∃ e ∈ acc, K e.1 = a ∧ e.2 = v) ↔ d a = some v) →
    let L := pts.foldl (fun acc p => angInsert (kf p) p acc) acc
    L.Pairwise (fun x y => K x.1 < K y.1) ∧
      ∀ a v, (∃ e ∈ L, K e.1 = a ∧ e.2 = v) ↔ pyDictFrom (fun p => K (kf p)) d pts a = some v := by
  intro pts
  induction pts with
  | nil => intro acc d hs hd; exact ⟨hs, hd⟩
  | cons p ps ih =>
    intro acc d hs hd
    simp only [List.foldl_cons, pyDictFrom]
    refine ih (angInsert (kf p) p acc) (Function.update d (K (kf p)) (some p))
      (angInsert_pairwise hK _ _ _ hs) ?_
    intro a v
    rw [angInsert_items hK (kf p) p acc hs a v]
    split_ifs with ha
    · rw [ha, Function.update_self, Option.some.injEq]; exact eq_comm
    · rw [Function.update_of_ne ha]; exact hd a v

/-- **the model's angular sort is the code's `dict` + `sorted`**, for every faithful key: the
    association list computed by the model, read through the key, is
    `[(a, d[a]) for a in sorted(d)]` where `d` is the dict built by the loop
    `for p in pts: d[key p] = p` (later points overwrite earlier ones on equal key). -/
theorem angSort_isSortedItems (kf : V3 → ℚ × ℚ) (pts : List V3) :
    IsSortedItems (pyDict (fun p => K (kf p)) pts)
      ((angSort kf pts).map (fun e => (K e.1, e.2))) := by
  obtain ⟨h1, h2⟩ := foldl_angInsert_items hK kf pts [] (fun _ => none) List.Pairwise.nil (by simp)
  refine ⟨?_, ?_⟩
  · rw [List.pairwise_map]; exact h1
  · intro a v
    unfold pyDict angSort
    rw [← h2 a v, List.mem_map]
    constructor
    · rintro ⟨e, he, h⟩
      rw [Prod.mk.injEq] at h
      exact ⟨e, he, h.1, h.2⟩
    · rintro ⟨e, he, h1, h2⟩
      exact ⟨e, he, by rw [h1, h2]⟩

end

/-- the constructor's vertex tuple: the values of the sorted dict, for the code's own
    (normalised-frame) key, whatever the positive frame scales `a`, `b` are -/
theorem Polygon.mk?_pts_sorted_dict (input : List V3) (rev : Bool) (P : Polygon)
    (h : Polygon.mk? input rev = .ok P) {a b : ℝ} (ha : 0 < a) (hb : 0 < b) :
    ∃ L, IsSortedItems (pyDict (fun p => keyFrame a b (P.key p)) (dedupV input)) L ∧
      P.pts = L.map (·.2) := by
  obtain ⟨p0, p1, p2, rest, _, _, _, _, _, _, hpts⟩ := Polygon.mk?_shape input rev P h
  refine ⟨_, angSort_isSortedItems (faithful_keyFrame ha hb) P.key (dedupV input), ?_⟩
  rw [hpts, List.map_map]
  rfl

/-! ### concrete check: eight directions in increasing angle -/

example : angLt (1, 0) (1, 1) = true := by decide +kernel
example : angLt (1, 1) (0, 2) = true := by decide +kernel
example : angLt (0, 2) (-1, 3) = true := by decide +kernel
example : angLt (-1, 3) (-2, 0) = true := by decide +kernel
example : angLt (-2, 0) (-1, -1) = true := by decide +kernel
example : angLt (-1, -1) (0, -5) = true := by decide +kernel
example : angLt (0, -5) (3, -1) = true := by decide +kernel
example : angLt (3, -1) (1, 0) = false := by decide +kernel
example : angEq (1, 1) (2, 2) = true := by decide +kernel
example : angEq (1, 1) (-1, -1) = false := by decide +kernel

example : List.Pairwise (fun a b => angLt a b = true)
    [((1 : ℚ), (0 : ℚ)), (1, 1), (0, 2), (-1, 3), (-2, 0), (-1, -1), (0, -5), (3, -1)] := by
  decide +kernel

/-- hence the real keys `atan2`-shifted of these eight pairs are strictly increasing -/
example : List.Pairwise (fun a b => keyQ a < keyQ b)
    [((1 : ℚ), (0 : ℚ)), (1, 1), (0, 2), (-1, 3), (-2, 0), (-1, -1), (0, -5), (3, -1)] :=
  (pairwise_angLt_iff _).mp (by decide +kernel)

example : key ((1 : ℚ) : ℝ) ((1 : ℚ) : ℝ) < key ((-1 : ℚ) : ℝ) ((3 : ℚ) : ℝ) :=
  (key_lt_iff (1, 1) (-1, 3)).mpr (by decide +kernel)

example : key ((3 : ℚ) : ℝ) ((-1 : ℚ) : ℝ) = key ((6 : ℚ) : ℝ) ((-2 : ℚ) : ℝ) :=
  (key_eq_iff (3, -1) (6, -2)).mpr (by decide +kernel)

example : key 0 0 = 0 := by
  rcases key_spec 0 0 with ⟨_, h⟩ | ⟨_, h, _⟩ | ⟨h, _⟩ | ⟨_, h, _⟩
  · exact h
  · exact absurd h (lt_irrefl _)
  · simp [clsR] at h
  · exact absurd h (lt_irrefl _)

end G3D.AngleKey
