import G3D.Extracted.Mpolyhedron
import G3D.Proofs.MethodsTiePolyhedronShared
import G3D.Model.SameSet
/-! # Tie, group `mpolyhedron`, role EQUALITY (C08): `ConvexPolyhedron.__eq__` = `Polyhedron.sameB` (the body compares the vertex sets and the face tuples element by element; translated loop by loop — repair D12: `==` used to compare hashes).  Conventions, trusted readings and the deviations found: `G3D.Proofs.MethodsTie`, header of `G3D.Model.PyRtM`. -/
set_option linter.unusedSimpArgs false
set_option linter.unusedVariables false
set_option linter.style.nameCheck false
set_option linter.unusedTactic false
set_option linter.unreachableTactic false
namespace G3D.Tie
open V3 PyRt Extracted

theorem pyInM_polygon_seq (f : Polygon) (fs : List Polygon) :
    pyInM (Val.obj (.polygon f)) (Val.seq (fs.map Obj.polygon)) = .ok (.bool (fs.any (fun g => f.same g))) := by
  simp [pyInM, objHashable, objSame, List.any_map, Function.comp_def]

theorem m_ConvexPolyhedron___eq___eq (A B : Polyhedron) :
    m_ConvexPolyhedron___eq__ (Self.ofPolyhedron A) (.obj (.polyhedron B)) = .ok (.bool (A.sameB B)) := by
  unfold m_ConvexPolyhedron___eq__
  simp [pyrt, Self.ofPolyhedron, Val.ptSet, Val.ptSeq, pyList, List.forIn_map, pyInM_pt_seq, pyInM_polygon_seq,
    pyAttr_point_set, pyAttr_convex_polygons, forIn_return, forIn_return']
  unfold Polyhedron.sameB
  by_cases h1 : ∀ x ∈ A.verts, x ∈ B.verts
  · by_cases h2 : ∀ x ∈ B.verts, x ∈ A.verts
    · have e1 : A.verts.all (· ∈ B.verts) = true := by simpa using h1
      have e2 : B.verts.all (· ∈ A.verts) = true := by simpa using h2
      rw [if_pos h1, if_pos h2, e1, e2]
      by_cases h3 : ∃ x ∈ A.faces, ∀ y ∈ B.faces, x.same y = false
      · have e3 : (A.faces.all fun f => B.faces.any fun g => f.same g) = false := by
          rw [List.all_eq_false]; obtain ⟨x, hx, hy⟩ := h3
          exact ⟨x, hx, by simpa using hy⟩
        rw [if_pos h3, e3]; simp
      · have e3 : (A.faces.all fun f => B.faces.any fun g => f.same g) = true := by
          rw [List.all_eq_true]; intro x hx
          by_contra hc
          exact h3 ⟨x, hx, by simpa using hc⟩
        rw [if_neg h3, e3]
        by_cases h4 : ∃ x ∈ B.faces, ∀ y ∈ A.faces, x.same y = false
        · have e4 : (B.faces.all fun g => A.faces.any fun f => g.same f) = false := by
            rw [List.all_eq_false]; obtain ⟨x, hx, hy⟩ := h4
            exact ⟨x, hx, by simpa using hy⟩
          rw [if_pos h4, e4]; simp
        · have e4 : (B.faces.all fun g => A.faces.any fun f => g.same f) = true := by
            rw [List.all_eq_true]; intro x hx
            by_contra hc
            exact h4 ⟨x, hx, by simpa using hc⟩
          rw [if_neg h4, e4]; simp
    · have e2 : B.verts.all (· ∈ A.verts) = false := by
        rw [List.all_eq_false]; push Not at h2; obtain ⟨a, ha, hb⟩ := h2; exact ⟨a, ha, by simpa using hb⟩
      rw [if_pos h1, if_neg h2, e2]; simp
  · have e1 : A.verts.all (· ∈ B.verts) = false := by
      rw [List.all_eq_false]; push Not at h1; obtain ⟨a, ha, hb⟩ := h1; exact ⟨a, ha, by simpa using hb⟩
    rw [if_neg h1, e1]; simp

theorem m_ConvexPolyhedron___eq___other (A : Polyhedron) (P : Polygon) :
    m_ConvexPolyhedron___eq__ (Self.ofPolyhedron A) (.obj (.polygon P)) = .ok (.bool false) := by
  unfold m_ConvexPolyhedron___eq__
  simp [pyrt]
end G3D.Tie
