import G3D.Extracted.Khash
import G3D.Proofs.KhashLemmas
/-! # khash, `ConvexPolygon.__hash__`, `_get_point_hash_sum`, `hash_with_normal`: the STRUCTURE of the hashed tuple, for every
    reading of the comparisons  (C08)
    `G3D.Extracted.impl_hash_*` are regenerated on every run (tools/extract_khash.py, engine tools/khash_engine.py on tools/kernels_engine.py):
    the REAL `__hash__` bodies are run on symbolic numbers with `hash` / `round` / `get_sig_figures` / `get_eps` shimmed; `H` is the
    uninterpreted hash of a tuple, `rnd` / `rndI` the uninterpreted `round(., get_sig_figures())` on numbers / integers, `sig` / `neg`
    the uninterpreted answers to `abs(c) > get_eps()` / `c < 0`.  Every statement holds FOR ALL H, rnd, rndI.  Each kernel has its own
    `section`: when the walk of ONE kernel fails the generated file holds only the marker `impl_<kernel>_EXTRACTION_FAILED` for it
    and exactly the theorems of that section stop compiling.  The reference functions (`…Ref`, `…OfKey`, `polygonHashAbs`, …) and their
    reading through the hash keys of `Model/HashKey.lean` / the hash-sum tuples of `Proofs/HashSum.lean` are hand-written in
    `Proofs/KhashLemmas.lean`.
    The polygon is walked with 3 and with 4 symbolic vertices (the constructor sorts the vertices with `atan2` and a `set` and is
    not run: the object is assembled from the attributes `points`, `plane` that the bodies read).  The hash delegates to
    `Point.__hash__` and `Plane.__hash__`: the extracted text calls `impl_hash_Point` / `impl_hash_Plane`.  The end-to-end
    statements (model key, equal polygons) are in `KTieKhashPolygonEq`, which also needs the Plane tie. -/
-- `first | rfl | ring_nf`: the second alternative only runs after a harmless arithmetic rearrangement of the Python body
set_option linter.unusedTactic false
set_option linter.unreachableTactic false
namespace G3D.KTie.Khash
open G3D G3D.Extracted G3D.KTie

section hash_ConvexPolygon3
/-- `_get_point_hash_sum`: the sum of the EXTRACTED point hashes over the vertex list -/
theorem pointHashSum_ConvexPolygon3_tie (H : HFun) (rnd : ℝ → ℝ) (a b c pp pn : RVec) :
    impl_pointHashSum_ConvexPolygon3 H rnd a b c pp pn = ([a, b, c].map (impl_hash_Point H rnd)).sum := by
  simp only [impl_pointHashSum_ConvexPolygon3, List.map, List.sum_cons, List.sum_nil]; ring

/-- the square root met while `-self.plane` is built: the length of the negated stored normal -/
theorem hash_ConvexPolygon3_sqrt (a b c pp pn : RVec) : impl_hash_ConvexPolygon3_sqrt0 a b c pp pn = √(RVec.normSq (negR pn)) := by
  simp only [impl_hash_ConvexPolygon3_sqrt0]; congr 1; simp only [RVec.normSq, RVec.dot, negR]; ring

/-- **the extracted tuple is `("ConvexPolygon", round(Σ hash(point)), hash(plane) + hash(-plane), hash(plane) * hash(-plane))`**
    with the extracted point hash and the extracted plane hash, `-plane` = (p, normalised −n); for EVERY reading of the comparisons -/
theorem hash_ConvexPolygon3_shape (H : HFun) (rnd : ℝ → ℝ) (rndI : Int → Int) (sig neg : ℝ → Bool) (a b c pp pn : RVec) :
    impl_hash_ConvexPolygon3 H rnd rndI sig neg a b c pp pn
      = polygonHashAbs H rndI (impl_hash_Point H rnd) (impl_hash_Plane H rnd sig neg) [a, b, c] pp pn := by
  have hs : ([a, b, c].map (impl_hash_Point H rnd)).sum
      = (0 : Int) + impl_hash_Point H rnd a + impl_hash_Point H rnd b + impl_hash_Point H rnd c := by
    simp only [List.map, List.sum_cons, List.sum_nil]; ring
  simp only [impl_hash_ConvexPolygon3, hash_ConvexPolygon3_sqrt, polygonHashAbs, hs, unitR, negR]

/-- the polygon hash itself asks no comparison: the oracles are handed to the plane hash -/
theorem hash_ConvexPolygon3_paths :
    impl_hash_ConvexPolygon3_oracles = [("sig", "abs(R) > eps"), ("neg", "R < 0")] ∧ impl_hash_ConvexPolygon3_paths = [[]] ∧
    impl_pointHashSum_ConvexPolygon3_oracles = [] ∧ impl_pointHashSum_ConvexPolygon3_paths = [[]] := by decide

/-- (C19) every `round` of the body takes its digit count from the LIVE `get_sig_figures()` (offset 0) -/
theorem hash_ConvexPolygon3_roundings :
    impl_hash_ConvexPolygon3_roundings = [0] ∧ impl_pointHashSum_ConvexPolygon3_roundings = [] := by decide
end hash_ConvexPolygon3

section hash_ConvexPolygon4
theorem pointHashSum_ConvexPolygon4_tie (H : HFun) (rnd : ℝ → ℝ) (a b c d pp pn : RVec) :
    impl_pointHashSum_ConvexPolygon4 H rnd a b c d pp pn = ([a, b, c, d].map (impl_hash_Point H rnd)).sum := by
  simp only [impl_pointHashSum_ConvexPolygon4, List.map, List.sum_cons, List.sum_nil]; ring

theorem hash_ConvexPolygon4_sqrt (a b c d pp pn : RVec) : impl_hash_ConvexPolygon4_sqrt0 a b c d pp pn = √(RVec.normSq (negR pn)) := by
  simp only [impl_hash_ConvexPolygon4_sqrt0]; congr 1; simp only [RVec.normSq, RVec.dot, negR]; ring

theorem hash_ConvexPolygon4_shape (H : HFun) (rnd : ℝ → ℝ) (rndI : Int → Int) (sig neg : ℝ → Bool) (a b c d pp pn : RVec) :
    impl_hash_ConvexPolygon4 H rnd rndI sig neg a b c d pp pn
      = polygonHashAbs H rndI (impl_hash_Point H rnd) (impl_hash_Plane H rnd sig neg) [a, b, c, d] pp pn := by
  have hs : ([a, b, c, d].map (impl_hash_Point H rnd)).sum
      = (0 : Int) + impl_hash_Point H rnd a + impl_hash_Point H rnd b + impl_hash_Point H rnd c + impl_hash_Point H rnd d := by
    simp only [List.map, List.sum_cons, List.sum_nil]; ring
  simp only [impl_hash_ConvexPolygon4, hash_ConvexPolygon4_sqrt, polygonHashAbs, hs, unitR, negR]

theorem hash_ConvexPolygon4_paths :
    impl_hash_ConvexPolygon4_oracles = [("sig", "abs(R) > eps"), ("neg", "R < 0")] ∧ impl_hash_ConvexPolygon4_paths = [[]] ∧
    impl_pointHashSum_ConvexPolygon4_oracles = [] ∧ impl_pointHashSum_ConvexPolygon4_paths = [[]] := by decide

/-- (C19) every `round` of the body takes its digit count from the LIVE `get_sig_figures()` (offset 0) -/
theorem hash_ConvexPolygon4_roundings :
    impl_hash_ConvexPolygon4_roundings = [0] ∧ impl_pointHashSum_ConvexPolygon4_roundings = [] := by decide
end hash_ConvexPolygon4

section hashWithNormal_ConvexPolygon3
/-- `hash_with_normal` (3 vertices): tag, the point-hash sum rounded to `get_sig_figures() - 5` digits, the stored normal and
    `n·p` rounded — NO sign canonicalisation and no comparison -/
theorem hashWithNormal_ConvexPolygon3_shape (H : HFun) (rnd : ℝ → ℝ) (rndIO : Int → Int → Int) (a b c pp pn : RVec) :
    impl_hashWithNormal_ConvexPolygon3 H rnd rndIO a b c pp pn
      = H [.tag "ConvexPolygon", .int (rndIO (-5) (([a, b, c].map (impl_hash_Point H rnd)).sum)), .num (rnd pn.x), .num (rnd pn.y),
           .num (rnd pn.z), .num (rnd (RVec.dot pn pp))] := by
  have hs : ([a, b, c].map (impl_hash_Point H rnd)).sum
      = (0 : Int) + impl_hash_Point H rnd a + impl_hash_Point H rnd b + impl_hash_Point H rnd c := by
    simp only [List.map, List.sum_cons, List.sum_nil]; ring
  simp only [impl_hashWithNormal_ConvexPolygon3, hs, RVec.dot]
  first | rfl | ring_nf

theorem hashWithNormal_ConvexPolygon3_paths :
    impl_hashWithNormal_ConvexPolygon3_oracles = [] ∧ impl_hashWithNormal_ConvexPolygon3_paths = [[]] := by decide

/-- (C19) `hash_with_normal` rounds with `get_sig_figures() - 5` (the point-hash sum) and `get_sig_figures()` digits: both live -/
theorem hashWithNormal_ConvexPolygon3_roundings : impl_hashWithNormal_ConvexPolygon3_roundings = [-5, 0] := by decide
end hashWithNormal_ConvexPolygon3

#print axioms hash_ConvexPolygon3_shape
#print axioms hash_ConvexPolygon4_shape
#print axioms hashWithNormal_ConvexPolygon3_shape
end G3D.KTie.Khash
