import G3D.Proofs.Sort
import G3D.Proofs.Neg
import G3D.Proofs.FlatPolygon
import Mathlib.Tactic.Ring
import Mathlib.Tactic.Linarith
import Mathlib.Tactic.LinearCombination

/-! Kernel K6: the angular sort about the centroid of points in strictly convex position is a `Valid`
    (counter-clockwise, strictly convex) vertex cycle. -/
namespace G3D
open V3

/-! ### three keys in increasing angular order: at most one of the three gaps is ≥ π -/
theorem kcross_three_z (k1 k2 k3 : Key) :
    k1.2 * kcross k2 k3 + k2.2 * kcross k3 k1 + k3.2 * kcross k1 k2 = 0 := by
  unfold kcross; ring

/-- for `k1 < k2 < k3` (with `k1` not the zero key) at least two of the three cyclic cross products
    `k1×k2`, `k2×k3`, `k3×k1` are positive -/
theorem two_of_three_pos (k1 k2 k3 : Key) (h12 : angLt k1 k2 = true) (h23 : angLt k2 k3 = true)
    (h1 : kcls k1 = 0 → 0 < k1.1) :
    (0 < kcross k1 k2 ∧ 0 < kcross k2 k3) ∨ (0 < kcross k2 k3 ∧ 0 < kcross k3 k1) ∨
    (0 < kcross k3 k1 ∧ 0 < kcross k1 k2) := by
  have Z := kcross_three_z k1 k2 k3
  have b3 := kcls_lt_four k3
  rw [angLt_iff] at h12 h23
  -- elementary sign facts
  have A01 : kcls k1 = 0 → kcls k2 = 1 → 0 < kcross k1 k2 := by
    intro a b
    have y1 := h1 a
    have z1 := (kcls_eq_zero.mp a).1
    have z2 := kcls_eq_one.mp b
    unfold kcross; rw [z1]; nlinarith [mul_pos y1 z2]
  have A12 : kcls k1 = 1 → kcls k2 = 2 → 0 < kcross k1 k2 := by
    intro a b
    have z1 := kcls_eq_one.mp a
    obtain ⟨z2, y2⟩ := kcls_eq_two.mp b
    unfold kcross; rw [z2]; nlinarith [mul_pos z1 (neg_pos.mpr y2)]
  have A23 : kcls k1 = 2 → kcls k2 = 3 → 0 < kcross k1 k2 := by
    intro a b
    obtain ⟨z1, y1⟩ := kcls_eq_two.mp a
    have z2 := kcls_eq_three.mp b
    unfold kcross; rw [z1]; nlinarith [mul_pos (neg_pos.mpr y1) (neg_pos.mpr z2)]
  have B12 : kcls k2 = 1 → kcls k3 = 2 → 0 < kcross k2 k3 := by
    intro a b
    have z2 := kcls_eq_one.mp a
    obtain ⟨z3, y3⟩ := kcls_eq_two.mp b
    unfold kcross; rw [z3]; nlinarith [mul_pos z2 (neg_pos.mpr y3)]
  have B23 : kcls k2 = 2 → kcls k3 = 3 → 0 < kcross k2 k3 := by
    intro a b
    obtain ⟨z2, y2⟩ := kcls_eq_two.mp a
    have z3 := kcls_eq_three.mp b
    unfold kcross; rw [z2]; nlinarith [mul_pos (neg_pos.mpr y2) (neg_pos.mpr z3)]
  have C03 : kcls k1 = 0 → kcls k3 = 3 → 0 < kcross k3 k1 := by
    intro a b
    have y1 := h1 a
    have z1 := (kcls_eq_zero.mp a).1
    have z3 := kcls_eq_three.mp b
    unfold kcross; rw [z1]; nlinarith [mul_pos y1 (neg_pos.mpr z3)]
  -- the two "one gap may be ≥ π" situations
  have BC : 0 < k1.2 ∨ (k1.2 = 0) → 0 < k2.2 → k3.2 < 0 → 0 < kcross k1 k2 →
      0 < kcross k2 k3 ∨ 0 < kcross k3 k1 := by
    intro z1 z2 z3 A
    by_cases hB : 0 < kcross k2 k3
    · exact Or.inl hB
    · right
      have z1' : 0 ≤ k1.2 := by rcases z1 with h | h; exact le_of_lt h; rw [h]
      have : 0 < k2.2 * kcross k3 k1 := by
        nlinarith [mul_nonneg z1' (neg_nonneg.mpr (le_of_not_gt hB)), mul_pos (neg_pos.mpr z3) A]
      exact (pos_iff_pos_of_mul_pos this).mp z2
  have CA : 0 < k1.2 → k2.2 < 0 → k3.2 < 0 → 0 < kcross k2 k3 →
      0 < kcross k3 k1 ∨ 0 < kcross k1 k2 := by
    intro z1 z2 z3 B
    by_cases hC : 0 < kcross k3 k1
    · exact Or.inl hC
    · right
      have : k3.2 * kcross k1 k2 < 0 := by
        nlinarith [mul_pos z1 B, mul_nonneg (neg_nonneg.mpr (le_of_lt z2)) (neg_nonneg.mpr (le_of_not_gt hC))]
      by_contra hA
      have := mul_nonneg_of_nonpos_of_nonpos (le_of_lt z3) (le_of_not_gt hA)
      linarith
  rcases h12 with lt12 | ⟨e12, c1, A⟩ <;> rcases h23 with lt23 | ⟨e23, c2, B⟩
  · -- three different classes
    have hc2 : kcls k2 = 1 ∨ kcls k2 = 2 := by omega
    rcases hc2 with c2 | c2
    · have c1 : kcls k1 = 0 := by omega
      have hc3 : kcls k3 = 2 ∨ kcls k3 = 3 := by omega
      rcases hc3 with c3 | c3
      · exact Or.inl ⟨A01 c1 c2, B12 c2 c3⟩
      · exact Or.inr (Or.inr ⟨C03 c1 c3, A01 c1 c2⟩)
    · have c3 : kcls k3 = 3 := by omega
      have hc1 : kcls k1 = 0 ∨ kcls k1 = 1 := by omega
      rcases hc1 with c1 | c1
      · exact Or.inr (Or.inl ⟨B23 c2 c3, C03 c1 c3⟩)
      · exact Or.inl ⟨A12 c1 c2, B23 c2 c3⟩
  · -- k1 alone, k2 k3 in the same open half plane
    rcases c2 with c2 | c2
    · have c1 : kcls k1 = 0 := by omega
      exact Or.inl ⟨A01 c1 c2, B⟩
    · have c3 : kcls k3 = 3 := by omega
      have z2 := kcls_eq_three.mp c2
      have z3 := kcls_eq_three.mp c3
      have hc1 : kcls k1 = 0 ∨ kcls k1 = 1 ∨ kcls k1 = 2 := by omega
      rcases hc1 with c1 | c1 | c1
      · exact Or.inr (Or.inl ⟨B, C03 c1 c3⟩)
      · rcases CA (kcls_eq_one.mp c1) z2 z3 B with h | h
        · exact Or.inr (Or.inl ⟨B, h⟩)
        · exact Or.inl ⟨h, B⟩
      · exact Or.inl ⟨A23 c1 c2, B⟩
  · -- k1 k2 in the same open half plane, k3 later
    rcases c1 with c1 | c1
    · have c2 : kcls k2 = 1 := by omega
      have z1 := kcls_eq_one.mp c1
      have z2 := kcls_eq_one.mp c2
      have hc3 : kcls k3 = 2 ∨ kcls k3 = 3 := by omega
      rcases hc3 with c3 | c3
      · exact Or.inl ⟨A, B12 c2 c3⟩
      · rcases BC (Or.inl z1) z2 (kcls_eq_three.mp c3) A with h | h
        · exact Or.inl ⟨A, h⟩
        · exact Or.inr (Or.inr ⟨h, A⟩)
    · omega
  · exact Or.inl ⟨A, B⟩

#print axioms two_of_three_pos

/-! ### linear functionals on the centroid -/
theorem dot_add_right (d a b : V3) : dot d (add a b) = dot d a + dot d b := by
  simp only [dot, add]; ring

theorem dot_foldl_add (d : V3) : ∀ (l : List V3) (acc : V3),
    dot d (l.foldl add acc) = dot d acc + (l.map (dot d)).sum := by
  intro l
  induction l with
  | nil => intro acc; simp
  | cons a l ih =>
    intro acc
    rw [List.foldl_cons, ih, dot_add_right, List.map_cons, List.sum_cons]; ring

theorem dot_sumV (d : V3) (l : List V3) : dot d (sumV l) = (l.map (dot d)).sum := by
  unfold sumV; rw [dot_foldl_add]; simp [dot, zero]

theorem dot_meanV (d : V3) (l : List V3) : dot d (meanV l) = (l.map (dot d)).sum / l.length := by
  unfold meanV
  have : dot d (smul (1 / (l.length : Rat)) (sumV l)) = (1 / (l.length : Rat)) * dot d (sumV l) := by
    simp only [dot, smul]; ring
  rw [this, dot_sumV]; ring

theorem sum_map_le (f : V3 → Rat) (M : Rat) : ∀ l : List V3, (∀ q ∈ l, f q ≤ M) →
    (l.map f).sum ≤ l.length * M := by
  intro l
  induction l with
  | nil => intro _; simp
  | cons a l ih =>
    intro h
    have h1 := h a List.mem_cons_self
    have h2 := ih (fun q hq => h q (List.mem_cons_of_mem _ hq))
    simp only [List.map_cons, List.sum_cons, List.length_cons]
    push_cast
    linarith

theorem sum_map_lt (f : V3 → Rat) (M : Rat) : ∀ l : List V3, (∀ q ∈ l, f q ≤ M) → (∃ q ∈ l, f q < M) →
    (l.map f).sum < l.length * M := by
  intro l
  induction l with
  | nil => rintro _ ⟨q, hq, _⟩; cases hq
  | cons a l ih =>
    intro h hex
    have h1 := h a List.mem_cons_self
    have hle := sum_map_le f M l (fun q hq => h q (List.mem_cons_of_mem _ hq))
    simp only [List.map_cons, List.sum_cons, List.length_cons]
    push_cast
    obtain ⟨q, hq, hlt⟩ := hex
    rcases List.mem_cons.mp hq with rfl | hq
    · linarith
    · have := ih (fun q hq => h q (List.mem_cons_of_mem _ hq)) ⟨q, hq, hlt⟩
      linarith

theorem sum_map_const (f : V3 → Rat) (M : Rat) : ∀ l : List V3, (∀ q ∈ l, f q = M) →
    (l.map f).sum = l.length * M := by
  intro l
  induction l with
  | nil => intro _; simp
  | cons a l ih =>
    intro h
    have h1 := h a List.mem_cons_self
    have h2 := ih (fun q hq => h q (List.mem_cons_of_mem _ hq))
    simp only [List.map_cons, List.sum_cons, List.length_cons]
    push_cast
    linarith

/-- a strictly exposed point of a list with at least one other point beats the centroid -/
theorem exposed_gt_mean (d p : V3) (l : List V3) (hp : p ∈ l)
    (hd : ∀ q ∈ l, q ≠ p → dot d q < dot d p) (hex : ∃ q ∈ l, q ≠ p) :
    dot d (meanV l) < dot d p := by
  rw [dot_meanV]
  have hlen : (0 : Rat) < l.length := by
    have : 0 < l.length := List.length_pos_of_mem hp
    exact_mod_cast this
  rw [div_lt_iff₀ hlen]
  have hle : ∀ q ∈ l, dot d q ≤ dot d p := by
    intro q hq
    by_cases h : q = p
    · rw [h]
    · exact le_of_lt (hd q hq h)
  obtain ⟨q, hq, hne⟩ := hex
  have := sum_map_lt (dot d) (dot d p) l hle ⟨q, hq, hd q hq hne⟩
  linarith

/-- the centroid of points of a plane lies in the plane -/
theorem meanV_inplane (n a : V3) (l : List V3) (hl : l ≠ []) (h : ∀ p ∈ l, dot n (sub p a) = 0) :
    dot n (sub (meanV l) a) = 0 := by
  have hs : ∀ x, dot n (sub x a) = dot n x - dot n a := by intro x; simp only [dot, sub]; ring
  rw [hs, dot_meanV]
  have hlen : (0 : Rat) < l.length := by
    have : 0 < l.length := List.length_pos_iff.mpr hl
    exact_mod_cast this
  have := sum_map_const (dot n) (dot n a) l (fun q hq => by have := h q hq; rw [hs] at this; linarith)
  rw [this]
  field_simp
  ring

/-! ### vectors of the plane in the frame `(v0, n × v0)` -/
/-- an in-plane vector orthogonal to both frame vectors vanishes -/
theorem inplane_zero (n v0 w : V3) (hn : n ≠ zero) (hv0 : v0 ≠ zero) (hv0n : dot n v0 = 0) (hwn : dot n w = 0)
    (h0 : dot w v0 = 0) (h1 : dot w (cross n v0) = 0) : w = zero := by
  have hc := cross_coplanar n w v0 hwn hv0n
  have ht : dot n (cross w v0) = - dot w (cross n v0) := by simp only [dot, cross]; ring
  rw [ht, h1] at hc
  have hnn := normSq_pos_of_ne hn
  have hcz : cross w v0 = zero := by
    have hx := congrArg V3.x hc; have hy := congrArg V3.y hc; have hz := congrArg V3.z hc
    simp only [smul, neg_zero, zero_mul] at hx hy hz
    apply V3.ext' <;> simp only [zero]
    · rcases mul_eq_zero.mp hx with h | h
      · exact absurd h (ne_of_gt hnn)
      · exact h
    · rcases mul_eq_zero.mp hy with h | h
      · exact absurd h (ne_of_gt hnn)
      · exact h
    · rcases mul_eq_zero.mp hz with h | h
      · exact absurd h (ne_of_gt hnn)
      · exact h
  have hl := lagrange w v0
  rw [hcz, h0] at hl
  have hvv := normSq_pos_of_ne hv0
  have hw0 : normSq w = 0 := by
    have : normSq w * normSq v0 = 0 := by
      have : normSq zero = 0 := by simp [normSq, dot, zero]
      rw [this] at hl; linarith
    rcases mul_eq_zero.mp this with h | h
    · exact h
    · exact absurd h (ne_of_gt hvv)
  by_contra hne
  have := normSq_pos_of_ne hne
  linarith

/-- the 2-D cross product of two keys is `|v0|²` times the orientation of the two points about the centre -/
theorem kcross_frameKey (c p0 n p q : V3) (hv0n : dot n (sub p0 c) = 0) :
    kcross (frameKey c p0 n p) (frameKey c p0 n q) = normSq (sub p0 c) * orient n c p q := by
  simp only [kcross, frameKey, orient, normSq]
  generalize sub p0 c = v0 at *
  generalize sub p c = u
  generalize sub q c = w
  simp only [dot, cross] at *
  linear_combination (-(v0.x * (u.y * w.z - u.z * w.y) + v0.y * (u.z * w.x - u.x * w.z) + v0.z * (u.x * w.y - u.y * w.x))) * hv0n

/-- a class-0 key of an in-plane point other than the centre has positive first coordinate -/
theorem frameKey_cls0_pos (c p0 n p : V3) (hn : n ≠ zero) (hv0 : sub p0 c ≠ zero)
    (hv0n : dot n (sub p0 c) = 0) (hp : dot n (sub p c) = 0) (hpc : p ≠ c)
    (h0 : kcls (frameKey c p0 n p) = 0) : 0 < (frameKey c p0 n p).1 := by
  obtain ⟨hz, hy⟩ := kcls_eq_zero.mp h0
  rcases lt_or_eq_of_le hy with h | h
  · exact h
  · exfalso
    apply hpc
    have := inplane_zero n (sub p0 c) (sub p c) hn hv0 hv0n hp h.symm hz
    have hx := congrArg V3.x this; have hy := congrArg V3.y this; have hz := congrArg V3.z this
    simp only [sub, zero] at hx hy hz
    apply V3.ext' <;> linarith

/-! ### an exposed middle vertex turns left -/
theorem orient_pos_of_exposed (n c x y z d : V3) (hn : n ≠ zero)
    (hx : dot n (sub x c) = 0) (hy : dot n (sub y c) = 0) (hz : dot n (sub z c) = 0)
    (dx : dot d x < dot d y) (dz : dot d z < dot d y) (dc : dot d c < dot d y)
    (a : 0 < orient n c x y) (b : 0 < orient n c y z) : 0 < orient n x y z := by
  have hsum : orient n x y z = orient n c x y + orient n c y z + orient n c z x := by
    simp only [orient, dot, cross, sub]; ring
  have hs : ∀ v, dot d (sub v c) = dot d v - dot d c := by intro v; simp only [dot, sub]; ring
  have Fx : dot d (sub x c) < dot d (sub y c) := by rw [hs, hs]; linarith
  have Fz : dot d (sub z c) < dot d (sub y c) := by rw [hs, hs]; linarith
  have Fy : 0 < dot d (sub y c) := by rw [hs]; linarith
  have hT : trip (sub x c) (sub y c) (sub z c) * normSq n =
      orient n c y z * dot n (sub x c) + orient n c z x * dot n (sub y c) + orient n c x y * dot n (sub z c) := by
    simp only [trip, orient, normSq]
    generalize sub x c = ux; generalize sub y c = uy; generalize sub z c = uz
    simp only [dot, cross]; ring
  rw [hx, hy, hz] at hT
  have hT0 : trip (sub x c) (sub y c) (sub z c) = 0 := by
    rcases mul_eq_zero.mp (by linarith : trip (sub x c) (sub y c) (sub z c) * normSq n = 0) with h | h
    · exact h
    · exact absurd h (ne_of_gt (normSq_pos_of_ne hn))
  have hid : orient n c y z * dot d (sub x c) + orient n c z x * dot d (sub y c) + orient n c x y * dot d (sub z c) =
      trip (sub x c) (sub y c) (sub z c) * dot d n := by
    simp only [trip, orient]
    generalize sub x c = ux; generalize sub y c = uy; generalize sub z c = uz
    simp only [dot, cross]; ring
  rw [hT0, zero_mul] at hid
  have h1 := mul_lt_mul_of_pos_left Fx b
  have h2 := mul_lt_mul_of_pos_left Fz a
  have h3 : 0 < (orient n c x y + orient n c y z + orient n c z x) * dot d (sub y c) := by nlinarith
  rw [hsum]
  exact (pos_iff_pos_of_mul_pos h3).mpr Fy

#print axioms orient_pos_of_exposed

/-! ### strictly convex position -/
/-- every point of the list is a strictly exposed vertex: some linear functional attains its strict maximum
    over the list there (for finitely many points: every point is a vertex of the convex hull) -/
def StrictConvexPos (l : List V3) : Prop := ∀ p ∈ l, ∃ d : V3, ∀ q ∈ l, q ≠ p → dot d q < dot d p

/-- the hypotheses on the frame of the constructor, bundled -/
structure SortFrame (n c p0 : V3) (L : List V3) : Prop where
  hn : n ≠ zero
  hv0 : sub p0 c ≠ zero
  hv0n : dot n (sub p0 c) = 0
  hin : ∀ p ∈ L, dot n (sub p c) = 0
  hexp : ∀ p ∈ L, ∃ d : V3, (∀ q ∈ L, q ≠ p → dot d q < dot d p) ∧ dot d c < dot d p

theorem SortFrame.ne_center {n c p0 : V3} {L : List V3} (F : SortFrame n c p0 L) {p : V3} (hp : p ∈ L) : p ≠ c := by
  obtain ⟨d, _, hc⟩ := F.hexp p hp
  intro h; rw [h] at hc; exact absurd hc (lt_irrefl _)

theorem SortFrame.kcross_pos {n c p0 : V3} {L : List V3} (F : SortFrame n c p0 L) (p q : V3) :
    0 < kcross (frameKey c p0 n p) (frameKey c p0 n q) ↔ 0 < orient n c p q := by
  rw [kcross_frameKey c p0 n p q F.hv0n]
  have hs := normSq_pos_of_ne F.hv0
  constructor
  · intro h; exact (pos_iff_pos_of_mul_pos h).mp hs
  · intro h; exact mul_pos hs h

/-- three points in strictly increasing angular order about the centre turn left -/
theorem SortFrame.triple_pos {n c p0 : V3} {L : List V3} (F : SortFrame n c p0 L) (x y z : V3)
    (hx : x ∈ L) (hy : y ∈ L) (hz : z ∈ L)
    (hxy : angLt (frameKey c p0 n x) (frameKey c p0 n y) = true)
    (hyz : angLt (frameKey c p0 n y) (frameKey c p0 n z) = true) : 0 < orient n x y z := by
  have hxz := angLt_trans hxy hyz
  have nxy : x ≠ y := by intro e; rw [e, angLt_irrefl] at hxy; cases hxy
  have nyz : y ≠ z := by intro e; rw [e, angLt_irrefl] at hyz; cases hyz
  have nxz : x ≠ z := by intro e; rw [e, angLt_irrefl] at hxz; cases hxz
  have h1 : kcls (frameKey c p0 n x) = 0 → 0 < (frameKey c p0 n x).1 :=
    frameKey_cls0_pos c p0 n x F.hn F.hv0 F.hv0n (F.hin x hx) (F.ne_center hx)
  rcases two_of_three_pos _ _ _ hxy hyz h1 with ⟨A, B⟩ | ⟨B, C⟩ | ⟨C, A⟩
  · obtain ⟨d, hd, hc⟩ := F.hexp y hy
    exact orient_pos_of_exposed n c x y z d F.hn (F.hin x hx) (F.hin y hy) (F.hin z hz)
      (hd x hx nxy) (hd z hz nyz.symm) hc ((F.kcross_pos x y).mp A) ((F.kcross_pos y z).mp B)
  · obtain ⟨d, hd, hc⟩ := F.hexp z hz
    rw [orient_cyc]
    exact orient_pos_of_exposed n c y z x d F.hn (F.hin y hy) (F.hin z hz) (F.hin x hx)
      (hd y hy nyz) (hd x hx nxz) hc ((F.kcross_pos y z).mp B) ((F.kcross_pos z x).mp C)
  · obtain ⟨d, hd, hc⟩ := F.hexp x hx
    rw [← orient_cyc]
    exact orient_pos_of_exposed n c z x y d F.hn (F.hin z hz) (F.hin x hx) (F.hin y hy)
      (hd z hz nxz.symm) (hd y hy nxy.symm) hc ((F.kcross_pos z x).mp C) ((F.kcross_pos x y).mp A)

theorem triplesPos_of_pairwise (n : V3) (R : V3 → V3 → Prop) : ∀ l : List V3, l.Pairwise R →
    (∀ a ∈ l, ∀ b ∈ l, ∀ c ∈ l, R a b → R b c → 0 < orient n a b c) → triplesPos n l := by
  intro l
  induction l with
  | nil => intro _ _; trivial
  | cons a l ih =>
    intro hs h
    rw [List.pairwise_cons] at hs
    refine ⟨?_, ih hs.2 (fun x hx y hy z hz => h x (List.mem_cons_of_mem _ hx) y (List.mem_cons_of_mem _ hy)
      z (List.mem_cons_of_mem _ hz))⟩
    intro b c hbc
    have hb : b ∈ l := hbc.subset List.mem_cons_self
    have hc : c ∈ l := hbc.subset (List.mem_cons_of_mem _ List.mem_cons_self)
    have hR : R b c := (List.pairwise_cons.mp (hs.2.sublist hbc)).1 c List.mem_cons_self
    exact h a List.mem_cons_self b (List.mem_cons_of_mem _ hb) c (List.mem_cons_of_mem _ hc) (hs.1 b hb) hR

/-- two different exposed points are seen under different angles from the centroid -/
theorem SortFrame.angNe {n c p0 : V3} {L : List V3} (F : SortFrame n c p0 L) (p q : V3)
    (hp : p ∈ L) (hq : q ∈ L) (hpq : p ≠ q) :
    angEq (frameKey c p0 n p) (frameKey c p0 n q) = false := by
  cases he : angEq (frameKey c p0 n p) (frameKey c p0 n q) with
  | false => rfl
  | true =>
    exfalso
    rw [angEq_iff] at he
    obtain ⟨hcls, hrest⟩ := he
    obtain ⟨dp, hdp, hcp⟩ := F.hexp p hp
    obtain ⟨dq, hdq, hcq⟩ := F.hexp q hq
    have hup := F.hin p hp
    have hwq := F.hin q hq
    have hpc := F.ne_center hp
    have hqc := F.ne_center hq
    have hs : ∀ (d v : V3), dot d (sub v c) = dot d v - dot d c := by intro d v; simp only [dot, sub]; ring
    have Fpp : 0 < dot dp (sub p c) := by rw [hs]; linarith
    have Fpq : dot dp (sub q c) < dot dp (sub p c) := by rw [hs, hs]; linarith [hdp q hq hpq.symm]
    have Fqq : 0 < dot dq (sub q c) := by rw [hs]; linarith
    have Fqp : dot dq (sub p c) < dot dq (sub q c) := by rw [hs, hs]; linarith [hdq p hp hpq]
    -- the keys
    have kp : frameKey c p0 n p = (dot (sub p c) (sub p0 c), dot (sub p c) (cross n (sub p0 c))) := rfl
    have kq : frameKey c p0 n q = (dot (sub q c) (sub p0 c), dot (sub q c) (cross n (sub p0 c))) := rfl
    have hk0 : kcross (frameKey c p0 n p) (frameKey c p0 n q) = 0 := by
      rcases hrest with (h0 | h2) | h
      · have a := (kcls_eq_zero.mp h0).1
        have b := (kcls_eq_zero.mp (hcls ▸ h0)).1
        unfold kcross; rw [a, b]; ring
      · have a := (kcls_eq_two.mp h2).1
        have b := (kcls_eq_two.mp (hcls ▸ h2)).1
        unfold kcross; rw [a, b]; ring
      · exact h
    rw [kcross_frameKey c p0 n p q F.hv0n] at hk0
    have hor : orient n c p q = 0 := by
      rcases mul_eq_zero.mp hk0 with h | h
      · exact absurd h (ne_of_gt (normSq_pos_of_ne F.hv0))
      · exact h
    have hpne : sub p c ≠ zero := by
      intro h; apply hpc
      have hx := congrArg V3.x h; have hy := congrArg V3.y h; have hz := congrArg V3.z h
      simp only [sub, zero] at hx hy hz
      apply V3.ext' <;> linarith
    have hqne : sub q c ≠ zero := by
      intro h; apply hqc
      have hx := congrArg V3.x h; have hy := congrArg V3.y h; have hz := congrArg V3.z h
      simp only [sub, zero] at hx hy hz
      apply V3.ext' <;> linarith
    have hor' : dot n (cross (sub p c) (sub q c)) = 0 := hor
    -- positivity of first coordinates in class 0
    have y0p := frameKey_cls0_pos c p0 n p F.hn F.hv0 F.hv0n hup hpc
    have y0q := frameKey_cls0_pos c p0 n q F.hn F.hv0 F.hv0n hwq hqc
    rw [kp] at y0p; rw [kq] at y0q
    have clsp := kcls_cases (frameKey c p0 n p)
    have clsq := kcls_cases (frameKey c p0 n q)
    rw [kp] at clsp hcls; rw [kq] at clsq hcls
    simp only at clsp clsq y0p y0q
    generalize sub p c = u at *
    generalize sub q c = w at *
    generalize sub p0 c = v0 at *
    have hm : cross u w = zero := by
      have hc := cross_coplanar n u w hup hwq
      rw [hor'] at hc
      have hnn := normSq_pos_of_ne F.hn
      have hx := congrArg V3.x hc; have hy := congrArg V3.y hc; have hz := congrArg V3.z hc
      simp only [smul, zero_mul] at hx hy hz
      apply V3.ext' <;> simp only [zero]
      · rcases mul_eq_zero.mp hx with h | h
        · exact absurd h (ne_of_gt hnn)
        · exact h
      · rcases mul_eq_zero.mp hy with h | h
        · exact absurd h (ne_of_gt hnn)
        · exact h
      · rcases mul_eq_zero.mp hz with h | h
        · exact absurd h (ne_of_gt hnn)
        · exact h
    have E1 : ∀ d : V3, normSq w * dot d u = dot u w * dot d w := by
      intro d
      have : normSq w * dot d u - dot u w * dot d w = dot d (cross w (cross u w)) := by
        simp only [normSq, dot, cross]; ring
      rw [hm] at this
      have hz : dot d (cross w zero) = 0 := by simp [dot, cross, zero]
      linarith
    have E2 : ∀ d : V3, normSq u * dot d w = dot u w * dot d u := by
      intro d
      have : normSq u * dot d w - dot u w * dot d u = - dot d (cross u (cross u w)) := by
        simp only [normSq, dot, cross]; ring
      rw [hm] at this
      have hz : dot d (cross u zero) = 0 := by simp [dot, cross, zero]
      linarith
    have E3 : dot u w * dot u w = normSq u * normSq w := by
      have hl := lagrange u w
      rw [hm] at hl
      have : normSq zero = 0 := by simp [normSq, dot, zero]
      rw [this] at hl; nlinarith
    have huu := normSq_pos_of_ne hpne
    have hww := normSq_pos_of_ne hqne
    have hdc : ∀ d : V3, dot u d = dot d u := by intro d; simp only [dot]; ring
    have hdc' : ∀ d : V3, dot w d = dot d w := by intro d; simp only [dot]; ring
    -- the common direction: `u . w > 0`
    have hmu : 0 < dot u w := by
      have Ey : normSq w * dot u v0 = dot u w * dot w v0 := by
        have := E1 v0; rw [hdc, hdc']; exact this
      have Ez : normSq w * dot u (cross n v0) = dot u w * dot w (cross n v0) := by
        have := E1 (cross n v0); rw [hdc, hdc']; exact this
      rcases clsp with ⟨cp, zp, yp⟩ | ⟨cp, zp⟩ | ⟨cp, zp, yp⟩ | ⟨cp, zp⟩
      · -- class 0
        have yp' := y0p cp
        have cq : kcls (dot w v0, dot w (cross n v0)) = 0 := by rw [← hcls, cp]
        have yq' := y0q cq
        have : 0 < dot u w * dot w v0 := by rw [← Ey]; exact mul_pos hww yp'
        exact (pos_iff_pos_of_mul_pos this).mpr yq'
      · -- class 1
        have cq : kcls (dot w v0, dot w (cross n v0)) = 1 := by rw [← hcls, cp]
        have zq := kcls_eq_one.mp cq
        have : 0 < dot u w * dot w (cross n v0) := by rw [← Ez]; exact mul_pos hww zp
        exact (pos_iff_pos_of_mul_pos this).mpr zq
      · -- class 2
        have cq : kcls (dot w v0, dot w (cross n v0)) = 2 := by rw [← hcls, cp]
        have yq := (kcls_eq_two.mp cq).2
        simp only at yq
        have : dot u w * dot w v0 < 0 := by rw [← Ey]; exact mul_neg_of_pos_of_neg hww yp
        by_contra hc
        have := mul_nonneg_of_nonpos_of_nonpos (le_of_not_gt hc) (le_of_lt yq)
        linarith
      · -- class 3
        have cq : kcls (dot w v0, dot w (cross n v0)) = 3 := by rw [← hcls, cp]
        have zq := kcls_eq_three.mp cq
        simp only at zq
        have : dot u w * dot w (cross n v0) < 0 := by rw [← Ez]; exact mul_neg_of_pos_of_neg hww zp
        by_contra hc
        have := mul_nonneg_of_nonpos_of_nonpos (le_of_not_gt hc) (le_of_lt zq)
        linarith
    -- |w|² < u.w and |u|² < u.w contradict Cauchy–Schwarz equality
    have L1 : normSq w < dot u w := by
      have e := E1 dp
      have : normSq w * dot dp u < dot u w * dot dp u := by
        rw [e]; exact mul_lt_mul_of_pos_left Fpq hmu
      exact lt_of_mul_lt_mul_right this (le_of_lt Fpp)
    have L2 : normSq u < dot u w := by
      have e := E2 dq
      have : normSq u * dot dq w < dot u w * dot dq w := by
        rw [e]; exact mul_lt_mul_of_pos_left Fqp hmu
      exact lt_of_mul_lt_mul_right this (le_of_lt Fqq)
    have : normSq u * normSq w < dot u w * dot u w := mul_lt_mul'' L2 L1 (le_of_lt huu) (le_of_lt hww)
    linarith

#print axioms SortFrame.triple_pos
#print axioms SortFrame.angNe

/-! ### the constructor on points in strictly convex position -/
theorem StrictConvexPos.of_subset {l l' : List V3} (h : StrictConvexPos l) (hs : ∀ p ∈ l', p ∈ l) :
    StrictConvexPos l' := by
  intro p hp
  obtain ⟨d, hd⟩ := h p (hs p hp)
  exact ⟨d, fun q hq hne => hd q (hs q hq) hne⟩

theorem StrictConvexPos.perm {l l' : List V3} (h : StrictConvexPos l) (hp : List.Perm l' l) :
    StrictConvexPos l' := h.of_subset (fun _ hq => hp.subset hq)

/-- the frame used by a successful constructor call on points in strictly convex position satisfies all
    the side conditions of the sorting argument -/
theorem Polygon.mk?_frame (input : List V3) (rev : Bool) (P : Polygon) (h : Polygon.mk? input rev = .ok P)
    (hx : StrictConvexPos (dedupV input)) : SortFrame P.plane.n P.center P.plane.p (dedupV input) := by
  obtain ⟨p0, p1, p2, rest, hd, _, hpl, hc, hv0, hall, _⟩ := Polygon.mk?_shape input rev P h
  obtain ⟨_, hW, _, _, _⟩ := Polygon.mk?_ok input rev P h
  have hp0 : P.plane.p = p0 := by rw [hpl]
  have hinp : ∀ p ∈ dedupV input, dot P.plane.n (sub p P.plane.p) = 0 :=
    fun p hp => (Plane.contains_iff_dot P.plane p).mp (hall p hp)
  have hcin : dot P.plane.n (sub P.center P.plane.p) = 0 := by
    rw [hc]
    exact meanV_inplane _ _ _ (by rw [hd]; simp) hinp
  have hnd := dedupV_nodup input
  refine ⟨hW, by rw [hp0]; exact hv0, ?_, ?_, ?_⟩
  · have : dot P.plane.n (sub P.plane.p P.center) = - dot P.plane.n (sub P.center P.plane.p) := by
      simp only [dot, sub]; ring
    rw [this, hcin]; ring
  · intro p hp
    have : dot P.plane.n (sub p P.center) =
        dot P.plane.n (sub p P.plane.p) - dot P.plane.n (sub P.center P.plane.p) := by
      simp only [dot, sub]; ring
    rw [this, hinp p hp, hcin]; ring
  · intro p hp
    obtain ⟨d, hd'⟩ := hx p hp
    refine ⟨d, hd', ?_⟩
    rw [hc]
    apply exposed_gt_mean d p _ hp hd'
    rw [hd] at hnd ⊢
    have h01 : p0 ≠ p1 := by
      intro e
      rw [List.nodup_cons] at hnd
      exact hnd.1 (by rw [e]; exact List.mem_cons_self)
    by_cases hpp : p = p0
    · exact ⟨p1, by simp, by rw [hpp]; exact h01.symm⟩
    · exact ⟨p0, by simp, fun e => hpp e.symm⟩

/-- **K6.** `ConvexPolygon(points, reverse)` on points in strictly convex position (every point a strictly
    exposed vertex) in one plane: whenever the constructor succeeds, the stored cycle is `Valid` — all
    vertices in the stored plane and every ordered triple counter-clockwise about the STORED normal — and is a
    permutation of the de-duplicated input (no vertex is lost). -/
theorem Polygon.mk?_valid_of_strictConvex (input : List V3) (rev : Bool) (P : Polygon)
    (h : Polygon.mk? input rev = .ok P) (hx : StrictConvexPos (dedupV input)) :
    P.Valid ∧ List.Perm P.pts (dedupV input) ∧
      (∀ p ∈ dedupV input, ∀ q ∈ dedupV input, p ≠ q → angEq (P.key p) (P.key q) = false) := by
  have F := Polygon.mk?_frame input rev P h hx
  have hne : ∀ p ∈ dedupV input, ∀ q ∈ dedupV input, p ≠ q → angEq (P.key p) (P.key q) = false :=
    fun p hp q hq hpq => F.angNe p q hp hq hpq
  have hperm := Polygon.mk?_perm input rev P h hne
  have hs := Polygon.mk?_sorted input rev P h hne
  obtain ⟨_, _, _, hlen⟩ := Polygon.mk?_mem_iff input rev P h hne
  obtain ⟨_, _, _, hcont, _⟩ := Polygon.mk?_ok input rev P h
  refine ⟨?_, hperm, hne⟩
  obtain ⟨q0, q1, q2, r, hP⟩ : ∃ q0 q1 q2 r, P.pts = q0 :: q1 :: q2 :: r := by
    match hq : P.pts, hlen with
    | a :: b :: c :: r, _ => exact ⟨a, b, c, r, rfl⟩
  refine ⟨q0, q1, q2, r, hP, ?_, ?_⟩
  · intro p hp
    rw [← Plane.contains_eq_inPlane]; exact hcont p hp
  · apply triplesPos_of_pairwise P.plane.n _ P.pts hs
    intro a ha b hb c hc hab hbc
    exact F.triple_pos a b c (hperm.subset ha) (hperm.subset hb) (hperm.subset hc) hab hbc

#print axioms Polygon.mk?_valid_of_strictConvex

/-! ### triangles -/
theorem strictConvexPos_triangle (a b c : V3) (hnc : cross (sub b a) (sub c a) ≠ zero) :
    StrictConvexPos [a, b, c] := by
  have hpos := normSq_pos_of_ne hnc
  have hab : a ≠ b := by
    intro e; apply hnc; rw [e]; apply V3.ext' <;> simp only [cross, sub, zero] <;> ring
  have hac : a ≠ c := by
    intro e; apply hnc; rw [e]; apply V3.ext' <;> simp only [cross, sub, zero] <;> ring
  have hbc : b ≠ c := by
    intro e; apply hnc; rw [e]; apply V3.ext' <;> simp only [cross, sub, zero] <;> ring
  intro p hp
  simp only [List.mem_cons, List.not_mem_nil, or_false] at hp
  rcases hp with rfl | rfl | rfl
  · refine ⟨cross (cross (sub b p) (sub c p)) (sub c b), ?_⟩
    have e1 : dot (cross (cross (sub b p) (sub c p)) (sub c b)) p - dot (cross (cross (sub b p) (sub c p)) (sub c b)) b =
        normSq (cross (sub b p) (sub c p)) := by simp only [normSq, dot, cross, sub]; ring
    have e2 : dot (cross (cross (sub b p) (sub c p)) (sub c b)) p - dot (cross (cross (sub b p) (sub c p)) (sub c b)) c =
        normSq (cross (sub b p) (sub c p)) := by simp only [normSq, dot, cross, sub]; ring
    intro q hq hne
    simp only [List.mem_cons, List.not_mem_nil, or_false] at hq
    rcases hq with rfl | rfl | rfl
    · exact absurd rfl hne
    · linarith
    · linarith
  · refine ⟨cross (cross (sub p a) (sub c a)) (sub a c), ?_⟩
    have e1 : dot (cross (cross (sub p a) (sub c a)) (sub a c)) p - dot (cross (cross (sub p a) (sub c a)) (sub a c)) a =
        normSq (cross (sub p a) (sub c a)) := by simp only [normSq, dot, cross, sub]; ring
    have e2 : dot (cross (cross (sub p a) (sub c a)) (sub a c)) p - dot (cross (cross (sub p a) (sub c a)) (sub a c)) c =
        normSq (cross (sub p a) (sub c a)) := by simp only [normSq, dot, cross, sub]; ring
    intro q hq hne
    simp only [List.mem_cons, List.not_mem_nil, or_false] at hq
    rcases hq with rfl | rfl | rfl
    · linarith
    · exact absurd rfl hne
    · linarith
  · refine ⟨cross (cross (sub b a) (sub p a)) (sub b a), ?_⟩
    have e1 : dot (cross (cross (sub b a) (sub p a)) (sub b a)) p - dot (cross (cross (sub b a) (sub p a)) (sub b a)) a =
        normSq (cross (sub b a) (sub p a)) := by simp only [normSq, dot, cross, sub]; ring
    have e2 : dot (cross (cross (sub b a) (sub p a)) (sub b a)) p - dot (cross (cross (sub b a) (sub p a)) (sub b a)) b =
        normSq (cross (sub b a) (sub p a)) := by simp only [normSq, dot, cross, sub]; ring
    intro q hq hne
    simp only [List.mem_cons, List.not_mem_nil, or_false] at hq
    rcases hq with rfl | rfl | rfl
    · linarith
    · linarith
    · exact absurd rfl hne

/-- **K6 for triangles**: a successfully constructed triangle on three non-collinear points is `Valid`
    (the angular sort about the centroid is counter-clockwise about the stored normal), for both values of
    `reverse`; its vertices are the three given points -/
theorem Polygon.mk?_valid_triangle (a b c : V3) (hnc : cross (sub b a) (sub c a) ≠ zero) (rev : Bool)
    (P : Polygon) (h : Polygon.mk? [a, b, c] rev = .ok P) :
    P.Valid ∧ List.Perm P.pts [a, b, c] := by
  have hx : StrictConvexPos (dedupV [a, b, c]) :=
    (strictConvexPos_triangle a b c hnc).of_subset (fun p hp => dedupV_mem _ p hp)
  obtain ⟨hv, hp, _⟩ := Polygon.mk?_valid_of_strictConvex [a, b, c] rev P h hx
  refine ⟨hv, ?_⟩
  have hnd : [a, b, c].Nodup := by
    have hab : a ≠ b := by
      intro e; apply hnc; rw [e]; apply V3.ext' <;> simp only [cross, sub, zero] <;> ring
    have hac : a ≠ c := by
      intro e; apply hnc; rw [e]; apply V3.ext' <;> simp only [cross, sub, zero] <;> ring
    have hbc : b ≠ c := by
      intro e; apply hnc; rw [e]; apply V3.ext' <;> simp only [cross, sub, zero] <;> ring
    simp [hab, hac, hbc]
  rw [dedupV_of_nodup _ hnd] at hp
  exact hp

#print axioms Polygon.mk?_valid_triangle

/-! ### total correctness on coplanar points in strictly convex position -/
/-- three strictly exposed points are not collinear -/
theorem exposed_not_collinear (x y z : V3)
    (hx : ∃ d : V3, dot d y < dot d x ∧ dot d z < dot d x)
    (hy : ∃ d : V3, dot d x < dot d y ∧ dot d z < dot d y)
    (hz : ∃ d : V3, dot d x < dot d z ∧ dot d y < dot d z) :
    cross (sub y x) (sub z x) ≠ zero := by
  intro hm
  obtain ⟨dx, hx1, hx2⟩ := hx
  obtain ⟨dy, hy1, hy2⟩ := hy
  obtain ⟨dz, hz1, hz2⟩ := hz
  have hs : ∀ (d v : V3), dot d (sub v x) = dot d v - dot d x := by intro d v; simp only [dot, sub]; ring
  have E : ∀ d : V3, normSq (sub y x) * dot d (sub z x) = dot (sub y x) (sub z x) * dot d (sub y x) := by
    intro d
    have : normSq (sub y x) * dot d (sub z x) - dot (sub y x) (sub z x) * dot d (sub y x) =
        - dot d (cross (sub y x) (cross (sub y x) (sub z x))) := by
      generalize sub y x = u; generalize sub z x = w
      simp only [normSq, dot, cross]; ring
    rw [hm] at this
    have hz0 : dot d (cross (sub y x) zero) = 0 := by simp [dot, cross, zero]
    linarith
  have E' : ∀ d : V3, normSq (sub y x) * (dot d z - dot d x) =
      dot (sub y x) (sub z x) * (dot d y - dot d x) := by
    intro d; rw [← hs d z, ← hs d y]; exact E d
  have ex := E' dx; have ey := E' dy; have ez := E' dz
  have huu : 0 < normSq (sub y x) := by
    apply normSq_pos_of_ne
    intro h
    have h1 := congrArg V3.x h; have h2 := congrArg V3.y h; have h3 := congrArg V3.z h
    simp only [sub, zero] at h1 h2 h3
    have : y = x := by apply V3.ext' <;> linarith
    rw [this] at hx1; exact absurd hx1 (lt_irrefl _)
  generalize normSq (sub y x) = U at *
  generalize dot (sub y x) (sub z x) = μ at *
  -- μ > 0
  have hmu : 0 < μ := by
    have h1 : U * (dot dx z - dot dx x) < 0 := mul_neg_of_pos_of_neg huu (by linarith)
    rw [ex] at h1
    by_contra hc
    have := mul_nonneg_of_nonpos_of_nonpos (le_of_not_gt hc) (by linarith : dot dx y - dot dx x ≤ 0)
    linarith
  -- μ < U
  have h2 : μ < U := by
    have : U * (dot dy z - dot dy x) < U * (dot dy y - dot dy x) := mul_lt_mul_of_pos_left (by linarith) huu
    rw [ey] at this
    exact lt_of_mul_lt_mul_right this (by linarith)
  -- U < μ
  have h3 : U < μ := by
    have : μ * (dot dz y - dot dz x) < μ * (dot dz z - dot dz x) := mul_lt_mul_of_pos_left (by linarith) hmu
    rw [← ez] at this
    exact lt_of_mul_lt_mul_right this (by linarith)
  linarith

theorem dedupV_length_le : ∀ l : List V3, (dedupV l).length ≤ l.length := by
  intro l
  induction l with
  | nil => simp [dedupV]
  | cons a l ih =>
    simp only [dedupV, List.length_cons]
    have := List.length_filter_le (fun x => x != a) (dedupV l)
    omega

/-- **K6, total form.**  Distinct input points in strictly convex position lying in the plane of the first
    three: the constructor succeeds, the result is `Valid` and keeps every (distinct) input point -/
theorem Polygon.mk?_ok_of_strictConvex (input : List V3) (rev : Bool) (p0 p1 p2 : V3) (rest : List V3)
    (hd : dedupV input = p0 :: p1 :: p2 :: rest) (hx : StrictConvexPos (dedupV input))
    (hpl : ∀ p ∈ dedupV input, dot (cross (sub p1 p0) (sub p2 p0)) (sub p p0) = 0) :
    ∃ P, Polygon.mk? input rev = .ok P ∧ P.Valid ∧ List.Perm P.pts (dedupV input) := by
  have hnd := dedupV_nodup input
  rw [hd] at hnd
  have h01 : p0 ≠ p1 := by
    intro e; rw [List.nodup_cons] at hnd; exact hnd.1 (by rw [e]; simp)
  have h02 : p0 ≠ p2 := by
    intro e; rw [List.nodup_cons] at hnd; exact hnd.1 (by rw [e]; simp)
  have h12 : p1 ≠ p2 := by
    intro e; rw [List.nodup_cons, List.nodup_cons] at hnd; exact hnd.2.1 (by rw [e]; simp)
  have m0 : p0 ∈ dedupV input := by rw [hd]; simp
  have m1 : p1 ∈ dedupV input := by rw [hd]; simp
  have m2 : p2 ∈ dedupV input := by rw [hd]; simp
  have hn0 : cross (sub p1 p0) (sub p2 p0) ≠ zero := by
    obtain ⟨d0, h0⟩ := hx p0 m0
    obtain ⟨d1, h1⟩ := hx p1 m1
    obtain ⟨d2, h2⟩ := hx p2 m2
    exact exposed_not_collinear p0 p1 p2 ⟨d0, h0 p1 m1 h01.symm, h0 p2 m2 h02.symm⟩
      ⟨d1, h1 p0 m0 h01, h1 p2 m2 h12.symm⟩ ⟨d2, h2 p0 m0 h02, h2 p1 m1 h12⟩
  have hv0 : sub p0 (meanV (dedupV input)) ≠ zero := by
    obtain ⟨d, hd'⟩ := hx p0 m0
    have hlt := exposed_gt_mean d p0 _ m0 hd' ⟨p1, m1, h01.symm⟩
    intro hz
    have hx' := congrArg V3.x hz; have hy := congrArg V3.y hz; have hz' := congrArg V3.z hz
    simp only [sub, zero] at hx' hy hz'
    have e : meanV (dedupV input) = p0 := by apply V3.ext' <;> linarith
    rw [e] at hlt
    exact lt_irrefl _ hlt
  have hall : ∀ p ∈ dedupV input, (⟨p0, if rev = true then neg (cross (sub p1 p0) (sub p2 p0))
        else cross (sub p1 p0) (sub p2 p0)⟩ : Plane).contains p = true := by
    intro p hp
    rw [Plane.contains_iff_dot]
    have h1 := hpl p hp
    cases rev
    · simpa using h1
    · simp only [if_true]
      simp only [dot, neg] at h1 ⊢
      linear_combination (-1 : Rat) * h1
  have hlen : 3 ≤ input.length := by
    have := dedupV_length_le input
    rw [hd] at this
    simp only [List.length_cons] at this
    omega
  have hok := Polygon.mk?_eq_ok input rev p0 p1 p2 rest hlen hd hn0 hv0 hall
  obtain ⟨hv, hp, _⟩ := Polygon.mk?_valid_of_strictConvex input rev _ hok hx
  exact ⟨_, hok, hv, hp⟩

#print axioms Polygon.mk?_ok_of_strictConvex

/-! ### meaning of `StrictConvexPos`: no point is a convex combination of the others -/
theorem sum_zipWith_negative : ∀ (ws : List Rat) (ps : List V3) (f : V3 → Rat), ws.length = ps.length →
    (∀ w ∈ ws, 0 ≤ w) → (∀ p ∈ ps, f p < 0) →
    (List.zipWith (fun w p => w * f p) ws ps).sum ≤ 0 ∧
      ((List.zipWith (fun w p => w * f p) ws ps).sum = 0 → ws.sum = 0) := by
  intro ws
  induction ws with
  | nil => intro ps f _ _ _; simp
  | cons w ws ih =>
    intro ps f hl hw hf
    cases ps with
    | nil => simp at hl
    | cons p ps =>
      simp only [List.zipWith_cons_cons, List.sum_cons]
      have hw0 : 0 ≤ w := hw w (by simp)
      have hfp : f p < 0 := hf p (by simp)
      have h1 : w * f p ≤ 0 := mul_nonpos_of_nonneg_of_nonpos hw0 (le_of_lt hfp)
      obtain ⟨h2, h3⟩ := ih ps f (by simpa using hl) (fun w' h => hw w' (by simp [h])) (fun p' h => hf p' (by simp [h]))
      refine ⟨by linarith, fun h0 => ?_⟩
      have hz1 : w * f p = 0 := by linarith
      have hz2 : (List.zipWith (fun w p => w * f p) ws ps).sum = 0 := by linarith
      have : w = 0 := by
        rcases mul_eq_zero.mp hz1 with h | h
        · exact h
        · exact absurd h (ne_of_lt hfp)
      rw [this, h3 hz2]; ring

/-- a strictly exposed point is not in the convex hull of the other points: `StrictConvexPos` implies
    "every point is a vertex of the hull" (for finitely many points the two are equivalent; only this
    direction is proved here) -/
theorem StrictConvexPos.not_inHull {l : List V3} (h : StrictConvexPos l) (p : V3) (hp : p ∈ l)
    (others : List V3) (ho : ∀ q ∈ others, q ∈ l ∧ q ≠ p) : ¬ InHull others p := by
  rintro ⟨ws, hl, hnn, hs, hc⟩
  obtain ⟨d, hd⟩ := h p hp
  have h1 := dot_comb d p ws others hl
  rw [hs] at h1
  have e : sub (add (comb ws others) (smul (1 - 1) p)) p = zero := by
    rw [hc]; apply V3.ext' <;> simp [sub, add, smul, zero]
  rw [e] at h1
  have hz : dot d zero = 0 := by simp [dot, zero]
  rw [hz] at h1
  have hf : ∀ q ∈ others, dot d (sub q p) < 0 := by
    intro q hq
    have := hd q (ho q hq).1 (ho q hq).2
    have e : dot d (sub q p) = dot d q - dot d p := by simp only [dot, sub]; ring
    rw [e]; linarith
  have := (sum_zipWith_negative ws others (fun q => dot d (sub q p)) hl hnn hf).2 h1.symm
  rw [hs] at this
  exact absurd this (by norm_num)

#print axioms StrictConvexPos.not_inHull
end G3D
