import G3D.Model.Forms2
import G3D.Proofs.PlaneForms
import G3D.Proofs.InterFlat
import Mathlib.Tactic.Ring
import Mathlib.Tactic.Linarith
import Mathlib.Tactic.LinearCombination
import Mathlib.Tactic.FieldSimp

/-! Read-back forms: `Plane.parametric`, `Plane.point_normal`, `Line.parametric`, and the agreement of
    the two `Line` constructor forms. -/
namespace G3D
open V3 Solver2

/-! ### elimination of a two-row system -/

/-- the elimination of a two-row system either finds no pivot at all (every coefficient column of
    both rows is zero) or keeps one row as pivot row and eliminates the other one with it -/
theorem gaussRec_pair (nc : Nat) (r1 r2 : Row) : ∀ (f j : Nat), nc ≤ f + j →
    (gaussRec f nc j [r1, r2] = [r1, r2] ∧
        ∀ i, j ≤ i → i + 1 < nc → r1.getD i 0 = 0 ∧ r2.getD i 0 = 0) ∨
    ∃ c, (r1.getD c 0 ≠ 0 ∧ gaussRec f nc j [r1, r2] = [r1, elimRow r1 c r2]) ∨
         (r2.getD c 0 ≠ 0 ∧ gaussRec f nc j [r1, r2] = [r2, elimRow r2 c r1]) := by
  intro f
  induction f with
  | zero => intro j hj; left; exact ⟨rfl, fun i h1 h2 => by omega⟩
  | succ f ih =>
    intro j hj
    unfold gaussRec
    by_cases hjn : j + 1 ≥ nc
    · simp only [hjn, if_true]; left; exact ⟨trivial, fun i h1 h2 => by omega⟩
    · simp only [hjn, if_false]
      cases hp : pivotIdx [r1, r2] j with
      | none =>
        simp only
        have hz := pivotIdx_none hp
        rcases ih (j+1) (by omega) with ⟨he, hz'⟩ | h
        · left
          refine ⟨he, fun i h1 h2 => ?_⟩
          by_cases hij : i = j
          · subst hij; exact ⟨hz r1 (by simp), hz r2 (by simp)⟩
          · exact hz' i (by omega) h2
        · right; exact h
      | some k =>
        simp only
        obtain ⟨hk, hne⟩ := pivotIdx_some hp
        right
        refine ⟨j, ?_⟩
        have hk2 : k = 0 ∨ k = 1 := by
          have : k < 2 := by simpa using hk
          omega
        rcases hk2 with rfl | rfl
        · left
          refine ⟨by simpa using hne, ?_⟩
          simp [takePivot, gaussRec_single]
        · right
          refine ⟨by simpa using hne, ?_⟩
          simp [takePivot, gaussRec_single]

theorem solve_pair4 (a b c d x y z e : Rat) :
    (solve [[a, b, c, d], [x, y, z, e]] = [[a, b, c, d], [x, y, z, e]] ∧
        (⟨a, b, c⟩ : V3) = zero ∧ (⟨x, y, z⟩ : V3) = zero) ∨
    ∃ j, ([a, b, c, d].getD j 0 ≠ 0 ∧
            solve [[a, b, c, d], [x, y, z, e]] = [[a, b, c, d], elimRow [a, b, c, d] j [x, y, z, e]]) ∨
         ([x, y, z, e].getD j 0 ≠ 0 ∧
            solve [[a, b, c, d], [x, y, z, e]] = [[x, y, z, e], elimRow [x, y, z, e] j [a, b, c, d]]) := by
  have h := gaussRec_pair 4 [a, b, c, d] [x, y, z, e] 4 0 (by omega)
  have hs : solve [[a, b, c, d], [x, y, z, e]] = gaussRec 4 4 0 [[a, b, c, d], [x, y, z, e]] := rfl
  rw [hs]
  rcases h with ⟨he, hz⟩ | h
  · left
    have h0 := hz 0 (by omega) (by omega)
    have h1 := hz 1 (by omega) (by omega)
    have h2 := hz 2 (by omega) (by omega)
    simp at h0 h1 h2
    refine ⟨he, ?_, ?_⟩
    · rw [h0.1, h1.1, h2.1]; rfl
    · rw [h0.2, h1.2, h2.2]; rfl
  · right; exact h

/-! ### vector algebra -/

theorem cross_ne_zero_of_orth {u v : V3} (hu : u ≠ zero) (hv : v ≠ zero) (h : dot u v = 0) :
    cross u v ≠ zero := by
  intro hc
  have hl := lagrange u v
  rw [hc, h] at hl
  have h1 := normSq_pos hu
  have h2 := normSq_pos hv
  have h3 : normSq zero = 0 := by simp [normSq, dot, zero]
  rw [h3] at hl
  nlinarith [mul_pos h1 h2]

/-- a row `q + k p` is not null when the coefficient vectors of `p` and `q` are independent -/
theorem addMul_nonnull (a b c x y z k : Rat) (h : cross ⟨a, b, c⟩ ⟨x, y, z⟩ ≠ zero) :
    nullRow (addMul k [a, b, c, 0] [x, y, z, 0]) = false := by
  by_contra hn
  simp only [Bool.not_eq_false] at hn
  rw [nullRow_iff] at hn
  simp only [addMul, List.zipWith_cons_cons, List.zipWith_nil_right] at hn
  have hx := hn (x + k * a) (by simp)
  have hy := hn (y + k * b) (by simp)
  have hz := hn (z + k * c) (by simp)
  apply h
  apply V3.ext' <;> simp only [cross, zero]
  · linear_combination b * hz - c * hy
  · linear_combination c * hx - a * hz
  · linear_combination a * hy - b * hx

/-! ### the two solver calls of `Plane.parametric` -/

/-- a homogeneous system in three unknowns, called with the expected (positive) number of free
    values the first of which is 1: the call returns a non-zero vector solving the system -/
theorem homog_call (m : Mat) (hu : Uniform (3+1) m) (hne : m ≠ []) (hz : Sat m [0, 0, 0])
    (v : List Rat) (hv : v.length = varargs 3 (solve m)) (hpos : 0 < v.length)
    (h1 : v.getD 0 0 = 1) :
    ∃ u : V3, vecOfVals (call 3 (solve m) v) = .ok u ∧ Sat m [u.x, u.y, u.z] ∧ u ≠ zero := by
  have hs : solvable (solve m) = true := (solvable_iff_consistent 3 m hu hne).mpr ⟨_, rfl, hz⟩
  obtain ⟨vals, hcall, hlen, hsome, hsat⟩ := call_satisfies 3 m hu hne hs v hv
  have hrb := call_readback 3 m hu hne hs v hv vals hcall 0 hpos
  rw [h1] at hrb
  generalize (freeCols (pivotCols (solve m)) 3).getD 0 0 = k at hrb
  match vals, hlen, hsome, hsat, hcall, hrb with
  | [o1, o2, o3], _, hsome, hsat, hcall, hrb =>
    have s1 := hsome 0 (by norm_num); have s2 := hsome 1 (by norm_num); have s3 := hsome 2 (by norm_num)
    simp at s1 s2 s3
    obtain ⟨x0, rfl⟩ := Option.ne_none_iff_exists'.mp s1
    obtain ⟨y0, rfl⟩ := Option.ne_none_iff_exists'.mp s2
    obtain ⟨z0, rfl⟩ := Option.ne_none_iff_exists'.mp s3
    refine ⟨⟨x0, y0, z0⟩, by rw [hcall]; rfl, by simpa [tot] using hsat, ?_⟩
    intro h0
    have hx := congrArg V3.x h0; have hy := congrArg V3.y h0; have hzz := congrArg V3.z h0
    simp only [zero] at hx hy hzz
    subst hx hy hzz
    match k, hrb with
    | 0, hrb => simp at hrb
    | 1, hrb => simp at hrb
    | 2, hrb => simp at hrb
    | k+3, hrb => simp at hrb

theorem sat_row3 (a b c x y z : Rat) : rowSat [a, b, c, 0] [x, y, z] ↔ a * x + b * y + c * z = 0 := by
  simp [rowSat, rowDot, add_assoc]

theorem varargs_one_row (a b c : Rat) (hn : (⟨a, b, c⟩ : V3) ≠ zero) :
    varargs 3 (solve [[a, b, c, 0]]) = 2 := by
  rw [solve_single]
  have hnn : nullRow [a, b, c, 0] = false := by
    by_contra h
    simp only [Bool.not_eq_false] at h
    rw [nullRow_iff] at h
    apply hn
    rw [h a (by simp), h b (by simp), h c (by simp)]; rfl
  simp [varargs, nonNullRows, hnn]

theorem varargs_two_rows (n v : V3) (hn : n ≠ zero) (hc : cross n v ≠ zero) :
    varargs 3 (solve [[n.x, n.y, n.z, 0], [v.x, v.y, v.z, 0]]) = 1 := by
  have hc' : cross v n ≠ zero := by
    intro h; apply hc; rw [cross_anticomm, h]; rfl
  rcases solve_pair4 n.x n.y n.z 0 v.x v.y v.z 0 with ⟨_, h0, _⟩ | ⟨j, ⟨hj, he⟩ | ⟨hj, he⟩⟩
  · exact absurd h0 hn
  · rw [he]
    have p1 := not_nullRow_of_ne hj
    have p2 : nullRow (elimRow [n.x, n.y, n.z, 0] j [v.x, v.y, v.z, 0]) = false :=
      addMul_nonnull _ _ _ _ _ _ _ hc
    simp [varargs, nonNullRows, p1, p2]
  · rw [he]
    have p1 := not_nullRow_of_ne hj
    have p2 : nullRow (elimRow [v.x, v.y, v.z, 0] j [n.x, n.y, n.z, 0]) = false :=
      addMul_nonnull _ _ _ _ _ _ _ hc'
    simp [varargs, nonNullRows, p1, p2]

/-- the two solver calls of `Plane.parametric` succeed: `v` is a non-zero vector orthogonal to `n`,
    `w` a non-zero vector orthogonal to both -/
theorem plane_param_calls (P : Plane) (hP : P.WF) :
    ∃ v w : V3, P.parametric = .ok (P.p, v, w) ∧ v ≠ zero ∧ w ≠ zero ∧
      dot v P.n = 0 ∧ dot w P.n = 0 ∧ dot v w = 0 := by
  have hn : (⟨P.n.x, P.n.y, P.n.z⟩ : V3) ≠ zero := hP
  -- first call
  have hu1 : Uniform (3+1) [[P.n.x, P.n.y, P.n.z, 0]] := by
    intro r hr; simp at hr; subst hr; rfl
  obtain ⟨v, hv, hsv, hv0⟩ := homog_call [[P.n.x, P.n.y, P.n.z, 0]] hu1 (by simp)
    (by intro r hr; simp at hr; subst hr; simp [rowSat, rowDot])
    [1, 1] (by rw [varargs_one_row _ _ _ hn]; rfl) (by simp) rfl
  have hnv : P.n.x * v.x + P.n.y * v.y + P.n.z * v.z = 0 :=
    (sat_row3 _ _ _ _ _ _).mp (hsv _ (by simp))
  have hdnv : dot P.n v = 0 := hnv
  have hcr : cross P.n v ≠ zero := cross_ne_zero_of_orth hP hv0 hdnv
  -- second call
  have hu2 : Uniform (3+1) [[P.n.x, P.n.y, P.n.z, 0], [v.x, v.y, v.z, 0]] := by
    intro r hr; simp at hr; rcases hr with rfl | rfl <;> rfl
  obtain ⟨w, hw, hsw, hw0⟩ := homog_call [[P.n.x, P.n.y, P.n.z, 0], [v.x, v.y, v.z, 0]] hu2 (by simp)
    (by intro r hr; simp at hr; rcases hr with rfl | rfl <;> simp [rowSat, rowDot])
    [1] (by rw [varargs_two_rows P.n v hP hcr]; rfl) (by simp) rfl
  have hnw : P.n.x * w.x + P.n.y * w.y + P.n.z * w.z = 0 :=
    (sat_row3 _ _ _ _ _ _).mp (hsw _ (by simp))
  have hvw : v.x * w.x + v.y * w.y + v.z * w.z = 0 :=
    (sat_row3 _ _ _ _ _ _).mp (hsw _ (by simp))
  refine ⟨v, w, ?_, hv0, hw0, ?_, ?_, hvw⟩
  · unfold Plane.parametric
    rw [hv]
    simp only [bind, Except.bind]
    rw [hw]
    rfl
  · simp only [dot]; linarith
  · simp only [dot]; linarith

/-- `Plane(*P.parametric()) == P`: the parametric form is a point of the plane and two orthogonal,
    independent directions of the plane, and rebuilding the plane from it gives the same plane -/
theorem plane_param_roundtrip (P : Plane) (hP : P.WF) :
    ∃ u v w, P.parametric = .ok (u, v, w) ∧ u = P.p ∧ dot v P.n = 0 ∧ dot w P.n = 0 ∧ dot v w = 0 ∧
      cross v w ≠ zero ∧
      ∃ Q, Plane.ofPVV u v w = .ok Q ∧ Q.eqv P = true ∧ ∀ x, Q.den x ↔ P.den x := by
  obtain ⟨v, w, hpar, hv0, hw0, hvn, hwn, hvw⟩ := plane_param_calls P hP
  have hc : cross v w ≠ zero := cross_ne_zero_of_orth hv0 hw0 hvw
  refine ⟨P.p, v, w, hpar, rfl, hvn, hwn, hvw, hc, ⟨P.p, cross v w⟩, ?_, ?_⟩
  · unfold Plane.ofPVV; simp only; rw [if_neg hc]
  · have hQ : (⟨P.p, cross v w⟩ : Plane).WF := hc
    have hpar : cross (cross v w) P.n = zero := by
      simp only [dot] at hvn hwn
      apply V3.ext' <;> simp only [cross, zero]
      · linear_combination w.x * hvn - v.x * hwn
      · linear_combination w.y * hvn - v.y * hwn
      · linear_combination w.z * hvn - v.z * hwn
    have he : (⟨P.p, cross v w⟩ : Plane).eqv P = true :=
      Plane.eqv_of_parallel_common _ P hQ hP ((parallel_iff_cross _ _).mpr hpar) P.p
        (by simp [Plane.den, dot, sub]) (by simp [Plane.den, dot, sub])
    exact ⟨he, Plane.eqv_den _ P hQ hP he⟩

/-- `Plane(*P.point_normal()) == P` (structurally, with the unnormalised normal) -/
theorem plane_pn_roundtrip (P : Plane) (hP : P.WF) :
    ∃ Q, Plane.ofPN P.pointNormal.1 P.pointNormal.2 = .ok Q ∧ Q = P := by
  refine ⟨P, ?_, rfl⟩
  unfold Plane.ofPN Plane.pointNormal
  simp only
  rw [if_neg hP]

/-- `Line(Point, Point)` and `Line(Point, Vector)` with the difference vector build the same line,
    which passes through both points -/
theorem line_forms_agree (p q : V3) (h : p ≠ q) :
    ∃ l1 l2, Line.ofPoints? p q = .ok l1 ∧ Line.mk? p (sub q p) = .ok l2 ∧ l1 = l2 ∧ l1.WF ∧
      l1.den p ∧ l1.den q := by
  have hd : sub q p ≠ zero := fun h0 => h (sub_eq_zero_iff.mp h0).symm
  have hm : Line.mk? p (sub q p) = .ok ⟨p, sub q p⟩ := by unfold Line.mk?; rw [if_neg hd]
  refine ⟨⟨p, sub q p⟩, ⟨p, sub q p⟩, hm, hm, rfl, hd, ⟨0, ?_⟩, ⟨1, ?_⟩⟩
  · apply V3.ext' <;> simp [add, smul]
  · apply V3.ext' <;> simp [add, smul, sub]

/-- `Line(*l.parametric()) == l` (structurally) -/
theorem line_param_roundtrip (l : Line) (hl : l.WF) :
    Line.mk? l.parametric.1 l.parametric.2 = .ok l := by
  unfold Line.mk? Line.parametric
  simp only
  rw [if_neg hl]

/-! ### non-vacuity: concrete planes whose normal has zero leading components -/

example : Plane.parametric ⟨⟨1, 2, 3⟩, ⟨0, 1, 1⟩⟩ = .ok (⟨1, 2, 3⟩, ⟨1, -1, 1⟩, ⟨-2, -1, 1⟩) := by
  decide +kernel
example : Plane.parametric ⟨⟨1, 2, 3⟩, ⟨0, 0, 2⟩⟩ = .ok (⟨1, 2, 3⟩, ⟨1, 1, 0⟩, ⟨-1, 1, 0⟩) := by
  decide +kernel
example : Plane.parametric ⟨⟨1, 2, 3⟩, ⟨2, 0, 0⟩⟩ = .ok (⟨1, 2, 3⟩, ⟨0, 1, 1⟩, ⟨0, -1, 1⟩) := by
  decide +kernel
example : Plane.parametric ⟨⟨1, 2, 3⟩, ⟨1, -5, 3⟩⟩ = .ok (⟨1, 2, 3⟩, ⟨2, 1, 1⟩, ⟨-8/11, 5/11, 1⟩) := by
  decide +kernel
/-- the degenerate normal is rejected (the first call has three free unknowns, not two) -/
example : Plane.parametric ⟨⟨1, 2, 3⟩, ⟨0, 0, 0⟩⟩ = .error .value := by decide +kernel

#print axioms gaussRec_pair
#print axioms plane_param_calls
#print axioms plane_param_roundtrip
#print axioms plane_pn_roundtrip
#print axioms line_forms_agree
#print axioms line_param_roundtrip
end G3D
