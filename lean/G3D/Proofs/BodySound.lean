import G3D.Proofs.BodySoundBase
import G3D.Proofs.CtorNondeg

/-! # Soundness of the body handlers, part 2: strengthened flat × polygon exactness (`ExactW`), coplanar
    ConvexPolygon × ConvexPolygon, ConvexPolygon × ConvexPolyhedron, ConvexPolyhedron × ConvexPolyhedron. -/
namespace G3D
open V3

/-! ### strengthened exactness: a returned Segment is well formed -/

/-- `interCarrierPolygon_exact` with well-formedness of a returned Segment -/
theorem interCarrierPolygon_exactW {X : V3 → Prop} (ln : Line) (hln : ln.WF) (hX : ∀ x, X x → ln.den x)
    (mem : V3 → Bool) (hmem : ∀ q, mem q = true ↔ X q)
    (withPoint : V3 → Res) (hwp : ∀ q, Exact (withPoint q) (· = q) X)
    (withSeg : Seg → Res) (hws : ∀ s : Seg, s.WF → Exact (withSeg s) s.den X)
    (P : Polygon) (hv : P.Valid) :
    ExactW (interCarrierPolygon ln mem withPoint withSeg P) X (InHull P.pts) := by
  have hinp := Polygon.hull_in_plane P hv
  obtain ⟨o, ho, _, hd⟩ := interLinePlane_exact ln P.plane hln
  unfold interCarrierPolygon
  rcases interLinePlane_shape ln P.plane o ho with rfl | ⟨q, rfl⟩ | ⟨rfl, hc⟩
  · rw [ho]
    refine ⟨none, rfl, trivial, fun x => ?_⟩
    simp only [denOptB, false_iff]
    rintro ⟨h1, h2⟩; exact (hd x).mpr ⟨hX x h1, hinp x h2⟩
  · rw [ho]
    simp only
    by_cases hc : (mem q && P.contains q) = true
    · rw [if_pos hc]
      rw [Bool.and_eq_true] at hc
      refine ⟨_, rfl, trivial, fun x => ?_⟩
      simp only [denOptB, ObjDen, Geo.den]
      constructor
      · rintro rfl; exact ⟨(hmem x).mp hc.1, (Polygon.contains_iff P hv x).mp hc.2⟩
      · rintro ⟨h1, h2⟩; exact (hd x).mpr ⟨hX x h1, hinp x h2⟩
    · rw [if_neg hc]
      refine ⟨none, rfl, trivial, fun x => ?_⟩
      simp only [denOptB, false_iff]
      rintro ⟨h1, h2⟩
      have : x = q := (hd x).mpr ⟨hX x h1, hinp x h2⟩
      subst this
      exact hc (by rw [Bool.and_eq_true]; exact ⟨(hmem x).mpr h1, (Polygon.contains_iff P hv x).mpr h2⟩)
  · rw [ho]
    simp only
    obtain ⟨o', ho', hw', hd'⟩ := interLinePolygon_exact ln hln P hv
    rw [ho']
    rcases ObjFlatWF_cases o' hw' with rfl | ⟨q, rfl⟩ | ⟨s, rfl, hsW⟩
    · refine ⟨none, rfl, trivial, fun x => ?_⟩
      simp only [denOptB, false_iff]
      rintro ⟨h1, h2⟩; exact (hd' x).mpr ⟨hX x h1, h2⟩
    · simp only
      obtain ⟨o2, ho2, hw2, hd2⟩ := ExactW_of_liftFlat (hwp q)
      refine ⟨o2, ho2, hw2, fun x => ?_⟩
      rw [hd2 x]
      have hq : ∀ y, y = q ↔ ln.den y ∧ InHull P.pts y := fun y => by simpa [denOptB, ObjDen, Geo.den] using hd' y
      constructor
      · rintro ⟨h1, h2⟩; exact ⟨h2, ((hq x).mp h1).2⟩
      · rintro ⟨h1, h2⟩; exact ⟨(hq x).mpr ⟨hX x h1, h2⟩, h1⟩
    · simp only
      have hsden : ∀ y, s.den y ↔ ln.den y ∧ InHull P.pts y := fun y => by simpa [denOptB, ObjDen, Geo.den] using hd' y
      obtain ⟨o2, ho2, hw2, hd2⟩ := ExactW_of_liftFlat (hws s hsW)
      refine ⟨o2, ho2, hw2, fun x => ?_⟩
      rw [hd2 x]
      constructor
      · rintro ⟨h1, h2⟩; exact ⟨h2, ((hsden x).mp h1).2⟩
      · rintro ⟨h1, h2⟩; exact ⟨(hsden x).mpr ⟨hX x h1, h2⟩, h1⟩

/-- `interSegPolygon_exact`, recording that a returned Segment is well formed -/
theorem interSegPolygon_exactW (a : Seg) (ha : a.WF) (P : Polygon) (hv : P.Valid) :
    ExactW (interSegPolygon a P) a.den (InHull P.pts) :=
  interCarrierPolygon_exactW a.line (a.line_WF ha) (a.den_sub_line ha) a.contains (Seg.contains_iff a ha)
    (fun q => interPointSeg q a) (fun q => interPointSeg_exact q a ha)
    (fun s => interSegSeg s a) (fun s hs => interSegSeg_exact s a hs ha) P hv

/-- `interPolygonHalfLine_exact`, recording that a returned Segment is well formed -/
theorem interPolygonHalfLine_exactW (P : Polygon) (hv : P.Valid) (h : HalfLine) (hh : h.WF) :
    ExactW (interPolygonHalfLine P h) h.den (InHull P.pts) :=
  interCarrierPolygon_exactW h.line (h.line_WF hh) (h.den_sub_line hh) h.contains (HalfLine.contains_iff h hh)
    (fun q => interPointHalfLine q h) (fun q => interPointHalfLine_exact q h hh)
    (fun s => interSegHalfLine s h) (fun s hs => interSegHalfLine_exact s h hs hh) P hv

/-- `interPlanePolygon_exact`, recording that a returned Segment is well formed -/
theorem interPlanePolygon_exactW (a : Plane) (ha : a.WF) (P : Polygon) (hv : P.Valid) :
    ExactW (interPlanePolygon a P) a.den (InHull P.pts) := by
  have hinp := Polygon.hull_in_plane P hv
  have hpW := Polygon.plane_WF P hv
  obtain ⟨o, ho, _, hd⟩ := interPlanePlane_exact a P.plane ha hpW
  unfold interPlanePolygon
  rcases interPlanePlane_shape a P.plane ha hpW o ho with rfl | ⟨rfl, heq⟩ | ⟨L, rfl, hLW⟩
  · rw [ho]
    refine ⟨none, rfl, trivial, fun x => ?_⟩
    simp only [denOptB, false_iff]
    rintro ⟨h1, h2⟩; exact (hd x).mpr ⟨h1, hinp x h2⟩
  · rw [ho]
    refine ⟨some (.polygon P), rfl, trivial, fun x => ?_⟩
    simp only [denOptB, ObjDen]
    constructor
    · intro h; exact ⟨((Plane.eqv_den a P.plane ha hpW heq) x).mpr (hinp x h), h⟩
    · exact fun h => h.2
  · rw [ho]
    simp only
    obtain ⟨o', ho', hw', hd'⟩ := interLinePolygon_exact L hLW P hv
    refine ⟨o', ho', hw'.resSegWF, fun x => ?_⟩
    rw [hd' x]
    have hL : ∀ y, L.den y ↔ a.den y ∧ P.plane.den y := fun y => by simpa [denOpt, Geo.den] using hd y
    constructor
    · rintro ⟨h1, h2⟩; exact ⟨((hL x).mp h1).1, h2⟩
    · rintro ⟨h1, h2⟩; exact ⟨(hL x).mpr ⟨h1, hinp x h2⟩, h2⟩

/-- `interPolygonPolygon_noncoplanar_exact`, recording that a returned Segment is well formed -/
theorem interPolygonPolygon_noncoplanar_exactW (a b : Polygon) (ha : a.Valid) (hb : b.Valid)
    (hne : a.plane.eqv b.plane = false) :
    ExactW (interPolygonPolygon a b) (InHull a.pts) (InHull b.pts) := by
  have haW := Polygon.plane_WF a ha
  have hbW := Polygon.plane_WF b hb
  have hina := Polygon.hull_in_plane a ha
  have hinb := Polygon.hull_in_plane b hb
  obtain ⟨o, ho, hw, hd⟩ := interPlanePlane_exact a.plane b.plane haW hbW
  have hshape := interPlanePlane_shape a.plane b.plane haW hbW o ho
  unfold interPolygonPolygon
  rw [ho]
  rcases hshape with rfl | ⟨_, heq⟩ | ⟨L, rfl, hL⟩
  · refine ⟨none, rfl, trivial, fun x => ?_⟩
    simp only [denOptB, false_iff]
    rintro ⟨hxa, hxb⟩
    exact (hd x).mpr ⟨hina x hxa, hinb x hxb⟩
  · rw [heq] at hne; cases hne
  · have hLden : ∀ x, L.den x ↔ (a.plane.den x ∧ b.plane.den x) := fun x => hd x
    obtain ⟨oa, hoa, hwa, hda⟩ := interLinePolygon_exact L hL a ha
    obtain ⟨ob, hob, hwb, hdb⟩ := interLinePolygon_exact L hL b hb
    simp only
    rw [hoa, hob]
    have key : ∀ x, (InHull a.pts x ∧ InHull b.pts x) ↔ ((L.den x ∧ InHull a.pts x) ∧ (L.den x ∧ InHull b.pts x)) := by
      intro x
      constructor
      · rintro ⟨h1, h2⟩
        have := (hLden x).mpr ⟨hina x h1, hinb x h2⟩
        exact ⟨⟨this, h1⟩, ⟨this, h2⟩⟩
      · rintro ⟨⟨_, h1⟩, ⟨_, h2⟩⟩; exact ⟨h1, h2⟩
    rcases ObjFlatWF_cases oa hwa with rfl | ⟨qa, rfl⟩ | ⟨sa, rfl, hsa⟩
    · refine ⟨none, rfl, trivial, fun x => ?_⟩
      simp only [denOptB, false_iff]
      rintro ⟨h1, h2⟩
      have := ((key x).mp ⟨h1, h2⟩).1
      exact (hda x).mpr this
    all_goals
      rcases ObjFlatWF_cases ob hwb with rfl | ⟨qb, rfl⟩ | ⟨sb, rfl, hsb⟩
    · refine ⟨none, rfl, trivial, fun x => ?_⟩
      simp only [denOptB, false_iff]
      rintro ⟨h1, h2⟩
      exact (hdb x).mpr ((key x).mp ⟨h1, h2⟩).2
    · have := ExactW_of_liftFlat (interFlat_exact (.point qa) (.point qb) trivial trivial)
      obtain ⟨o', ho', hw', hd'⟩ := this
      refine ⟨o', ho', hw', fun x => ?_⟩
      rw [hd' x, key x]
      exact and_congr (hda x) (hdb x)
    · have := ExactW_of_liftFlat (interFlat_exact (.point qa) (.seg sb) trivial hsb)
      obtain ⟨o', ho', hw', hd'⟩ := this
      refine ⟨o', ho', hw', fun x => ?_⟩
      rw [hd' x, key x]
      exact and_congr (hda x) (hdb x)
    · refine ⟨none, rfl, trivial, fun x => ?_⟩
      simp only [denOptB, false_iff]
      rintro ⟨h1, h2⟩
      exact (hdb x).mpr ((key x).mp ⟨h1, h2⟩).2
    · have := ExactW_of_liftFlat (interFlat_exact (.seg sa) (.point qb) hsa trivial)
      obtain ⟨o', ho', hw', hd'⟩ := this
      refine ⟨o', ho', hw', fun x => ?_⟩
      rw [hd' x, key x]
      exact and_congr (hda x) (hdb x)
    · have := ExactW_of_liftFlat (interFlat_exact (.seg sa) (.seg sb) hsa hsb)
      obtain ⟨o', ho', hw', hd'⟩ := this
      refine ⟨o', ho', hw', fun x => ?_⟩
      rw [hd' x, key x]
      exact and_congr (hda x) (hdb x)

/-! ### coplanar ConvexPolygon × ConvexPolygon -/
theorem BS.foldl_addNew_inv {Q : V3 → Prop} : ∀ (l acc : List V3), (∀ p ∈ l, Q p) → (∀ p ∈ acc, Q p) →
    ∀ p ∈ l.foldl addNew acc, Q p := by
  intro l
  induction l with
  | nil => intro acc _ hacc; exact hacc
  | cons x l ih =>
    intro acc hl hacc
    rw [List.foldl_cons]
    exact ih _ (fun p hp => hl p (by simp [hp])) (BS.all_addNew hacc (hl x (by simp)))

theorem crossHits_inv (Q : V3 → Prop) (sb : List Seg) : ∀ (sa : List Seg) (acc out : List V3),
    (∀ s ∈ sa, ∀ t ∈ sb, ∀ q, interSegSeg t s = .ok (some (.point q)) → Q q) →
    (∀ p ∈ acc, Q p) → crossHits sb sa acc = .ok out → ∀ p ∈ out, Q p := by
  intro sa
  induction sa with
  | nil => intro acc out _ hacc h; simp only [crossHits] at h; cases h; exact hacc
  | cons s ss ih =>
    intro acc out hs hacc h
    rw [crossHits] at h
    cases h1 : crossHitsOne sb s acc with
    | error e => rw [h1] at h; cases h
    | ok acc' =>
      rw [h1] at h
      have hacc' : ∀ p ∈ acc', Q p := by
        unfold crossHitsOne at h1
        exact edgeHits_inv Q _ sb acc acc' (fun t ht q hq => hs s (by simp) t ht q hq) hacc h1
      exact ih acc' out (fun s' hs' => hs s' (by simp [hs'])) hacc' h

theorem BS.mapM_mem {α β ε : Type} (f : α → Except ε β) : ∀ (l : List α) (out : List β),
    l.mapM f = .ok out → ∀ b ∈ out, ∃ a ∈ l, f a = .ok b := by
  intro l
  induction l with
  | nil => intro out h b hb; simp [List.mapM_nil, pure, Except.pure] at h; cases h; simp at hb
  | cons a l ih =>
    intro out h b hb
    rw [List.mapM_cons] at h
    simp only [bind, Except.bind] at h
    cases ha : f a with
    | error e => rw [ha] at h; cases h
    | ok b0 =>
      rw [ha] at h
      simp only at h
      cases hl : l.mapM f with
      | error e => rw [hl] at h; cases h
      | ok bs =>
        rw [hl] at h
        simp only [pure, Except.pure] at h
        cases h
        rcases List.mem_cons.mp hb with rfl | hb
        · exact ⟨a, by simp, ha⟩
        · obtain ⟨a', ha', hfa⟩ := ih bs hl b hb
          exact ⟨a', by simp [ha'], hfa⟩

/-- every Segment `segments()` returns is `Segment(p, q)` for two distinct vertices (any polygon object) -/
theorem Polygon.segments?_mem (P : Polygon) (ss : List Seg) (h : P.segments? = .ok ss) (s : Seg) (hs : s ∈ ss) :
    s.WF ∧ s.a ∈ P.pts ∧ s.b ∈ P.pts := by
  unfold Polygon.segments? at h
  obtain ⟨e, he, hfe⟩ := BS.mapM_mem _ _ ss h s hs
  have hm := closedPairs_mem P.pts e he
  by_cases hne : e.1 = e.2
  · rw [if_pos hne] at hfe; cases hfe
  · rw [if_neg hne] at hfe; cases hfe
    exact ⟨Seg.mk'_WF hne, hm.1, hm.2⟩

/-- **the coplanar branch of `inter_convexpolygon_convexpolygon`, for arbitrary polygon objects** with
    intended denotations `DA`, `DB`: sound as soon as the denotations contain the vertices, are closed under
    segments, and a vertex of the other polygon that passes `__contains__` lies in the denotation.
    Every collected point (contained vertices, edge crossings) lies in both, and the vertices / end points of
    the result are collected points. -/
theorem interPolygonPolygon_coplanar_branch_sound (a b : Polygon) (DA DB : V3 → Prop)
    (hav : ∀ v ∈ a.pts, DA v) (hbv : ∀ v ∈ b.pts, DB v)
    (hac : ∀ u v x, DA u → DA v → Between u v x → DA x)
    (hbc : ∀ u v x, DB u → DB v → Between u v x → DB x)
    (hab : ∀ x ∈ b.pts, a.contains x = true → DA x)
    (hba : ∀ x ∈ a.pts, b.contains x = true → DB x)
    (π : Plane) (hpp : interPlanePlane a.plane b.plane = .ok (some (.plane π))) :
    Sound (interPolygonPolygon a b) DA DB := by
  unfold interPolygonPolygon
  rw [hpp]
  simp only
  split
  · exact Sound.error _
  refine Sound.bind _ _ (fun sa hsa => ?_)
  refine Sound.bind _ _ (fun sb hsb => ?_)
  refine Sound.bind _ _ (fun acc hacc => ?_)
  have hSa := Polygon.segments?_mem a sa (BS.liftC_ok hsa)
  have hSb := Polygon.segments?_mem b sb (BS.liftC_ok hsb)
  have hinv : ∀ p ∈ acc, DA p ∧ DB p := by
    refine crossHits_inv (fun p => DA p ∧ DB p) sb sa _ acc ?_ ?_ hacc
    · intro s hs t ht q hq
      obtain ⟨hsW, hsa', hsb'⟩ := hSa s hs
      obtain ⟨htW, hta', htb'⟩ := hSb t ht
      have := (interSegSeg_exact t s htW hsW).point_mem q hq
      exact ⟨hac _ _ q (hav _ hsa') (hav _ hsb') this.2, hbc _ _ q (hbv _ hta') (hbv _ htb') this.1⟩
    · refine BS.foldl_addNew_inv _ _ ?_ (BS.foldl_addNew_inv _ _ ?_ (by simp))
      · intro p hp
        rw [List.mem_filter] at hp
        exact ⟨hab p hp.1 hp.2, hbv p hp.1⟩
      · intro p hp
        rw [List.mem_filter] at hp
        exact ⟨hav p hp.1, hba p hp.1 hp.2⟩
  split
  · exact Sound.none
  · rename_i p
    have := hinv p (by simp)
    exact Sound.pt this.1 this.2
  · rename_i p q
    refine Sound.bind _ _ (fun s hs => ?_)
    by_cases hpq : p = q
    · rw [if_pos hpq] at hs; simp [liftC] at hs
    · rw [if_neg hpq] at hs
      simp only [liftC] at hs; cases hs
      exact Sound.seg (Seg.mk'_WF hpq) (hinv p (by simp)) (hinv q (by simp))
  · refine Sound.bind _ _ (fun c _ => ?_)
    have hjp : ∀ _ : PUnit, Sound (liftC (Polygon.mk? acc) >>= fun P => pure (some (Obj.polygon P))) DA DB := by
      intro _
      refine Sound.bind _ _ (fun P hP => ?_)
      obtain ⟨_, _, hsub, _, _⟩ := Polygon.mk?_ok acc false P (BS.liftC_ok hP)
      exact Sound.polygon (fun v hv => hinv v (hsub v hv))
    cases c
    · exact hjp ()
    · exact Sound.bind _ _ (fun u _ => hjp u)
#print axioms interPolygonPolygon_coplanar_branch_sound

theorem InHull.between {l : List V3} {u v x : V3} (hu : InHull l u) (hv : InHull l v) (hx : Between u v x) :
    InHull l x := by
  obtain ⟨t, h0, h1, rfl⟩ := hx
  exact InHull.convex hu hv t h0 h1

/-- **coplanar branch, two Valid polygons**: every vertex / end point of the result lies in both hulls -/
theorem interPolygonPolygon_coplanar_sound (a b : Polygon) (ha : a.Valid) (hb : b.Valid)
    (hco : a.plane.eqv b.plane = true) :
    Sound (interPolygonPolygon a b) (InHull a.pts) (InHull b.pts) := by
  have hpp : interPlanePlane a.plane b.plane = .ok (some (.plane a.plane)) := by
    unfold interPlanePlane; rw [if_pos hco]
  exact interPolygonPolygon_coplanar_branch_sound a b _ _ (vertex_in_hull _) (vertex_in_hull _)
    (fun _ _ _ hu hv hx => InHull.between hu hv hx) (fun _ _ _ hu hv hx => InHull.between hu hv hx)
    (fun x _ h => (Polygon.contains_iff a ha x).mp h) (fun x _ h => (Polygon.contains_iff b hb x).mp h)
    a.plane hpp
#print axioms interPolygonPolygon_coplanar_sound

/-- ConvexPolygon × ConvexPolygon, all relative positions of the carrier planes -/
theorem interPolygonPolygon_sound (a b : Polygon) (ha : a.Valid) (hb : b.Valid) :
    Sound (interPolygonPolygon a b) (InHull a.pts) (InHull b.pts) := by
  cases hco : a.plane.eqv b.plane with
  | true => exact interPolygonPolygon_coplanar_sound a b ha hb hco
  | false => exact (interPolygonPolygon_noncoplanar_exactW a b ha hb hco).sound
#print axioms interPolygonPolygon_sound

/-! ### ConvexPolygon × ConvexPolyhedron -/

/-- three vertices of `Q` are not collinear -/
def Polygon.Nondeg (Q : Polygon) : Prop :=
  ∃ u ∈ Q.pts, ∃ v ∈ Q.pts, ∃ w ∈ Q.pts, orient Q.plane.n u v w ≠ 0

/-- the cross-section polygon the handler `inter_plane_convexpolyhedron` builds for the plane `a` (when it
    returns a polygon) has three non-collinear vertices.  Always true for a Good body (`SectionNondeg_holds`):
    the section is a face (Valid) or `ConvexPolygon(hit points)`, and every constructed polygon keeps three
    non-collinear points (`Polygon.mk?_nondeg`).  NOTHING is assumed about the order of the section's vertices. -/
def SectionNondeg (B : Polyhedron) (a : Plane) : Prop :=
  ∀ Q, interPlanePolyhedron a B = .ok (some (.polygon Q)) → Q.Nondeg

/-- a polygon returned by `inter_plane_convexpolyhedron` is a face of the body or `ConvexPolygon(hit points)` -/
theorem interPlanePolyhedron_polygon_cases (a : Plane) (B : Polyhedron) (Q : Polygon)
    (hQ : interPlanePolyhedron a B = .ok (some (.polygon Q))) :
    Q ∈ B.faces ∨ ∃ ps, Polygon.mk? ps = .ok Q := by
  unfold interPlanePolyhedron at hQ
  split at hQ
  · rename_i f hfind
    cases hQ
    exact Or.inl (List.mem_of_find?_eq_some hfind)
  · split at hQ
    · cases hQ
    · cases hQ
    · cases hQ
    · rename_i p q _
      by_cases hpq : p = q
      · rw [if_pos hpq] at hQ; simp [liftC, bind, Except.bind] at hQ
      · rw [if_neg hpq] at hQ; simp [liftC, bind, Except.bind, seg?] at hQ
    · rename_i ps _ _ _ _
      cases hm : Polygon.mk? ps with
      | error e => rw [hm] at hQ; simp [liftC, bind, Except.bind] at hQ
      | ok R =>
        rw [hm] at hQ
        simp only [liftC, bind, Except.bind, pure, Except.pure] at hQ
        cases hQ
        exact Or.inr ⟨ps, hm⟩

/-- the vertices of a polygon returned by `inter_plane_convexpolyhedron` lie in its stored plane -/
theorem interPlanePolyhedron_polygon_coplanar (a : Plane) (B : Polyhedron) (hg : B.Good) (Q : Polygon)
    (hQ : interPlanePolyhedron a B = .ok (some (.polygon Q))) : ∀ p ∈ Q.pts, Q.plane.contains p = true := by
  rcases interPlanePolyhedron_polygon_cases a B Q hQ with hf | ⟨ps, hm⟩
  · exact (hg.faceValid Q hf).pts_in_plane
  · exact (Polygon.mk?_ok ps false Q hm).2.2.2.1

/-- **`SectionNondeg` always holds** for a Good body: a face is Valid, and every constructed polygon has
    three non-collinear vertices (`Polygon.mk?_nondeg`) -/
theorem SectionNondeg_holds (B : Polyhedron) (hg : B.Good) (a : Plane) : SectionNondeg B a := by
  intro Q hQ
  rcases interPlanePolyhedron_polygon_cases a B Q hQ with hf | ⟨ps, hm⟩
  · exact (hg.faceValid Q hf).nondeg
  · exact Polygon.mk?_nondeg ps false Q hm

theorem cross_cross_of_perp_bs {a u v : V3} (hu : dot a u = 0) (hv : dot a v = 0) :
    cross a (cross u v) = zero := by
  simp only [dot] at hu hv
  apply V3.ext' <;> simp only [cross, zero]
  · linear_combination u.x * hv - v.x * hu
  · linear_combination u.y * hv - v.y * hu
  · linear_combination u.z * hv - v.z * hu

/-- two planes through three non-collinear points have parallel normals -/
theorem parallel_normals_of_three (q r : Plane) {p0 p1 p2 : V3}
    (hw : cross (sub p1 p0) (sub p2 p0) ≠ zero)
    (q0 : q.den p0) (q1 : q.den p1) (q2 : q.den p2) (r0 : r.den p0) (r1 : r.den p1) (r2 : r.den p2) :
    V3.parallel q.n r.n = true := by
  have perp : ∀ (s : Plane), s.den p0 → s.den p1 → s.den p2 →
      cross s.n (cross (sub p1 p0) (sub p2 p0)) = zero := by
    intro s h0 h1 h2
    apply cross_cross_of_perp_bs
    · simp only [Plane.den, dot, sub] at h0 h1 ⊢; linear_combination h1 - h0
    · simp only [Plane.den, dot, sub] at h0 h2 ⊢; linear_combination h2 - h0
  have ea := exists_smul_of_cross_zero hw (perp q q0 q1 q2)
  have eb := exists_smul_of_cross_zero hw (perp r r0 r1 r2)
  rw [parallel_iff_cross, ea, eb]
  apply V3.ext' <;> simp only [cross, smul, zero] <;> ring

/-- version with the non-degeneracy of the plane section as an explicit hypothesis (`SectionNondeg`, which
    `SectionNondeg_holds` discharges).  No assumption on the order of the section's vertices:
    `Polygon.contains_sub_hull` covers arbitrary closed chains. -/
theorem interPolygonPolyhedron_sound_of_section (B : Polyhedron) (hg : B.Good) (P : Polygon) (hP : P.Valid)
    (hsec : SectionNondeg B P.plane) :
    Sound (interPolygonPolyhedron B P) (BodyDen B) (InHull P.pts) := by
  have hpl := interPlanePolyhedron_sound P.plane (Polygon.plane_WF P hP) B hg
  unfold interPolygonPolyhedron
  split
  · exact Sound.none
  · rename_i q hq
    obtain ⟨_, hv⟩ := hpl _ hq
    have hqB := (hv q (by simp [resVerts])).2
    unfold interPointPolygon
    by_cases hc : P.contains q = true
    · rw [if_pos hc]; exact Sound.pt hqB ((Polygon.contains_iff P hP q).mp hc)
    · rw [if_neg hc]; exact Sound.none
  · rename_i s hs
    obtain ⟨hsW, hv⟩ := hpl _ hs
    have ha := (hv s.a (by simp [resVerts])).2
    have hb := (hv s.b (by simp [resVerts])).2
    exact (interSegPolygon_exactW s hsW P hP).sound.mono
      (fun x hx _ => Polyhedron.contains_seg B s ha hb x hx) (fun _ _ h => h)
  · rename_i Q hQ
    obtain ⟨_, hv⟩ := hpl _ hQ
    have hv' : ∀ v ∈ Q.pts, P.plane.den v ∧ BodyDen B v := hv
    have hQpl := interPlanePolyhedron_polygon_coplanar P.plane B hg Q hQ
    have hnd := hsec Q hQ
    -- the section's membership test implies membership in the body
    have hsub : ∀ x, Q.contains x = true → B.contains x = true := fun x hx =>
      Polyhedron.contains_of_hull B Q.pts (fun v hm => (hv' v hm).2) x
        (Polygon.contains_sub_hull Q hQpl hnd x hx)
    -- the stored plane of the section is parallel to the plane of `P`
    have hpar : V3.parallel Q.plane.n P.plane.n = true := by
      obtain ⟨u, hu, v, hvv, w, hw, hne⟩ := hnd
      refine parallel_normals_of_three Q.plane P.plane (p0 := u) (p1 := v) (p2 := w) ?_
        ((Plane.contains_iff _ _).mp (hQpl u hu)) ((Plane.contains_iff _ _).mp (hQpl v hvv))
        ((Plane.contains_iff _ _).mp (hQpl w hw)) (hv' u hu).1 (hv' v hvv).1 (hv' w hw).1
      intro hz
      apply hne
      unfold orient; rw [hz]; simp [dot, zero]
    by_cases heq : Q.plane.eqv P.plane = true
    · have hpp : interPlanePlane Q.plane P.plane = .ok (some (.plane Q.plane)) := by
        unfold interPlanePlane; rw [if_pos heq]
      exact interPolygonPolygon_coplanar_branch_sound Q P (BodyDen B) (InHull P.pts)
        (fun v hm => (hv' v hm).2) (vertex_in_hull _)
        (fun _ _ _ hu hw hx => Polyhedron.contains_between B hu hw hx)
        (fun _ _ _ hu hw hx => InHull.between hu hw hx)
        (fun x _ h => hsub x h) (fun x _ h => (Polygon.contains_iff P hP x).mp h) Q.plane hpp
    · have hpp : interPlanePlane Q.plane P.plane = .ok none := by
        unfold interPlanePlane; rw [if_neg heq, if_pos hpar]
      have : interPolygonPolygon Q P = .ok none := by
        unfold interPolygonPolygon; rw [hpp]
      rw [this]; exact Sound.none
  · exact Sound.error _
  · exact Sound.error _

/-- **ConvexPolygon × ConvexPolyhedron**: every vertex / end point of the result lies in the body (passes its
    membership test) and in the hull of the polygon's vertices.  Hypotheses: `B.Good`, `P.Valid` only. -/
theorem interPolygonPolyhedron_sound (B : Polyhedron) (hg : B.Good) (P : Polygon) (hP : P.Valid) :
    Sound (interPolygonPolyhedron B P) (BodyDen B) (InHull P.pts) :=
  interPolygonPolyhedron_sound_of_section B hg P hP (SectionNondeg_holds B hg P.plane)
#print axioms interPolygonPolyhedron_sound

/-! ### none / error propagation (early exits) -/
theorem interPolygonPolyhedron_none_of_plane (B : Polyhedron) (P : Polygon)
    (h : interPlanePolyhedron P.plane B = .ok none) : interPolygonPolyhedron B P = .ok none := by
  unfold interPolygonPolyhedron; rw [h]

theorem interPolygonPolyhedron_error_of_plane (B : Polyhedron) (P : Polygon) (e : BErr)
    (h : interPlanePolyhedron P.plane B = .error e) : interPolygonPolyhedron B P = .error e := by
  unfold interPolygonPolyhedron; rw [h]

theorem interPolygonPolyhedron_point_of_plane (B : Polyhedron) (P : Polygon) (q : V3)
    (h : interPlanePolyhedron P.plane B = .ok (some (.flat (.point q)))) :
    interPolygonPolyhedron B P = interPointPolygon q P := by
  unfold interPolygonPolyhedron; rw [h]

theorem interPolygonPolyhedron_seg_of_plane (B : Polyhedron) (P : Polygon) (s : Seg)
    (h : interPlanePolyhedron P.plane B = .ok (some (.flat (.seg s)))) :
    interPolygonPolyhedron B P = interSegPolygon s P := by
  unfold interPolygonPolyhedron; rw [h]

theorem interPolygonPolyhedron_polygon_of_plane (B : Polyhedron) (P Q : Polygon)
    (h : interPlanePolyhedron P.plane B = .ok (some (.polygon Q))) :
    interPolygonPolyhedron B P = interPolygonPolygon Q P := by
  unfold interPolygonPolyhedron; rw [h]

theorem interPlanePolygon_none_of_plane (a : Plane) (P : Polygon)
    (h : interPlanePlane a P.plane = .ok none) : interPlanePolygon a P = .ok none := by
  unfold interPlanePolygon; rw [h]

theorem interLinePolygon_none_of_plane (l : Line) (P : Polygon)
    (h : interLinePlane l P.plane = .ok none) : interLinePolygon l P = .ok none := by
  unfold interLinePolygon; rw [h]

theorem interPolygonPolygon_none_of_plane (a b : Polygon)
    (h : interPlanePlane a.plane b.plane = .ok none) : interPolygonPolygon a b = .ok none := by
  unfold interPolygonPolygon; rw [h]

theorem clipFaces_none (X : Polyhedron) : ∀ (fs : List Polygon) (acc : Parts),
    (∀ f ∈ fs, interPolygonPolyhedron X f = .ok none) → clipFaces X fs acc = .ok acc := by
  intro fs
  induction fs with
  | nil => intro acc _; rfl
  | cons f fs ih =>
    intro acc h
    rw [clipFaces, h f (by simp)]
    exact ih acc (fun f' hf' => h f' (by simp [hf']))

/-- if no face of either body meets the other body, the result is `None` -/
theorem interPolyhedronPolyhedron_none (A B : Polyhedron)
    (hA : ∀ f ∈ A.faces, interPolygonPolyhedron B f = .ok none)
    (hB : ∀ f ∈ B.faces, interPolygonPolyhedron A f = .ok none) :
    interPolyhedronPolyhedron A B = .ok none := by
  unfold interPolyhedronPolyhedron
  rw [clipFaces_none B A.faces {} hA]
  simp only [bind, Except.bind]
  rw [clipFaces_none A B.faces {} hB]
  rfl

theorem interLinePolyhedron_loop_none (l : Line) : ∀ (fs : List Polygon),
    (∀ f ∈ fs, interLinePolygon l f = .ok none) → interLinePolyhedron.loop l fs [] = .ok none := by
  intro fs
  induction fs with
  | nil => intro _; rfl
  | cons f fs ih =>
    intro h
    rw [interLinePolyhedron.loop, h f (by simp)]
    exact ih (fun f' hf' => h f' (by simp [hf']))

/-- a line that misses every face misses the body -/
theorem interLinePolyhedron_none (l : Line) (B : Polyhedron)
    (h : ∀ f ∈ B.faces, interLinePolygon l f = .ok none) : interLinePolyhedron l B = .ok none :=
  interLinePolyhedron_loop_none l B.faces h

/-! ### ConvexPolyhedron × ConvexPolyhedron -/
theorem BS.mem_addSeg (l : List Seg) (s x : Seg) (h : x ∈ addSeg l s) : x ∈ l ∨ x = s := by
  unfold addSeg at h
  split at h
  · exact Or.inl h
  · simpa using h

theorem BS.mem_addPolygon (l : List Polygon) (P x : Polygon) (h : x ∈ addPolygon l P) : x ∈ l ∨ x = P := by
  unfold addPolygon at h
  split at h
  · exact Or.inl h
  · simpa using h

/-- every vertex / end point recorded in the parts satisfies `Q`; recorded segments are well formed -/
def Parts.All (Q : V3 → Prop) (p : Parts) : Prop :=
  (∀ g ∈ p.gons, ∀ v ∈ g.pts, Q v) ∧ (∀ s ∈ p.segs, s.WF ∧ Q s.a ∧ Q s.b) ∧ (∀ v ∈ p.pts, Q v)

theorem clipFaces_inv (X : Polyhedron) (Q : V3 → Prop) : ∀ (fs : List Polygon) (acc out : Parts),
    (∀ f ∈ fs, Sound (interPolygonPolyhedron X f) Q Q) → acc.All Q → clipFaces X fs acc = .ok out → out.All Q := by
  intro fs
  induction fs with
  | nil => intro acc out _ hacc h; simp only [clipFaces] at h; cases h; exact hacc
  | cons f fs ih =>
    intro acc out hf hacc h
    have hf' : ∀ f' ∈ fs, Sound (interPolygonPolyhedron X f') Q Q := fun f' hm => hf f' (by simp [hm])
    have hs := hf f (by simp)
    obtain ⟨hg, hsg, hp⟩ := hacc
    unfold clipFaces at h
    split at h
    · exact ih acc out hf' ⟨hg, hsg, hp⟩ h
    · rename_i q hq
      obtain ⟨_, hv⟩ := hs _ hq
      refine ih { acc with pts := addNew acc.pts q } out hf' ⟨hg, hsg, ?_⟩ h
      exact BS.all_addNew hp (hv q (by simp [resVerts])).1
    · rename_i s hq
      obtain ⟨hw, hv⟩ := hs _ hq
      refine ih { acc with segs := addSeg acc.segs s } out hf' ⟨hg, ?_, hp⟩ h
      intro x hx
      rcases BS.mem_addSeg _ _ _ hx with hx | rfl
      · exact hsg x hx
      · exact ⟨hw, (hv x.a (by simp [resVerts])).1, (hv x.b (by simp [resVerts])).1⟩
    · rename_i R hq
      obtain ⟨_, hv⟩ := hs _ hq
      refine ih { acc with gons := addPolygon acc.gons R } out hf' ⟨?_, hsg, hp⟩ h
      intro x hx
      rcases BS.mem_addPolygon _ _ _ hx with hx | rfl
      · exact hg x hx
      · exact fun v hm => (hv v hm).1
    · exact ih acc out hf' ⟨hg, hsg, hp⟩ h
    · cases h

theorem BS.mem_foldl_addPt : ∀ (l acc : List V3) (v : V3), v ∈ l.foldl addPt acc → v ∈ acc ∨ v ∈ l := by
  intro l
  induction l with
  | nil => intro acc v h; exact Or.inl h
  | cons x l ih =>
    intro acc v h
    rw [List.foldl_cons] at h
    rcases ih _ v h with h' | h'
    · unfold addPt at h'
      split at h'
      · exact Or.inl h'
      · rcases List.mem_append.mp h' with h'' | h''
        · exact Or.inl h''
        · simp at h''; exact Or.inr (by simp [h''])
    · exact Or.inr (by simp [h'])

/-- `ConvexPolyhedron(polygons)` only regroups vertices: every vertex is a vertex of an input polygon -/
theorem BS.mem_collectVerts (input : List Polygon) (v : V3) (h : v ∈ collectVerts input) :
    ∃ f ∈ input, v ∈ f.pts := by
  unfold collectVerts at h
  have gen : ∀ (l : List Polygon) (acc : List V3),
      v ∈ l.foldl (fun acc f => f.pts.foldl addPt acc) acc → v ∈ acc ∨ ∃ f ∈ l, v ∈ f.pts := by
    intro l
    induction l with
    | nil => intro acc h; exact Or.inl h
    | cons f l ih =>
      intro acc h
      rw [List.foldl_cons] at h
      rcases ih _ h with h' | ⟨g, hg, hv⟩
      · rcases BS.mem_foldl_addPt _ _ _ h' with h'' | h''
        · exact Or.inl h''
        · exact Or.inr ⟨f, by simp, h''⟩
      · exact Or.inr ⟨g, by simp [hg], hv⟩
  rcases gen input [] h with h' | h'
  · simp at h'
  · exact h'

/-- **ConvexPolyhedron × ConvexPolyhedron**: every vertex / end point of the result passes the membership
    tests of both bodies.  Hypotheses: `A.Good`, `B.Good` only. -/
theorem interPolyhedronPolyhedron_sound (A B : Polyhedron) (hA : A.Good) (hB : B.Good) :
    Sound (interPolyhedronPolyhedron A B) (BodyDen A) (BodyDen B) := by
  have h1 : ∀ f ∈ A.faces, Sound (interPolygonPolyhedron B f)
      (fun v => BodyDen A v ∧ BodyDen B v) (fun v => BodyDen A v ∧ BodyDen B v) := by
    intro f hf
    exact (interPolygonPolyhedron_sound B hB f (hA.faceValid f hf)).mono
      (fun x hb hh => ⟨hA.face_sub f hf x hh, hb⟩) (fun x hb hh => ⟨hA.face_sub f hf x hh, hb⟩)
  have h2 : ∀ f ∈ B.faces, Sound (interPolygonPolyhedron A f)
      (fun v => BodyDen A v ∧ BodyDen B v) (fun v => BodyDen A v ∧ BodyDen B v) := by
    intro f hf
    exact (interPolygonPolyhedron_sound A hA f (hB.faceValid f hf)).mono
      (fun x ha hh => ⟨ha, hB.face_sub f hf x hh⟩) (fun x ha hh => ⟨ha, hB.face_sub f hf x hh⟩)
  unfold interPolyhedronPolyhedron
  refine Sound.bind _ _ (fun p1 hp1 => ?_)
  refine Sound.bind _ _ (fun p2 hp2 => ?_)
  have hall1 : p1.All (fun v => BodyDen A v ∧ BodyDen B v) :=
    clipFaces_inv B _ A.faces {} p1 h1 ⟨by simp, by simp, by simp⟩ hp1
  obtain ⟨hg, hsg, hp⟩ : p2.All (fun v => BodyDen A v ∧ BodyDen B v) :=
    clipFaces_inv A _ B.faces p1 p2 h2 hall1 hp2
  split
  · refine Sound.bind _ _ (fun R hR => ?_)
    obtain ⟨_, _, ⟨_, hverts, _⟩, _⟩ := Polyhedron.mk?_ok p2.gons R (BS.liftC_ok hR)
    apply Sound.polyhedron
    intro v hv
    rw [hverts] at hv
    obtain ⟨f, hf, hvf⟩ := BS.mem_collectVerts _ v hv
    exact hg f hf v hvf
  · rename_i Q hQ
    exact Sound.polygon (fun v hv => hg Q (by rw [hQ]; simp) v hv)
  · exact Sound.error _
  · rename_i s _ hs
    have := hsg s (by rw [hs]; simp)
    exact Sound.seg this.1 this.2.1 this.2.2
  · exact Sound.error _
  · rename_i p _ _ hpp
    have := hp p (by rw [hpp]; simp)
    exact Sound.pt this.1 this.2
  · exact Sound.none
#print axioms interPolyhedronPolyhedron_sound

end G3D
