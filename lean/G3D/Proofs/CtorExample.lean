import G3D.Proofs.CtorQueries
import G3D.Proofs.MovePolyhedron

/-! Non-vacuity of the hypotheses of `Polyhedron.mk?_reoriented` / `Polyhedron.move_valid_ok`: the unit cube. -/
namespace G3D
open V3

theorem unitCube_valid : unitCube.Valid := unitCube.valid_of_validB unitCube_validB.1

/-- Euler's formula for the unit cube in the constructor's counting: 8 − 12 + 6 = 2 -/
theorem unitCube_euler :
    ((collectVerts unitCube.faces).length : Int) - (edgesOf unitCube.faces []).length + unitCube.faces.length = 2 := by
  decide +kernel

/-- every reordered, arbitrarily re-oriented face list of the unit cube is accepted by the constructor; the result
    is valid, has the cube's membership test and its faces are outward copies of the cube's faces -/
theorem unitCube_reoriented (F input : List Polygon) (hperm : List.Perm F unitCube.faces)
    (hrel : List.Forall₂ Reoriented F input) :
    ∃ B, Polyhedron.mk? input = .ok B ∧ B.Valid ∧ List.Forall₂ OutwardCopy F B.faces ∧
      (∀ x, B.contains x = unitCube.contains x) := by
  obtain ⟨B, hB, _⟩ := Polyhedron.mk?_reoriented unitCube unitCube_valid F input hperm hrel unitCube_euler
  obtain ⟨hV, _, _, hcop, hcon, _⟩ :=
    Polyhedron.mk?_reoriented_queries unitCube unitCube_valid F input hperm hrel B hB
  exact ⟨B, hB, hV, hcop, hcon⟩

/-- `move` never raises on the unit cube, and the result is the valid translate -/
theorem unitCube_move (v : V3) :
    unitCube.move v = .ok (unitCube.moved v, unitCube.moved v) ∧ (unitCube.moved v).Valid ∧
    ∀ x, (unitCube.moved v).contains (add x v) = unitCube.contains x :=
  ⟨unitCube.move_valid_ok unitCube_valid unitCube_euler v, (unitCube.moved_valid unitCube_valid v).1,
    (unitCube.moved_valid unitCube_valid v).2.1⟩
#print axioms unitCube_reoriented
#print axioms unitCube_move
end G3D
