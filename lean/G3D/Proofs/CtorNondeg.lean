import G3D.Proofs.ChainHull
import G3D.Proofs.Construct

/-! # Every constructed ConvexPolygon has three non-collinear vertices

    `ConvexPolygon(points)` checks that the first three distinct input points are not collinear, but its
    angular sort about the centroid keeps only ONE point per direction (`angle_point_dict[angle] = point`).
    Here: three of the points it keeps are still not collinear.  With `Polygon.contains_sub_hull`
    (ChainHull.lean) this gives `P.contains x → InHull P.pts x` for EVERY successfully constructed polygon,
    with no hypothesis on the input (no convexity, no assumption that the sort is right). -/
namespace G3D
open V3

/-! ### the equivalence "same angle" on sort keys -/
def AngSame (k k' : Rat × Rat) : Prop :=
  (k.2 = 0 ∧ k'.2 = 0 ∧ ((0 ≤ k.1 ∧ 0 ≤ k'.1) ∨ (k.1 < 0 ∧ k'.1 < 0))) ∨
  (k.1 * k'.2 - k.2 * k'.1 = 0 ∧ ((0 < k.2 ∧ 0 < k'.2) ∨ (k.2 < 0 ∧ k'.2 < 0)))

theorem angEq_iff_bs (k k' : Rat × Rat) : angEq k k' = true ↔ AngSame k k' := by
  obtain ⟨y, z⟩ := k; obtain ⟨y', z'⟩ := k'
  unfold AngSame
  simp only [angEq, angCls]
  by_cases hz : z = 0 <;> by_cases hz' : z' = 0
  · subst hz; subst hz'
    by_cases hy : 0 ≤ y <;> by_cases hy' : 0 ≤ y' <;> simp [hy, hy']; constructor <;> linarith
  · subst hz
    by_cases hy : 0 ≤ y <;> by_cases hp' : 0 < z' <;> simp [hy, hz', hp']
  · subst hz'
    by_cases hy' : 0 ≤ y' <;> by_cases hp : 0 < z <;> simp [hy', hz, hp]
  · by_cases hp : 0 < z <;> by_cases hp' : 0 < z' <;> simp [hz, hz', hp, hp'] <;>
      (intros; first
        | linarith
        | exact ⟨lt_of_le_of_ne (not_lt.mp hp) hz, lt_of_le_of_ne (not_lt.mp hp') hz'⟩)

theorem AngSame.refl (k : Rat × Rat) : AngSame k k := by
  unfold AngSame
  by_cases hz : k.2 = 0
  · left
    refine ⟨hz, hz, ?_⟩
    rcases le_or_gt 0 k.1 with h | h
    · exact Or.inl ⟨h, h⟩
    · exact Or.inr ⟨h, h⟩
  · right
    refine ⟨by ring, ?_⟩
    rcases lt_or_gt_of_ne hz with h | h
    · exact Or.inr ⟨h, h⟩
    · exact Or.inl ⟨h, h⟩

/-- two keys with the same angle as a third one have the same angle -/
theorem AngSame.common {k k' k'' : Rat × Rat} (h1 : AngSame k k') (h2 : AngSame k'' k') : AngSame k k'' := by
  unfold AngSame at *
  rcases h1 with ⟨a1, a2, a3⟩ | ⟨a1, a2⟩ <;> rcases h2 with ⟨b1, b2, b3⟩ | ⟨b1, b2⟩
  · left
    refine ⟨a1, b1, ?_⟩
    rcases a3 with ⟨c1, c2⟩ | ⟨c1, c2⟩ <;> rcases b3 with ⟨d1, d2⟩ | ⟨d1, d2⟩
    · exact Or.inl ⟨c1, d1⟩
    · exact absurd c2 (not_le.mpr d2)
    · exact absurd d2 (not_le.mpr c2)
    · exact Or.inr ⟨c1, d1⟩
  · exfalso; rcases b2 with ⟨_, c⟩ | ⟨_, c⟩ <;> rw [a2] at c <;> exact lt_irrefl _ c
  · exfalso; rcases a2 with ⟨_, c⟩ | ⟨_, c⟩ <;> rw [b2] at c <;> exact lt_irrefl _ c
  · right
    have hz' : k'.2 ≠ 0 := by rcases a2 with ⟨_, c⟩ | ⟨_, c⟩ <;> [exact ne_of_gt c; exact ne_of_lt c]
    constructor
    · have : k'.2 * (k.1 * k''.2 - k.2 * k''.1) = 0 := by linear_combination k''.2 * a1 - k.2 * b1
      rcases mul_eq_zero.mp this with h | h
      · exact absurd h hz'
      · exact h
    · rcases a2 with ⟨c1, c2⟩ | ⟨c1, c2⟩ <;> rcases b2 with ⟨d1, d2⟩ | ⟨d1, d2⟩
      · exact Or.inl ⟨c1, d1⟩
      · exact absurd c2 (not_lt.mpr (le_of_lt d2))
      · exact absurd d2 (not_lt.mpr (le_of_lt c2))
      · exact Or.inr ⟨c1, d1⟩

/-- a linear functional takes values of the same (weak) sign on two keys of the same angle -/
theorem AngSame.sign {k k' : Rat × Rat} (h : AngSame k k') (α β : Rat) :
    0 ≤ (α * k.1 + β * k.2) * (α * k'.1 + β * k'.2) := by
  rcases h with ⟨a1, a2, a3⟩ | ⟨a1, a2⟩
  · rw [a1, a2]
    have : (α * k.1 + β * 0) * (α * k'.1 + β * 0) = α ^ 2 * (k.1 * k'.1) := by ring
    rw [this]
    have hyy : 0 ≤ k.1 * k'.1 := by
      rcases a3 with ⟨c1, c2⟩ | ⟨c1, c2⟩
      · exact mul_nonneg c1 c2
      · exact le_of_lt (mul_pos_of_neg_of_neg c1 c2)
    exact mul_nonneg (sq_nonneg _) hyy
  · have e : k'.2 * (α * k.1 + β * k.2) = k.2 * (α * k'.1 + β * k'.2) := by linear_combination α * a1
    have hzz : 0 < k.2 * k'.2 := by
      rcases a2 with ⟨c1, c2⟩ | ⟨c1, c2⟩
      · exact mul_pos c1 c2
      · exact mul_pos_of_neg_of_neg c1 c2
    have hz'2 : 0 < k'.2 ^ 2 := by
      rcases a2 with ⟨_, c2⟩ | ⟨_, c2⟩ <;> nlinarith
    have : k'.2 ^ 2 * ((α * k.1 + β * k.2) * (α * k'.1 + β * k'.2)) =
        (k.2 * k'.2) * (α * k'.1 + β * k'.2) ^ 2 := by
      linear_combination (k'.2 * (α * k'.1 + β * k'.2)) * e
    have hnn : 0 ≤ k'.2 ^ 2 * ((α * k.1 + β * k.2) * (α * k'.1 + β * k'.2)) := by
      rw [this]; exact mul_nonneg (le_of_lt hzz) (sq_nonneg _)
    by_contra hneg
    have hneg' := not_le.mp hneg
    nlinarith

/-- if the functional vanishes on `k'` it vanishes on every key of the same angle, except possibly for keys
    of angle 0 (`z = 0`, `y ≥ 0`: the code's class of the zero vector) -/
theorem AngSame.zero {k k' : Rat × Rat} (h : AngSame k k') (α β : Rat) (h0 : α * k'.1 + β * k'.2 = 0)
    (hc : k.2 ≠ 0 ∨ k.1 < 0) : α * k.1 + β * k.2 = 0 := by
  rcases h with ⟨a1, a2, a3⟩ | ⟨a1, a2⟩
  · rcases hc with hc | hc
    · exact absurd a1 hc
    · rcases a3 with ⟨c1, _⟩ | ⟨_, c2⟩
      · exact absurd c1 (not_le.mpr hc)
      · rw [a2] at h0
        have hα : α = 0 := by
          have : α * k'.1 = 0 := by linarith
          rcases mul_eq_zero.mp this with h | h
          · exact h
          · exact absurd h (ne_of_lt c2)
        rw [a1, hα]; ring
  · have e : k'.2 * (α * k.1 + β * k.2) = k.2 * (α * k'.1 + β * k'.2) := by linear_combination α * a1
    rw [h0, mul_zero] at e
    have hz' : k'.2 ≠ 0 := by rcases a2 with ⟨_, c⟩ | ⟨_, c⟩ <;> [exact ne_of_gt c; exact ne_of_lt c]
    rcases mul_eq_zero.mp e with h | h
    · exact absurd h hz'
    · exact h

/-! ### sums over a list -/
theorem BS.sum_map_lin {ι : Type} (l : List ι) (f g : ι → Rat) (a b : Rat) :
    (l.map (fun p => a * f p + b * g p)).sum = a * (l.map f).sum + b * (l.map g).sum := by
  induction l with
  | nil => simp
  | cons x l ih => simp only [List.map_cons, List.sum_cons, ih]; ring

theorem BS.all_zero_of_map_nonneg {ι : Type} (l : List ι) (f : ι → Rat) (hnn : ∀ p ∈ l, 0 ≤ f p)
    (hs : (l.map f).sum = 0) : ∀ p ∈ l, f p = 0 := by
  intro p hp
  refine all_zero_of_nonneg_sum_zero (l.map f) ?_ hs (f p) (List.mem_map.mpr ⟨p, hp, rfl⟩)
  intro x hx
  obtain ⟨q, hq, rfl⟩ := List.mem_map.mp hx
  exact hnn q hq

/-! ### the 2-dimensional core -/
/-- `ded`: the points, with keys `k` summing to zero, one of them (`p0`) on the positive y-axis;
    `S ⊆ ded`: the kept points, one for every angle that occurs.  If a linear functional `(α, β)` is constant
    on the kept points then `α = 0` and `β z = 0` for every point. -/
theorem keys_line_lemma {ι : Type} (ded S : List ι) (k : ι → Rat × Rat)
    (hy : (ded.map (fun p => (k p).1)).sum = 0) (hz : (ded.map (fun p => (k p).2)).sum = 0)
    (p0 : ι) (hp0 : p0 ∈ ded) (hp0z : (k p0).2 = 0) (hp0y : 0 < (k p0).1)
    (hS : ∀ s ∈ S, s ∈ ded) (hrep : ∀ p ∈ ded, ∃ s ∈ S, AngSame (k p) (k s))
    (α β γ : Rat) (hL : ∀ s ∈ S, α * (k s).1 + β * (k s).2 = γ) :
    α = 0 ∧ ∀ p ∈ ded, β * (k p).2 = 0 := by
  have hsum : ∀ c : Rat, (ded.map (fun p => c * (α * (k p).1 + β * (k p).2))).sum = 0 := by
    intro c
    have : (fun p => c * (α * (k p).1 + β * (k p).2)) = fun p => (c * α) * (k p).1 + (c * β) * (k p).2 := by
      funext p; ring
    rw [this, BS.sum_map_lin, hy, hz]; ring
  -- step 1: γ = 0
  have h1 : ∀ p ∈ ded, γ * (α * (k p).1 + β * (k p).2) = 0 := by
    apply BS.all_zero_of_map_nonneg ded _ _ (hsum γ)
    intro p hp
    obtain ⟨s, hs, hps⟩ := hrep p hp
    have := hps.sign α β
    rw [hL s hs] at this
    linarith
  obtain ⟨s0, hs0, _⟩ := hrep p0 hp0
  have hγ : γ = 0 := by
    have := h1 s0 (hS s0 hs0)
    rw [hL s0 hs0] at this
    exact mul_self_eq_zero.mp this
  -- step 2: the functional vanishes on every point that is not of angle 0
  have h2 : ∀ p ∈ ded, ((k p).2 ≠ 0 ∨ (k p).1 < 0) → α * (k p).1 + β * (k p).2 = 0 := by
    intro p hp hc
    obtain ⟨s, hs, hps⟩ := hrep p hp
    exact hps.zero α β (by rw [hL s hs, hγ]) hc
  have hcls0 : ∀ p ∈ ded, ¬ ((k p).2 ≠ 0 ∨ (k p).1 < 0) → (k p).2 = 0 ∧ 0 ≤ (k p).1 := by
    intro p _ hc
    push Not at hc
    exact ⟨hc.1, hc.2⟩
  have h3 : ∀ p ∈ ded, α * (α * (k p).1 + β * (k p).2) = 0 := by
    apply BS.all_zero_of_map_nonneg ded _ _ (hsum α)
    intro p hp
    by_cases hc : (k p).2 ≠ 0 ∨ (k p).1 < 0
    · rw [h2 p hp hc]; simp
    · obtain ⟨e1, e2⟩ := hcls0 p hp hc
      rw [e1]
      have : α * (α * (k p).1 + β * 0) = α ^ 2 * (k p).1 := by ring
      rw [this]; exact mul_nonneg (sq_nonneg _) e2
  have hα : α = 0 := by
    have := h3 p0 hp0
    rw [hp0z] at this
    have e : α * (α * (k p0).1 + β * 0) = α ^ 2 * (k p0).1 := by ring
    rw [e] at this
    rcases mul_eq_zero.mp this with h | h
    · exact pow_eq_zero_iff (by norm_num) |>.mp h
    · exact absurd h (ne_of_gt hp0y)
  refine ⟨hα, fun p hp => ?_⟩
  by_cases hc : (k p).2 ≠ 0 ∨ (k p).1 < 0
  · have := h2 p hp hc
    rw [hα] at this; linarith
  · rw [(hcls0 p hp hc).1]; ring

/-- three of the kept points have affinely independent keys -/
theorem keys_nondeg {ι : Type} (ded S : List ι) (k : ι → Rat × Rat)
    (hy : (ded.map (fun p => (k p).1)).sum = 0) (hz : (ded.map (fun p => (k p).2)).sum = 0)
    (p0 : ι) (hp0 : p0 ∈ ded) (hp0z : (k p0).2 = 0) (hp0y : 0 < (k p0).1)
    (hS : ∀ s ∈ S, s ∈ ded) (hrep : ∀ p ∈ ded, ∃ s ∈ S, AngSame (k p) (k s))
    (q0 q1 q2 : ι) (hq0 : q0 ∈ ded) (hq1 : q1 ∈ ded) (hq2 : q2 ∈ ded)
    (hq : ((k q1).1 - (k q0).1) * ((k q2).2 - (k q0).2) - ((k q1).2 - (k q0).2) * ((k q2).1 - (k q0).1) ≠ 0) :
    ∃ s1 ∈ S, ∃ s2 ∈ S, ∃ s3 ∈ S,
      ((k s2).1 - (k s1).1) * ((k s3).2 - (k s1).2) - ((k s2).2 - (k s1).2) * ((k s3).1 - (k s1).1) ≠ 0 := by
  by_contra hcon
  push Not at hcon
  obtain ⟨a, ha, _⟩ := hrep p0 hp0
  have hzero : (∀ p ∈ ded, (k p).2 = 0) → False := by
    intro hall
    apply hq
    rw [hall q0 hq0, hall q1 hq1, hall q2 hq2]; ring
  by_cases hdist : ∃ b ∈ S, k b ≠ k a
  · obtain ⟨b, hb, hne⟩ := hdist
    have hL : ∀ s ∈ S, (-((k b).2 - (k a).2)) * (k s).1 + ((k b).1 - (k a).1) * (k s).2 =
        (-((k b).2 - (k a).2)) * (k a).1 + ((k b).1 - (k a).1) * (k a).2 := by
      intro s hs
      have := hcon a ha b hb s hs
      linarith
    obtain ⟨hα, hβ⟩ := keys_line_lemma ded S k hy hz p0 hp0 hp0z hp0y hS hrep _ _ _ hL
    have hdz : (k b).2 = (k a).2 := by linarith
    have hdy : (k b).1 - (k a).1 ≠ 0 := by
      intro h
      apply hne
      exact Prod.ext (by linarith) hdz
    apply hzero
    intro p hp
    rcases mul_eq_zero.mp (hβ p hp) with h | h
    · exact absurd h hdy
    · exact h
  · push Not at hdist
    have hL : ∀ s ∈ S, (1 : Rat) * (k s).1 + 0 * (k s).2 = (k a).1 := by
      intro s hs; rw [hdist s hs]; ring
    obtain ⟨hα, _⟩ := keys_line_lemma ded S k hy hz p0 hp0 hp0z hp0y hS hrep _ _ _ hL
    exact one_ne_zero hα
#print axioms keys_nondeg


/-! ### the angular insertion keeps one point per angle -/
theorem angInsert_new (k : Rat × Rat) (p : V3) : ∀ (l : List ((Rat × Rat) × V3)),
    ∃ e ∈ angInsert k p l, e.2 = p ∧ AngSame k e.1 := by
  intro l
  induction l with
  | nil => exact ⟨(k, p), by simp [angInsert], rfl, AngSame.refl k⟩
  | cons e rest ih =>
    obtain ⟨k', p'⟩ := e
    simp only [angInsert]
    by_cases h1 : angEq k k' = true
    · rw [if_pos h1]
      exact ⟨(k', p), by simp, rfl, (angEq_iff_bs k k').mp h1⟩
    · rw [if_neg h1]
      by_cases h2 : angLt k k' = true
      · rw [if_pos h2]
        exact ⟨(k, p), by simp, rfl, AngSame.refl k⟩
      · rw [if_neg h2]
        obtain ⟨e, he, h3, h4⟩ := ih
        exact ⟨e, by simp [he], h3, h4⟩

theorem angInsert_old (k : Rat × Rat) (p : V3) : ∀ (l : List ((Rat × Rat) × V3)), ∀ e ∈ l,
    ∃ e' ∈ angInsert k p l, e'.1 = e.1 ∧ (e'.2 = e.2 ∨ (e'.2 = p ∧ AngSame k e.1)) := by
  intro l
  induction l with
  | nil => intro e he; simp at he
  | cons e0 rest ih =>
    obtain ⟨k', p'⟩ := e0
    intro e he
    simp only [angInsert]
    by_cases h1 : angEq k k' = true
    · rw [if_pos h1]
      rcases List.mem_cons.mp he with rfl | he
      · exact ⟨(k', p), by simp, rfl, Or.inr ⟨rfl, (angEq_iff_bs k k').mp h1⟩⟩
      · exact ⟨e, by simp [he], rfl, Or.inl rfl⟩
    · rw [if_neg h1]
      by_cases h2 : angLt k k' = true
      · rw [if_pos h2]
        exact ⟨e, List.mem_cons_of_mem _ he, rfl, Or.inl rfl⟩
      · rw [if_neg h2]
        rcases List.mem_cons.mp he with rfl | he
        · exact ⟨(k', p'), by simp, rfl, Or.inl rfl⟩
        · obtain ⟨e', he', h3, h4⟩ := ih e he
          exact ⟨e', by simp [he'], h3, h4⟩

theorem angInsert_mem' (k : Rat × Rat) (p : V3) : ∀ (l : List ((Rat × Rat) × V3)), ∀ e' ∈ angInsert k p l,
    (e'.2 = p ∧ AngSame k e'.1) ∨ e' ∈ l := by
  intro l
  induction l with
  | nil =>
    intro e' he'
    simp only [angInsert, List.mem_singleton] at he'
    subst he'; exact Or.inl ⟨rfl, AngSame.refl k⟩
  | cons e0 rest ih =>
    obtain ⟨k', p'⟩ := e0
    intro e' he'
    simp only [angInsert] at he'
    by_cases h1 : angEq k k' = true
    · rw [if_pos h1] at he'
      rcases List.mem_cons.mp he' with rfl | he'
      · exact Or.inl ⟨rfl, (angEq_iff_bs k k').mp h1⟩
      · exact Or.inr (by simp [he'])
    · rw [if_neg h1] at he'
      by_cases h2 : angLt k k' = true
      · rw [if_pos h2] at he'
        rcases List.mem_cons.mp he' with rfl | he'
        · exact Or.inl ⟨rfl, AngSame.refl k⟩
        · exact Or.inr he'
      · rw [if_neg h2] at he'
        rcases List.mem_cons.mp he' with rfl | he'
        · exact Or.inr (by simp)
        · rcases ih e' he' with h | h
          · exact Or.inl h
          · exact Or.inr (by simp [h])

theorem foldl_angInsert_inv (key : V3 → Rat × Rat) : ∀ (ded : List V3) (acc : List ((Rat × Rat) × V3)) (ins : List V3),
    (∀ e ∈ acc, AngSame (key e.2) e.1) → (∀ q ∈ ins, ∃ e ∈ acc, AngSame (key q) e.1) →
    (∀ e ∈ ded.foldl (fun acc p => angInsert (key p) p acc) acc, AngSame (key e.2) e.1) ∧
    (∀ q, (q ∈ ins ∨ q ∈ ded) → ∃ e ∈ ded.foldl (fun acc p => angInsert (key p) p acc) acc, AngSame (key q) e.1) := by
  intro ded
  induction ded with
  | nil =>
    intro acc ins h1 h2
    refine ⟨h1, fun q hq => ?_⟩
    rcases hq with hq | hq
    · exact h2 q hq
    · simp at hq
  | cons d ds ih =>
    intro acc ins h1 h2
    rw [List.foldl_cons]
    have h1' : ∀ e ∈ angInsert (key d) d acc, AngSame (key e.2) e.1 := by
      intro e he
      rcases angInsert_mem' (key d) d acc e he with ⟨e1, e2⟩ | h
      · rw [e1]; exact e2
      · exact h1 e h
    have h2' : ∀ q ∈ d :: ins, ∃ e ∈ angInsert (key d) d acc, AngSame (key q) e.1 := by
      intro q hq
      rcases List.mem_cons.mp hq with rfl | hq
      · obtain ⟨e, he, _, h4⟩ := angInsert_new (key q) q acc
        exact ⟨e, he, h4⟩
      · obtain ⟨e, he, h3⟩ := h2 q hq
        obtain ⟨e', he', h4, _⟩ := angInsert_old (key d) d acc e he
        exact ⟨e', he', by rw [h4]; exact h3⟩
    obtain ⟨r1, r2⟩ := ih (angInsert (key d) d acc) (d :: ins) h1' h2'
    refine ⟨r1, fun q hq => r2 q ?_⟩
    rcases hq with hq | hq
    · exact Or.inl (by simp [hq])
    · rcases List.mem_cons.mp hq with rfl | hq
      · exact Or.inl (by simp)
      · exact Or.inr hq

/-- every input point has the same angle as one of the points the sort keeps -/
theorem foldl_angInsert_rep (key : V3 → Rat × Rat) (ded : List V3) :
    ∀ p ∈ ded, ∃ s ∈ (ded.foldl (fun acc p => angInsert (key p) p acc) []).map (·.2), AngSame (key p) (key s) := by
  obtain ⟨r1, r2⟩ := foldl_angInsert_inv key ded [] [] (by simp) (by simp)
  intro p hp
  obtain ⟨e, he, h⟩ := r2 p (Or.inr hp)
  exact ⟨e.2, List.mem_map.mpr ⟨e, he, rfl⟩, h.common (r1 e he)⟩

/-! ### from keys back to points -/
theorem BS.sum_sub_const (l : List V3) (c w : V3) :
    (l.map (fun p => dot (sub p c) w)).sum = dot w (vsum l) - (l.length : Rat) * dot w c := by
  induction l with
  | nil => simp [vsum_nil, dot, zero]
  | cons a l ih =>
    rw [List.map_cons, List.sum_cons, ih, vsum_cons]
    simp only [List.length_cons, Nat.cast_add, Nat.cast_one, dot, sub, add]
    ring

/-- deviations from the mean sum to zero -/
theorem BS.sum_sub_mean (l : List V3) (hl : l ≠ []) (w : V3) :
    (l.map (fun p => dot (sub p (meanV l)) w)).sum = 0 := by
  rw [BS.sum_sub_const]
  have hpos : (0 : Rat) < l.length := by
    have : 0 < l.length := List.length_pos_of_ne_nil hl
    exact_mod_cast this
  have : dot w (meanV l) = (1 / (l.length : Rat)) * dot w (vsum l) := by
    unfold meanV; rw [sumV_eq_vsum]; simp only [dot, smul]; ring
  rw [this]
  field_simp
  ring

theorem key_det_id (n v0 u v : V3) :
    dot u v0 * dot v (cross n v0) - dot u (cross n v0) * dot v v0 =
      normSq v0 * dot n (cross u v) - dot v0 n * dot (cross u v) v0 := by
  simp only [dot, cross, normSq]; ring

/-- the 2×2 determinant of key differences is `|v0|²` times the orientation -/
theorem key_det_orient (n c v0 a b d : V3) (h : dot v0 n = 0) :
    (dot (sub b c) v0 - dot (sub a c) v0) * (dot (sub d c) (cross n v0) - dot (sub a c) (cross n v0)) -
      (dot (sub b c) (cross n v0) - dot (sub a c) (cross n v0)) * (dot (sub d c) v0 - dot (sub a c) v0) =
      normSq v0 * orient n a b d := by
  have e : ∀ (x y w : V3), dot (sub x c) w - dot (sub y c) w = dot (sub x y) w := by
    intro x y w; simp only [dot, sub]; ring
  rw [e, e, e, e, key_det_id, h]
  unfold orient; ring

/-- **the points kept by the angular sort of `ConvexPolygon(points)` are not all collinear** -/
theorem sorted_nondeg (p0 p1 p2 : V3) (rest : List V3) (n c : V3)
    (hc : c = meanV (p0 :: p1 :: p2 :: rest))
    (hpl : ∀ p ∈ p0 :: p1 :: p2 :: rest, (⟨p0, n⟩ : Plane).contains p = true)
    (hnd : orient n p0 p1 p2 ≠ 0) (hv0 : sub p0 c ≠ zero) :
    ∃ u ∈ ((p0 :: p1 :: p2 :: rest).foldl (fun acc p =>
        angInsert (dot (sub p c) (sub p0 c), dot (sub p c) (cross n (sub p0 c))) p acc) []).map (·.2),
    ∃ v ∈ ((p0 :: p1 :: p2 :: rest).foldl (fun acc p =>
        angInsert (dot (sub p c) (sub p0 c), dot (sub p c) (cross n (sub p0 c))) p acc) []).map (·.2),
    ∃ w ∈ ((p0 :: p1 :: p2 :: rest).foldl (fun acc p =>
        angInsert (dot (sub p c) (sub p0 c), dot (sub p c) (cross n (sub p0 c))) p acc) []).map (·.2),
      orient n u v w ≠ 0 := by
  set ded := p0 :: p1 :: p2 :: rest with hded
  have hne : ded ≠ [] := by simp [hded]
  set key : V3 → Rat × Rat := fun p => (dot (sub p c) (sub p0 c), dot (sub p c) (cross n (sub p0 c))) with hkey
  set S := (ded.foldl (fun acc p => angInsert (key p) p acc) []).map (·.2) with hS
  have hy : (ded.map (fun p => (key p).1)).sum = 0 := by
    have h := BS.sum_sub_mean ded hne (sub p0 c)
    rw [← hc] at h
    exact h
  have hz : (ded.map (fun p => (key p).2)).sum = 0 := by
    have h := BS.sum_sub_mean ded hne (cross n (sub p0 c))
    rw [← hc] at h
    exact h
  -- the centroid lies in the plane
  have hv0n : dot (sub p0 c) n = 0 := by
    have hs := BS.sum_sub_mean ded hne n
    rw [← hc] at hs
    have hconst : ∀ p ∈ ded, dot (sub p c) n = dot (sub p0 c) n := by
      intro p hp
      have := hpl p hp
      simp only [Plane.contains, beq_iff_eq] at this
      simp only [dot, sub] at this ⊢
      linarith
    rw [List.map_congr_left hconst] at hs
    simp only [List.map_const', List.sum_replicate] at hs
    have hpos : (0 : Rat) < ded.length := by
      have : 0 < ded.length := List.length_pos_of_ne_nil hne
      exact_mod_cast this
    rcases mul_eq_zero.mp hs with h | h
    · exact absurd h (ne_of_gt hpos)
    · exact h
  have hp0 : p0 ∈ ded := by simp [hded]
  have hp0z : (key p0).2 = 0 := by
    simp only [hkey, dot, cross]; ring
  have hp0y : 0 < (key p0).1 := normSq_pos hv0
  have hSded : ∀ s ∈ S, s ∈ ded := by
    intro s hs
    rcases foldl_angInsert_mem key ded [] s hs with h | h
    · exact h
    · simp at h
  have hrep : ∀ p ∈ ded, ∃ s ∈ S, AngSame (key p) (key s) := foldl_angInsert_rep key ded
  have hq : ((key p1).1 - (key p0).1) * ((key p2).2 - (key p0).2) -
      ((key p1).2 - (key p0).2) * ((key p2).1 - (key p0).1) ≠ 0 := by
    have := key_det_orient n c (sub p0 c) p0 p1 p2 hv0n
    simp only [hkey]
    rw [this]
    exact mul_ne_zero (ne_of_gt (normSq_pos hv0)) hnd
  obtain ⟨s1, h1, s2, h2, s3, h3, hdet⟩ := keys_nondeg ded S key hy hz p0 hp0 hp0z hp0y hSded hrep
    p0 p1 p2 hp0 (by simp [hded]) (by simp [hded]) hq
  refine ⟨s1, h1, s2, h2, s3, h3, ?_⟩
  have := key_det_orient n c (sub p0 c) s1 s2 s3 hv0n
  simp only [hkey] at hdet
  rw [this] at hdet
  exact fun h => hdet (by rw [h]; ring)
#print axioms sorted_nondeg


/-- **every successfully constructed ConvexPolygon has three non-collinear vertices** (any input) -/
theorem Polygon.mk?_nondeg (input : List V3) (rev : Bool) (P : Polygon) (h : Polygon.mk? input rev = .ok P) :
    ∃ u ∈ P.pts, ∃ v ∈ P.pts, ∃ w ∈ P.pts, orient P.plane.n u v w ≠ 0 := by
  unfold Polygon.mk? at h
  simp only at h
  by_cases hlen : input.length < 3
  · rw [if_pos hlen] at h; cases h
  · rw [if_neg hlen] at h
    cases hded : dedupV input with
    | nil => rw [hded] at h; cases h
    | cons p0 r1 =>
      cases r1 with
      | nil => rw [hded] at h; cases h
      | cons p1 r2 =>
        cases r2 with
        | nil => rw [hded] at h; cases h
        | cons p2 rest =>
          rw [hded] at h
          simp only at h
          by_cases hn0 : cross (sub p1 p0) (sub p2 p0) = zero
          · rw [if_pos hn0] at h; cases h
          · rw [if_neg hn0] at h
            generalize hn : (if rev = true then neg (cross (sub p1 p0) (sub p2 p0)) else cross (sub p1 p0) (sub p2 p0)) = n at h
            have hnd : orient n p0 p1 p2 ≠ 0 := by
              have hpos := normSq_pos hn0
              rw [← hn]
              cases rev
              · simp only [Bool.false_eq_true, if_false]
                unfold orient
                exact ne_of_gt hpos
              · simp only [if_true]
                have : orient (neg (cross (sub p1 p0) (sub p2 p0))) p0 p1 p2 = - normSq (cross (sub p1 p0) (sub p2 p0)) := by
                  simp only [orient, normSq, dot, neg]; ring
                rw [this]
                exact ne_of_lt (by linarith)
            by_cases hv0 : sub p0 (meanV (p0 :: p1 :: p2 :: rest)) = zero
            · rw [if_pos hv0] at h; cases h
            · rw [if_neg hv0] at h
              by_cases hall : (!(p0 :: p1 :: p2 :: rest).all (⟨p0, n⟩ : Plane).contains) = true
              · rw [if_pos hall] at h; cases h
              · rw [if_neg hall] at h
                cases h
                have hall' : ∀ p ∈ p0 :: p1 :: p2 :: rest, (⟨p0, n⟩ : Plane).contains p = true := by
                  have : (p0 :: p1 :: p2 :: rest).all (⟨p0, n⟩ : Plane).contains = true := by
                    cases hh : (p0 :: p1 :: p2 :: rest).all (⟨p0, n⟩ : Plane).contains with
                    | true => rfl
                    | false => rw [hh] at hall; simp at hall
                  exact List.all_eq_true.mp this
                exact sorted_nondeg p0 p1 p2 rest n (meanV (p0 :: p1 :: p2 :: rest)) rfl hall' hnd hv0
#print axioms Polygon.mk?_nondeg

/-- **`__contains__` ⊆ hull for every successfully constructed ConvexPolygon**, whatever the input
    (in particular without assuming that the input points are in convex position or that the angular sort
    orders them correctly) -/
theorem Polygon.mk?_contains_sub_hull (input : List V3) (rev : Bool) (P : Polygon)
    (h : Polygon.mk? input rev = .ok P) (x : V3) (hx : P.contains x = true) : InHull P.pts x :=
  Polygon.contains_sub_hull P (Polygon.mk?_ok input rev P h).2.2.2.1 (Polygon.mk?_nondeg input rev P h) x hx
#print axioms Polygon.mk?_contains_sub_hull

end G3D
