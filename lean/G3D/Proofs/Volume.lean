import G3D.Proofs.Measure
import G3D.Proofs.Clip2
import Mathlib.Algebra.BigOperators.Group.List.Lemmas

/-! C06, volume: discrete divergence theorem for a closed polyhedral surface given by vertex cycles. -/
namespace G3D
open V3

/-- twice the vector area of a vertex cycle -/
def vecArea2 (l : List V3) : V3 := vsum ((closedPairs l).map (fun e => cross e.1 e.2))

def dirEdges (fs : List (List V3)) : List (V3 × V3) := fs.flatMap closedPairs

/-- every directed edge occurs as often as its reverse (each edge is shared by two faces with opposite
    orientation) -/
def ClosedSurface (fs : List (List V3)) : Prop := List.Perm (dirEdges fs) ((dirEdges fs).map Prod.swap)

theorem vsum_append (a b : List V3) : vsum (a ++ b) = add (vsum a) (vsum b) := by
  induction a with
  | nil => simp [vsum_nil]; apply V3.ext' <;> simp [add, zero]
  | cons x a ih => rw [List.cons_append, vsum_cons, vsum_cons, ih]; apply V3.ext' <;> simp only [add] <;> ring

theorem vsum_perm {a b : List V3} (h : List.Perm a b) : vsum a = vsum b := by
  apply V3.ext' <;> simp only [vsum]
  · exact (h.map V3.x).sum_eq
  · exact (h.map V3.y).sum_eq
  · exact (h.map V3.z).sum_eq

theorem vsum_map_neg (l : List V3) : vsum (l.map neg) = neg (vsum l) := by
  induction l with
  | nil => simp [vsum_nil]; apply V3.ext' <;> simp [neg, zero]
  | cons a l ih => rw [List.map_cons, vsum_cons, vsum_cons, ih]; apply V3.ext' <;> simp only [add, neg] <;> ring

theorem vsum_flatMap (fs : List (List V3)) (g : V3 × V3 → V3) :
    vsum ((dirEdges fs).map g) = vsum (fs.map (fun l => vsum ((closedPairs l).map g))) := by
  induction fs with
  | nil => simp [dirEdges, vsum_nil]
  | cons f fs ih =>
    simp only [dirEdges, List.flatMap_cons, List.map_append, List.map_cons] at ih ⊢
    rw [vsum_append, vsum_cons, ih]

/-- the vector areas of the faces of a closed surface sum to zero -/
theorem closed_vecArea_zero (fs : List (List V3)) (hc : ClosedSurface fs) : vsum (fs.map vecArea2) = zero := by
  have h1 : vsum (fs.map vecArea2) = vsum ((dirEdges fs).map (fun e => cross e.1 e.2)) :=
    (vsum_flatMap fs _).symm
  have h2 : vsum ((dirEdges fs).map (fun e => cross e.1 e.2)) =
      vsum (((dirEdges fs).map Prod.swap).map (fun e => cross e.1 e.2)) := vsum_perm (hc.map _)
  have h3 : ((dirEdges fs).map Prod.swap).map (fun e => cross e.1 e.2) =
      ((dirEdges fs).map (fun e => cross e.1 e.2)).map neg := by
    rw [List.map_map, List.map_map]
    apply List.map_congr_left
    intro e _
    simp only [Function.comp, Prod.swap]
    rw [cross_anticomm]
  rw [h3, vsum_map_neg] at h2
  rw [h1]
  set S := vsum ((dirEdges fs).map (fun e => cross e.1 e.2)) with hS
  have hx := congrArg V3.x h2; have hy := congrArg V3.y h2; have hz := congrArg V3.z h2
  simp only [neg] at hx hy hz
  apply V3.ext' <;> simp only [zero] <;> linarith

/-- six times the signed volume seen from a reference point `q`, with one anchor point per face -/
def vol6 (fs : List (List V3)) (q : V3) : Rat :=
  (fs.map (fun l => dot (sub (l.headD zero) q) (vecArea2 l))).sum

/-- C06 (volume): the surface-integral volume of a closed surface does not depend on the reference
    point; in particular the code's apex (the vertex centroid) may be replaced by any point -/
theorem vol6_ref_independent (fs : List (List V3)) (hc : ClosedSurface fs) (q q' : V3) :
    vol6 fs q = vol6 fs q' := by
  have key : ∀ (gs : List (List V3)), vol6 gs q - vol6 gs q' = dot (sub q' q) (vsum (gs.map vecArea2)) := by
    intro gs
    induction gs with
    | nil => simp [vol6, vsum_nil, dot, zero]
    | cons g gs ih =>
      simp only [vol6, List.map_cons, List.sum_cons, vsum_cons] at ih ⊢
      have : dot (sub q' q) (add (vecArea2 g) (vsum (gs.map vecArea2))) =
          dot (sub q' q) (vecArea2 g) + dot (sub q' q) (vsum (gs.map vecArea2)) := by
        simp only [dot, add]; ring
      rw [this, ← ih]
      simp only [dot, sub]; ring
  have := key fs
  rw [closed_vecArea_zero fs hc] at this
  have hz : dot (sub q' q) zero = 0 := by simp [dot, zero]
  rw [hz] at this
  linarith
#print axioms closed_vecArea_zero
#print axioms vol6_ref_independent

/-! ### one face: the code's `h·A/3` is the cone term of the surface integral -/
theorem vsum_map_sub (l : List (V3 × V3)) (f g : V3 × V3 → V3) :
    vsum (l.map (fun e => sub (f e) (g e))) = sub (vsum (l.map f)) (vsum (l.map g)) := by
  induction l with
  | nil => simp [vsum_nil]; apply V3.ext' <;> simp [sub, zero]
  | cons e es ih =>
    simp only [List.map_cons, vsum_cons, ih]; apply V3.ext' <;> simp only [add, sub] <;> ring

/-- vector telescoping: the fan of cross products about any centre sums to the vector area -/
theorem vec_fan (c : V3) (l : List V3) :
    vsum ((closedPairs l).map (fun e => cross (sub e.1 c) (sub e.2 c))) = vecArea2 l := by
  have hterm : ∀ e : V3 × V3, cross (sub e.1 c) (sub e.2 c) = sub (cross e.1 e.2) (cross c (sub e.2 e.1)) := by
    intro e; apply V3.ext' <;> simp only [cross, sub] <;> ring
  have h1 : (closedPairs l).map (fun e => cross (sub e.1 c) (sub e.2 c)) =
      (closedPairs l).map (fun e => sub (cross e.1 e.2) (cross c (sub e.2 e.1))) :=
    List.map_congr_left (fun e _ => hterm e)
  rw [h1, vsum_map_sub]
  have h2 : vsum ((closedPairs l).map (fun e => cross c (sub e.2 e.1))) =
      cross c (vsum ((closedPairs l).map (fun e => sub e.2 e.1))) := by
    rw [cross_vsum, List.map_map]; rfl
  rw [h2, closed_diff_sum]
  unfold vecArea2
  apply V3.ext' <;> simp [sub, cross, zero]

theorem cross_n_vsum_zero (n : V3) (l : List V3) (h : ∀ v ∈ l, cross n v = zero) : cross n (vsum l) = zero := by
  rw [cross_vsum]
  have : l.map (cross n) = l.map (fun _ => zero) := List.map_congr_left (fun v hv => h v hv)
  rw [this]
  clear this h
  induction l with
  | nil => simp [vsum_nil]
  | cons a l ih => rw [List.map_cons, vsum_cons, ih]; apply V3.ext' <;> simp [add, zero]

/-- the vector area of a coplanar cycle is a multiple of the plane normal -/
theorem vecArea2_parallel (n pl : V3) (hn : n ≠ zero) (l : List V3)
    (hpl : ∀ p ∈ l, inPlane n pl p = true) :
    vecArea2 l = smul (dot n (vecArea2 l) / normSq n) n := by
  cases l with
  | nil =>
    simp only [vecArea2, closedPairs, List.map_nil, vsum_nil]
    apply V3.ext' <;> simp [smul, zero, dot]
  | cons c rest =>
    have hc := hpl c (by simp)
    have hz : cross n (vecArea2 (c :: rest)) = zero := by
      rw [← vec_fan c (c :: rest)]
      apply cross_n_vsum_zero
      intro v hv
      obtain ⟨e, he, rfl⟩ := List.mem_map.mp hv
      have hm := closedPairs_mem (c :: rest) e he
      have h1 := inPlane_diff hc (hpl e.1 hm.1)
      have h2 := inPlane_diff hc (hpl e.2 hm.2)
      -- n × (u × v) = u (n.v) - v (n.u) = 0
      have : cross n (cross (sub e.1 c) (sub e.2 c)) =
          sub (smul (dot n (sub e.2 c)) (sub e.1 c)) (smul (dot n (sub e.1 c)) (sub e.2 c)) := by
        apply V3.ext' <;> simp only [cross, sub, smul, dot] <;> ring
      rw [this, h1, h2]; apply V3.ext' <;> simp [sub, smul, zero]
    have hz' : cross (vecArea2 (c :: rest)) n = zero := by
      rw [cross_anticomm, hz]; apply V3.ext' <;> simp [neg, zero]
    have := exists_smul_of_cross_zero hn hz'
    have hd : dot (vecArea2 (c :: rest)) n = dot n (vecArea2 (c :: rest)) := by simp only [dot]; ring
    rw [hd] at this
    exact this

theorem absQ_mul_nonneg (a k : Rat) (hk : 0 ≤ k) : absQ a * k = absQ (a * k) := by
  unfold absQ
  by_cases ha : a < 0
  · rw [if_pos ha]
    rcases eq_or_lt_of_le hk with h0 | hpos
    · rw [← h0]; simp
    · have : a * k < 0 := by nlinarith
      rw [if_pos this]; ring
  · rw [if_neg ha]
    have : ¬ a * k < 0 := by push_neg at ha ⊢; nlinarith
    rw [if_neg this]

/-- per face: `heightNum · areaNum / (n·n) = |(apex - p0) . vecArea2|` -/
theorem pyramid_term (n pl : V3) (p0 p1 p2 : V3) (rest : List V3)
    (hpl : ∀ p ∈ p0 :: p1 :: p2 :: rest, inPlane n pl p = true)
    (htp : triplesPos n (p0 :: p1 :: p2 :: rest)) (apex : V3) :
    absQ (dot (sub apex p0) n) *
        ((closedPairs (p0 :: p1 :: p2 :: rest)).map
          (fun e => triNum n (meanV (p0 :: p1 :: p2 :: rest)) e.1 e.2)).sum / normSq n =
      absQ (dot (sub apex p0) (vecArea2 (p0 :: p1 :: p2 :: rest))) := by
  have hn : n ≠ zero := by
    intro h; have := htp.1 p1 p2 (by simp); rw [h] at this; simp [orient, dot, zero] at this
  have hN := normSq_pos hn
  rw [polygon_area_shoelace n pl p0 p1 p2 rest hpl htp]
  have harea : 0 ≤ dot n (vsum ((closedPairs (p0 :: p1 :: p2 :: rest)).map (fun e => cross e.1 e.2))) := by
    rw [← polygon_area_shoelace n pl p0 p1 p2 rest hpl htp]
    apply List.sum_nonneg
    intro x hx
    obtain ⟨e, _, rfl⟩ := List.mem_map.mp hx
    unfold triNum absQ; split <;> linarith
  have hpar := vecArea2_parallel n pl hn (p0 :: p1 :: p2 :: rest) hpl
  set A := vecArea2 (p0 :: p1 :: p2 :: rest) with hA
  have hA' : vsum ((closedPairs (p0 :: p1 :: p2 :: rest)).map (fun e => cross e.1 e.2)) = A := rfl
  rw [hA'] at harea ⊢
  set k := dot n A / normSq n with hk
  have hk0 : 0 ≤ k := div_nonneg harea (le_of_lt hN)
  have e1 : dot (sub apex p0) A = dot (sub apex p0) n * k := by
    conv_lhs => rw [hpar]
    simp only [dot, smul]; ring
  rw [e1, ← absQ_mul_nonneg _ _ hk0, hk]
  field_simp
#print axioms pyramid_term
end G3D
