import G3D.Extracted.Mmeas
import G3D.Proofs.MeasTieBase
import G3D.Proofs.KTieKarea
/-! # mmeas, `get_triangle_area` and `ConvexPolygon.area`  (C06)
    `G3D.Extracted.m_get_triangle_area`, `m_ConvexPolygon_area` are regenerated on every run by tools/extract_mmeas.py
    from the BODIES in geometry/polygon.py.  One `section` per body: when ONE body cannot be translated the generated file
    holds `m_<..>_EXTRACTION_FAILED` for it and the theorems of that section (and of the sections that use it) stop compiling.
    * `get_triangle_area` (statement by statement) IS the term that the symbolic-execution kernel `karea` extracts by
      running the real function (`m_get_triangle_area_karea`, by unfolding only), hence ½|u × v| by `KTie.Karea.triangleArea_tie`.
    * `ConvexPolygon.area`: the index loop with the wrap-around index is the fan sum about `center_point` over the cyclic
      edge list; for a `Valid` polygon whose stored centre lies in the plane (`MeasOK`) it equals the model's
      `areaNum / (2·√(n·n))`.  Coplanarity of the fan triangles with the face normal is what turns Heron's ½|u × v| into
      `|n·(u × v)| / (2|n|)`. -/
namespace G3D.MeasTie.Polygon
open G3D G3D.MeasRt G3D.KTie G3D.Extracted G3D.MeasTie Real

section get_triangle_area
/-- the AST translation of the body and the symbolic execution of the real function (kernel `karea`) give the same term -/
theorem m_get_triangle_area_karea (pa pb pc : RVec) :
    m_get_triangle_area pa pb pc = impl_triangleArea pa pb pc := by
  simp only [m_get_triangle_area, pointDistance, impl_triangleArea]

/-- **Heron's value is half the length of the cross product** (reusing the kernel tie) -/
theorem m_get_triangle_area_tie (pa pb pc : RVec) :
    m_get_triangle_area pa pb pc = (1 / 2) * √(RVec.normSq (RVec.cross (RVec.sub pb pa) (RVec.sub pc pa))) :=
  (m_get_triangle_area_karea pa pb pc).trans (Karea.triangleArea_tie pa pb pc)
end get_triangle_area

section area
/-- the loop of `ConvexPolygon.area` (index arithmetic with wrap-around, accumulator) is the fan sum over the cyclic edges -/
theorem m_ConvexPolygon_area_cyc (M : MPolygon) :
    m_ConvexPolygon_area M
      = ((cycPairs M.points).map (fun e => m_get_triangle_area M.center_point e.1 e.2)).sum := by
  set_option linter.unusedSimpArgs false in
  simp only [m_ConvexPolygon_area, ne_eq, ite_not]
  refine (cyc_fold M.points RVec.zero (fun a b => m_get_triangle_area M.center_point a b) 0).trans ?_
  rw [zero_add]

/-- **`ConvexPolygon.area()` = `areaNum / (2·√(n·n))`** for every `Valid` polygon whose stored centre lies in its plane -/
theorem m_ConvexPolygon_area_tie (P : Polygon) (h : MeasOK P) :
    m_ConvexPolygon_area (polyToM P) = ((P.areaNum : ℚ) : ℝ) / (2 * √((V3.normSq P.plane.n : ℚ) : ℝ)) := by
  obtain ⟨hv, hc⟩ := h
  have hn : P.plane.n ≠ V3.zero := Polygon.plane_WF P hv
  obtain ⟨_, _, _, _, _, hpl, _⟩ := hv
  rw [m_ConvexPolygon_area_cyc]
  simp only [polyToM]
  rw [cycPairs_map, List.map_map, ← closedPairs_eq_cycPairs]
  unfold Polygon.areaNum
  rw [cast_sum_map, ← sum_map_div_const]
  apply sum_map_congr
  intro e he
  obtain ⟨h1, h2⟩ := closedPairs_mem P.pts e he
  simp only [Function.comp, Prod.map]
  rw [m_get_triangle_area_tie]
  exact tri_half_cross P.plane.n P.center e.1 e.2 hn
    (dot_sub_of_inPlane (hpl _ h1) hc) (dot_sub_of_inPlane (hpl _ h2) hc)

/-- the same with the hypothesis in the constructor's terms: the stored centre is the vertex mean -/
theorem m_ConvexPolygon_area_of_mean (P : Polygon) (hv : P.Valid) (hc : P.center = meanV P.pts) :
    m_ConvexPolygon_area (polyToM P) = ((P.areaNum : ℚ) : ℝ) / (2 * √((V3.normSq P.plane.n : ℚ) : ℝ)) :=
  m_ConvexPolygon_area_tie P (MeasOK.of_mean hv hc)

/-- the value does not depend on the stored plane at all (the body never reads it) -/
theorem m_ConvexPolygon_area_plane_irrelevant (M : MPolygon) (pl : MPlane) :
    m_ConvexPolygon_area ⟨M.points, M.center_point, pl⟩ = m_ConvexPolygon_area M := by
  rw [m_ConvexPolygon_area_cyc, m_ConvexPolygon_area_cyc]
end area

#print axioms m_get_triangle_area_karea
#print axioms m_get_triangle_area_tie
#print axioms m_ConvexPolygon_area_cyc
#print axioms m_ConvexPolygon_area_tie
#print axioms m_ConvexPolygon_area_of_mean
#print axioms m_ConvexPolygon_area_plane_irrelevant
end G3D.MeasTie.Polygon
