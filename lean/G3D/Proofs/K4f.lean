import G3D.Proofs.K4e

/-! # Kernel K4: ConvexPolyhedron × ConvexPolyhedron is exact whenever it returns, and fails only in the constructor

    `K = A ∩ B` (`K4.InK`: both membership tests; `= InHull A.verts ∩ InHull B.verts` under `ExactHyp`).
    * no interior point of `K` (`K4.exact_of_no_interior`, K4c.lean): the result is `None` / Point / Segment /
      ConvexPolygon and denotes exactly `K`; the two "Bug detected" branches are not taken
    * interior point: at least two different polygons are collected (`K4.two_gons`), so the handler calls
      `ConvexPolyhedron(polygons)`; every point of `K` is a convex combination of the vertices of the collected
      polygons (`K4.inK_sub_hull`), hence a returned polyhedron is exactly `K` (`K4.exact_of_mk`)
    * summary: `interPolyhedronPolyhedron_exact_of_ok`, `interPolyhedronPolyhedron_total` -/
namespace G3D
open V3

theorem K4.hull_of_same (P Q : Polygon) (h : P.same Q = true) (x : V3) (hx : InHull Q.pts x) :
    InHull P.pts x := by
  unfold Polygon.same at h
  rw [Bool.and_eq_true, Bool.and_eq_true, List.all_eq_true, List.all_eq_true] at h
  exact hx.mono (fun q hq => by simpa using h.1.2 q hq)

/-- a point on a polygon clip lies on one of the collected polygons -/
theorem K4.OnGon.in_parts {A B : Polyhedron} {p : Parts} (hp : K4.Parts2 A B p) {y : V3} (h : K4.OnGon A B y) :
    ∃ g ∈ p.gons, InHull g.pts y := by
  obtain ⟨f, Q, hQ, hin⟩ := h
  obtain ⟨g, hg, hs⟩ := hp.gons_rep f Q hQ
  rcases hs with rfl | hs
  · exact ⟨g, hg, hin⟩
  · exact ⟨g, hg, K4.hull_of_same g Q hs y hin⟩

/-- what is known about a collected polygon -/
theorem K4.Parts2.gon_spec {A B : Polyhedron} (hA : A.ExactHyp) (hB : B.ExactHyp) {p : Parts}
    (hp : K4.Parts2 A B p) (g : Polygon) (hg : g ∈ p.gons) :
    g.Valid ∧ ∃ f ∈ A.faces ++ B.faces, ∀ x, InHull g.pts x ↔ (K4.InK A B x ∧ f.side x = 0) := by
  obtain ⟨f, hf⟩ := hp.gons_sub g hg
  obtain ⟨hsh, hd⟩ := hf.spec hA hB
  cases hsh with
  | gon _ hv => exact ⟨hv, f, hf.mem, hd⟩

/-- with an interior point at least two different polygons are collected -/
theorem K4.two_gons {A B : Polyhedron} (hA : A.ExactHyp) (hB : B.ExactHyp) {p : Parts} (hp : K4.Parts2 A B p)
    (o : V3) (ho : ∀ f ∈ A.faces ++ B.faces, f.side o < 0) : ∃ Q1 Q2 t, p.gons = Q1 :: Q2 :: t := by
  obtain ⟨y1, y2, h1, h2, t, _, _, hb⟩ := K4.chord_interior hA hB o ho
  obtain ⟨g1, hg1, hy1⟩ := h1.in_parts hp
  obtain ⟨g2, hg2, hy2⟩ := h2.in_parts hp
  match hpg : p.gons with
  | [] => rw [hpg] at hg1; cases hg1
  | [g] =>
    exfalso
    rw [hpg] at hg1 hg2
    simp only [List.mem_singleton] at hg1 hg2
    subst hg1; subst hg2
    obtain ⟨_, f, hf, hd⟩ := hp.gon_spec hA hB g2 (by rw [hpg]; simp)
    have s1 := ((hd y1).mp hy1).2
    have s2 := ((hd y2).mp hy2).2
    have := ho f hf
    rw [hb, K4.side_between, s1, s2] at this
    simp at this
  | Q1 :: Q2 :: t => exact ⟨Q1, Q2, t, rfl⟩

/-- with an interior point, every point of the common part is a convex combination of the vertices of the collected
    polygons -/
theorem K4.inK_sub_hull {A B : Polyhedron} (hA : A.ExactHyp) (hB : B.ExactHyp) {p : Parts} (hp : K4.Parts2 A B p)
    (o : V3) (ho : ∀ f ∈ A.faces ++ B.faces, f.side o < 0) (x : V3) (hx : K4.InK A B x) :
    InHull (collectVerts p.gons) x := by
  have lift : ∀ y, K4.OnGon A B y → InHull (collectVerts p.gons) y := by
    intro y hy
    obtain ⟨g, hg, hin⟩ := hy.in_parts hp
    exact hin.mono (fun v hv => BS.collectVerts_mem p.gons g hg v hv)
  by_cases hint : ∀ f ∈ A.faces ++ B.faces, f.side x < 0
  · obtain ⟨y1, y2, h1, h2, hb⟩ := K4.chord_interior hA hB x hint
    exact InHull.between (lift y1 h1) (lift y2 h2) hb
  · push Not at hint
    obtain ⟨f, hf, hge⟩ := hint
    have hle := (K4.InK_iff_side A B x).mp hx f hf
    exact lift x (K4.onGon_of_boundary hA hB o ho x hx f hf (le_antisymm hle hge))

theorem K4.InK_conv (A B : Polyhedron) : SegConvex (K4.InK A B) :=
  fun _ _ _ hu hv hx => K4.InK_between hu hv hx

/-- conversely the vertices of the collected polygons span a subset of the common part (soundness) -/
theorem K4.hull_sub_inK {A B : Polyhedron} (hA : A.ExactHyp) (hB : B.ExactHyp) {p : Parts} (hp : K4.Parts2 A B p)
    (x : V3) (hx : InHull (collectVerts p.gons) x) : K4.InK A B x := by
  refine InHull.sub_of_conv (K4.InK_conv A B) _ ?_ x hx
  intro v hv
  obtain ⟨g, hg, hvg⟩ := BS.mem_collectVerts _ v hv
  obtain ⟨_, f, _, hd⟩ := hp.gon_spec hA hB g hg
  exact ((hd v).mp (vertex_in_hull _ _ hvg)).1

/-- two or more collected polygons: the common part has an interior point -/
theorem K4.interior_of_two {A B : Polyhedron} (hA : A.ExactHyp) (hB : B.ExactHyp) {p : Parts}
    (hp : K4.Parts2 A B p) (h2 : 2 ≤ p.gons.length) : ∃ o, ∀ f ∈ A.faces ++ B.faces, f.side o < 0 := by
  by_contra hno
  obtain ⟨f0, hf0, hflat⟩ := K4.flat_of_no_interior A B hA.proper.core.nonempty hno
  obtain ⟨o, ho, hsh, _⟩ := K4.finish_of_flat A B hA hB p hp f0 hf0 hflat
  match hpg : p.gons with
  | [] => rw [hpg] at h2; simp at h2
  | [g] => rw [hpg] at h2; simp at h2
  | Q1 :: Q2 :: t =>
    rw [K4.finish_many p Q1 Q2 t hpg] at ho
    cases hm : Polyhedron.mk? p.gons with
    | error e => rw [hm] at ho; simp [liftC, bind, Except.bind] at ho
    | ok R =>
      rw [hm] at ho
      simp only [liftC, bind, Except.bind, pure, Except.pure] at ho
      cases ho
      cases hsh

/-- **item 4**: whenever two or more polygons are collected and `ConvexPolyhedron(polygons)` succeeds, the
    polyhedron it returns is exactly `A ∩ B` -/
theorem K4.exact_of_mk {A B : Polyhedron} (hA : A.ExactHyp) (hB : B.ExactHyp) {p : Parts} (hp : K4.Parts2 A B p)
    (h2 : 2 ≤ p.gons.length) (R : Polyhedron) (hR : Polyhedron.mk? p.gons = .ok R) (x : V3) :
    InHull R.verts x ↔ (InHull A.verts x ∧ InHull B.verts x) := by
  obtain ⟨o, ho⟩ := K4.interior_of_two hA hB hp h2
  obtain ⟨_, _, ⟨_, hverts, _⟩, _⟩ := Polyhedron.mk?_ok p.gons R hR
  rw [hverts, ← K4.InK_iff_hull hA hB]
  exact ⟨K4.hull_sub_inK hA hB hp x, K4.inK_sub_hull hA hB hp o ho x⟩
#print axioms K4.exact_of_mk

/-- **K4, structure of the computation**: under `ExactHyp` for both bodies the two clipping loops succeed with parts
    `p` that are exactly the clips (`K4.Parts2`), and
    * either fewer than two polygons were collected; then the handler returns `None`, a Point, a well-formed Segment
      or a Valid ConvexPolygon denoting exactly `A ∩ B` (the "Bug detected" branches are not taken),
    * or two or more (Valid) polygons were collected; then the handler returns what `ConvexPolyhedron(polygons)`
      returns, and a returned polyhedron is exactly `A ∩ B`. -/
theorem interPolyhedronPolyhedron_total (A B : Polyhedron) (hA : A.ExactHyp) (hB : B.ExactHyp) :
    ∃ p, K4.Parts2 A B p ∧
      ((p.gons.length < 2 ∧ ∃ o, interPolyhedronPolyhedron A B = .ok o ∧ K4.Shape o ∧
          ∀ x, denOptB o x ↔ (InHull A.verts x ∧ InHull B.verts x)) ∨
       (2 ≤ p.gons.length ∧ (∀ g ∈ p.gons, g.Valid) ∧
          interPolyhedronPolyhedron A B =
            (do let R ← liftC (Polyhedron.mk? p.gons); pure (some (.polyhedron R))) ∧
          ∀ R, Polyhedron.mk? p.gons = .ok R → ∀ x, InHull R.verts x ↔ (InHull A.verts x ∧ InHull B.verts x))) := by
  obtain ⟨p, hp, heq⟩ := K4.handler_eq A B hA hB
  refine ⟨p, hp, ?_⟩
  by_cases hint : ∃ o, ∀ f ∈ A.faces ++ B.faces, f.side o < 0
  · obtain ⟨o, ho⟩ := hint
    obtain ⟨Q1, Q2, t, hpg⟩ := K4.two_gons hA hB hp o ho
    have h2 : 2 ≤ p.gons.length := by rw [hpg]; simp
    right
    refine ⟨h2, fun g hg => (hp.gon_spec hA hB g hg).1, ?_, fun R hR x => K4.exact_of_mk hA hB hp h2 R hR x⟩
    rw [heq, K4.finish_many p Q1 Q2 t hpg]
  · left
    constructor
    · by_contra h2
      exact hint (K4.interior_of_two hA hB hp (not_lt.mp h2))
    · obtain ⟨o, ho, hsh, hd⟩ := K4.exact_of_no_interior A B hA hB hint
      exact ⟨o, ho, hsh, fun x => by rw [hd x, K4.InK_iff_hull hA hB]⟩
#print axioms interPolyhedronPolyhedron_total

/-- **K4, summary**: for bodies satisfying `ExactHyp`
    * whatever `intersection(A, B)` returns denotes exactly `A ∩ B` (hulls of the vertex lists; equivalently both
      membership tests), and a returned Segment is well formed;
    * if it raises, the exception comes from `ConvexPolyhedron(polygons)` applied to the two or more Valid polygons
      collected from the faces (in particular it is not "Bug detected"). -/
theorem interPolyhedronPolyhedron_exact_of_ok (A B : Polyhedron) (hA : A.ExactHyp) (hB : B.ExactHyp) :
    (∀ o, interPolyhedronPolyhedron A B = .ok o →
      ResSegWF o ∧ ∀ x, denOptB o x ↔ (InHull A.verts x ∧ InHull B.verts x)) ∧
    (∀ e, interPolyhedronPolyhedron A B = .error e →
      ∃ p, K4.Parts2 A B p ∧ 2 ≤ p.gons.length ∧ (∀ g ∈ p.gons, g.Valid) ∧
        ∃ ce, Polyhedron.mk? p.gons = .error ce ∧ e = .ctor ce) := by
  obtain ⟨p, hp, h⟩ := interPolyhedronPolyhedron_total A B hA hB
  rcases h with ⟨_, o', ho', hsh, hd⟩ | ⟨h2, hval, heq, hex⟩
  · constructor
    · intro o ho
      rw [ho'] at ho; cases ho
      refine ⟨?_, hd⟩
      cases hsh with
      | none => trivial
      | point q => trivial
      | seg s hw => exact hw
      | gon Q hv => trivial
    · intro e he
      rw [ho'] at he; cases he
  · cases hm : Polyhedron.mk? p.gons with
    | error ce =>
      rw [hm] at heq
      simp only [liftC, bind, Except.bind] at heq
      constructor
      · intro o ho; rw [heq] at ho; cases ho
      · intro e he
        rw [heq] at he; cases he
        exact ⟨p, hp, h2, hval, ce, hm, rfl⟩
    | ok R =>
      rw [hm] at heq
      simp only [liftC, bind, Except.bind, pure, Except.pure] at heq
      constructor
      · intro o ho
        rw [heq] at ho; cases ho
        exact ⟨trivial, hex R hm⟩
      · intro e he; rw [heq] at he; cases he
#print axioms interPolyhedronPolyhedron_exact_of_ok

/-- the two "Bug detected" branches (two or more Segments / Points and no polygon) are never taken -/
theorem interPolyhedronPolyhedron_no_bug (A B : Polyhedron) (hA : A.ExactHyp) (hB : B.ExactHyp) :
    interPolyhedronPolyhedron A B ≠ .error .bug := by
  intro h
  obtain ⟨_, _, _, _, ce, _, he⟩ := (interPolyhedronPolyhedron_exact_of_ok A B hA hB).2 _ h
  cases he

/-- the same with the membership tests as denotations of the operands -/
theorem interPolyhedronPolyhedron_exact_contains (A B : Polyhedron) (hA : A.ExactHyp) (hB : B.ExactHyp)
    (o : Option Obj) (ho : interPolyhedronPolyhedron A B = .ok o) (x : V3) :
    denOptB o x ↔ (A.contains x = true ∧ B.contains x = true) := by
  rw [((interPolyhedronPolyhedron_exact_of_ok A B hA hB).1 o ho).2 x]
  exact (K4.InK_iff_hull hA hB x).symm

/-- `None` is returned exactly when the bodies are disjoint -/
theorem interPolyhedronPolyhedron_none_iff (A B : Polyhedron) (hA : A.ExactHyp) (hB : B.ExactHyp) :
    interPolyhedronPolyhedron A B = .ok none ↔ ∀ x, ¬ (InHull A.verts x ∧ InHull B.verts x) := by
  constructor
  · intro h x hx
    exact (((interPolyhedronPolyhedron_exact_of_ok A B hA hB).1 none h).2 x).mpr hx
  · intro hdis
    obtain ⟨p, hp, h⟩ := interPolyhedronPolyhedron_total A B hA hB
    rcases h with ⟨_, o', ho', hsh, hd⟩ | ⟨h2, _, _, _⟩
    · rw [ho']
      cases hsh with
      | none => rfl
      | point q => exact absurd ((hd q).mp rfl) (hdis q)
      | seg s hw => exact absurd ((hd s.a).mp s.den_a) (hdis s.a)
      | gon Q hv =>
        obtain ⟨p0, _, _, _, hpts, _, _⟩ := hv
        exact absurd ((hd p0).mp (vertex_in_hull _ _ (by rw [hpts]; simp))) (hdis p0)
    · exfalso
      obtain ⟨o, ho⟩ := K4.interior_of_two hA hB hp h2
      have hin : K4.InK A B o := (K4.InK_iff_side A B o).mpr (fun f hf => le_of_lt (ho f hf))
      exact hdis o ((K4.InK_iff_hull hA hB o).mp hin)
#print axioms interPolyhedronPolyhedron_none_iff

end G3D
