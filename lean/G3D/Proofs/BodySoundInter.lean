import G3D.Proofs.BodySoundSets
import G3D.Props.C04

/-! # Soundness of `intersection` lifted to `inter`, the dispatcher generated from the current source

    `BodySoundAll.lean` / `BodySoundSets.lean` prove the statements about `interRef` (the dispatcher as modelled by hand,
    no generated file involved); `Props.C04.inter_eq_ref` — re-checked on every run against the table extracted from
    calc/intersection.py — carries them over.  Kept apart so that the kernel proofs do not depend on the extracted table. -/
namespace G3D
open V3

/-- the same about `inter`, the dispatcher generated from the current source -/
theorem inter_sound (a b : Obj) (ha : OpWF a) (hb : OpWF b) :
    Sound (inter a b) (OpDen a) (OpDen b) := by
  rw [Props.C04.inter_eq_ref]; exact interRef_sound a b ha hb

/-- C12, third clause, in words: every vertex / end point of `intersection(a, b)` lies in `a` and in `b`
    (and a returned Segment has two distinct end points) -/
theorem inter_result_vertices_in_both (a b : Obj) (ha : OpWF a) (hb : OpWF b)
    (r : Obj) (h : inter a b = .ok (some r)) : ∀ v ∈ resVerts (some r), OpDen a v ∧ OpDen b v :=
  (inter_sound a b ha hb).verts r h
#print axioms inter_result_vertices_in_both


/-- the same about `inter`, the dispatcher generated from the current source -/
theorem inter_result_subset (a b : Obj) (ha : OpWF a) (hb : OpWF b) (o : Option Obj)
    (h : inter a b = .ok o) : ∀ x, denOptB o x → OpDen a x ∧ OpDen b x := by
  rw [Props.C04.inter_eq_ref] at h
  exact interRef_result_subset a b ha hb o h
#print axioms inter_result_subset


end G3D
