import G3D.Extracted.Mmeas
import G3D.Proofs.MeasTieBase
import G3D.Proofs.MeasTiePolygon
/-! # mmeas, `ConvexPolyhedron.area`  (C06)
    `G3D.Extracted.m_ConvexPolyhedron_area` is regenerated on every run by tools/extract_mmeas.py from the BODY in
    geometry/polyhedron.py: `a = 0; for polygon in self.convex_polygons: a += polygon.area(); return a`.
    For a body all of whose faces are `MeasOK` (Valid, stored centre in the plane) it is `Σ_faces areaNum / (2·√(n·n))`.
    Imports the tie of `ConvexPolygon.area` because the Python delegates to it. -/
namespace G3D.MeasTie.Polyhedron
open G3D G3D.MeasRt G3D.KTie G3D.Extracted G3D.MeasTie Real

section area
/-- the accumulator loop is the sum of the face areas -/
theorem m_ConvexPolyhedron_area_sum (M : MPolyhedron) :
    m_ConvexPolyhedron_area M = (M.convex_polygons.map m_ConvexPolygon_area).sum := by
  simp only [m_ConvexPolyhedron_area]
  rw [foldl_add_sum, zero_add]

/-- **`ConvexPolyhedron.area()` = Σ_faces areaNum / (2·√(n·n))** (the model's `faceAreaNums`) -/
theorem m_ConvexPolyhedron_area_tie (B : Polyhedron) (hf : ∀ f ∈ B.faces, MeasOK f) :
    m_ConvexPolyhedron_area (bodyToM B)
      = (B.faceAreaNums.map (fun an => ((an.1 : ℚ) : ℝ) / (2 * √((an.2 : ℚ) : ℝ)))).sum := by
  rw [m_ConvexPolyhedron_area_sum]
  simp only [bodyToM]
  unfold Polyhedron.faceAreaNums
  rw [List.map_map, List.map_map]
  apply sum_map_congr
  intro f hfm
  exact Polygon.m_ConvexPolygon_area_tie f (hf f hfm)
end area

#print axioms m_ConvexPolyhedron_area_sum
#print axioms m_ConvexPolyhedron_area_tie
end G3D.MeasTie.Polyhedron
