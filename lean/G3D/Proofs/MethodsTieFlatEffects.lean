import G3D.Extracted.Mflat
/-! # Tie, group `mflat`, role EFFECTS (C20): the provenance of every stored / returned reference, in-place mutations; pins by `rfl`. -/
namespace G3D.Tie
open V3 PyRt Extracted

theorem m_Line___init___effects_eq : m_Line___init___effects =
    ["store: self.sv = new|param:a", "store: self.dv = param:b", "store: self.dv = new"] := rfl

theorem m_Line_move_effects_eq : m_Line_move_effects =
    ["inplace: self.sv[..] += ..", "inplace: self.sv[..] += ..", "inplace: self.sv[..] += ..",
     "return: new Line(self.sv, self.dv)"] := rfl

theorem m_Plane__init_pn_effects_eq : m_Plane__init_pn_effects = ["store: self.p = param:p", "store: self.n = new"] := rfl

theorem m_Plane___neg___effects_eq : m_Plane___neg___effects = ["return: new Plane(self.p, new)"] := rfl

theorem m_Plane_move_effects_eq : m_Plane_move_effects =
    ["inplace: self.p.move(..)", "return: new Plane(self.p, self.n)"] := rfl

theorem m_Segment___init___effects_eq : m_Segment___init___effects =
    ["store: self.line = new Line(copy, copy)", "store: self.start_point = copy", "store: self.end_point = copy",
     "store: self.line = new Line(copy, copy)", "store: self.start_point = copy", "store: self.end_point = new"] := rfl

theorem m_Segment_move_effects_eq : m_Segment_move_effects =
    ["inplace: self.start_point.move(..)", "inplace: self.end_point.move(..)",
     "store: self.line = new Line(self.start_point, self.end_point)"] := rfl

theorem m_HalfLine___init___effects_eq : m_HalfLine___init___effects =
    ["store: self.line = new Line(copy, copy)", "store: self.point = copy", "store: self.vector = new",
     "store: self.line = new Line(copy, copy)", "store: self.point = copy", "store: self.vector = copy"] := rfl

theorem m_HalfLine_move_effects_eq : m_HalfLine_move_effects =
    ["inplace: self.point.move(..)", "store: self.line = new Line(self.point, self.vector)"] := rfl

/-- the read-only methods store nothing and return no reference to an attribute -/
theorem mflat_readonly_effects :
    m_Line___contains___effects = [] ∧ m_Line___eq___effects = [] ∧ m_Plane___contains___effects = [] ∧
    m_Plane___eq___effects = [] ∧ m_Segment___contains___effects = [] ∧ m_Segment___eq___effects = [] ∧
    m_HalfLine___contains___effects = [] ∧ m_HalfLine___eq___effects = [] ∧
    m_Segment_in__effects = ["anomaly: returns NotImplementedError('') (an exception instance) instead of raising it"] ∧
    m_HalfLine_in__effects = ["anomaly: returns NotImplementedError('') (an exception instance) instead of raising it"] :=
  ⟨rfl, rfl, rfl, rfl, rfl, rfl, rfl, rfl, rfl, rfl⟩

end G3D.Tie
