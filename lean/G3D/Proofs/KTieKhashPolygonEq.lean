import G3D.Proofs.KTieKhashPolygon
import G3D.Proofs.KTieKhashPlane
import G3D.Proofs.KTieKhashPoint
import G3D.Proofs.Judge
/-! # khash, `ConvexPolygon.__hash__` end to end: the extracted hash is the model's hash-sum tuple; equal polygons hash equal  (C08)
    Imports the Plane and Point ties (the polygon hash delegates to `Plane.__hash__` and `Point.__hash__`; a change there rightly
    concerns this module too).
    Exact reading of the comparisons (`sigE`, `negE`); for all H, rnd, rndI. -/
namespace G3D.KTie.Khash
open G3D G3D.Extracted G3D.KTie

theorem implPoint_eq_ref (H : HFun) (rnd : ℝ → ℝ) : impl_hash_Point H rnd = pointHashRef H rnd := by
  funext p; exact hash_Point_tie H rnd p

theorem implPlane_eq_ref (H : HFun) (rnd : ℝ → ℝ) : impl_hash_Plane H rnd sigE negE = planeHashRef H rnd := by
  funext p n; exact hash_Plane_tie H rnd p n

section hash_ConvexPolygon3
theorem hash_ConvexPolygon3_ref (H : HFun) (rnd : ℝ → ℝ) (rndI : Int → Int) (a b c pp pn : RVec) :
    impl_hash_ConvexPolygon3 H rnd rndI sigE negE a b c pp pn = polygonHashRef H rnd rndI [a, b, c] pp pn := by
  rw [hash_ConvexPolygon3_shape, implPoint_eq_ref, implPlane_eq_ref]; rfl

/-- **the extracted hash of a triangle is `hFace` of the model's `Polygon.hashTupleAbs`**, instantiated with the extracted point
    hash and the (hash(plane) + hash(-plane), hash(plane) * hash(-plane)) pair computed from the canonical plane key -/
theorem hash_ConvexPolygon3_tuple_partial (H : HFun) (rnd : ℝ → ℝ) (rndI : Int → Int) (P : Polygon) (a b c : V3) (hp : P.pts = [a, b, c])
    (hw : P.plane.WF) :
    impl_hash_ConvexPolygon3 H rnd rndI sigE negE a.toR b.toR c.toR P.plane.p.toR (unitR P.plane.n.toR)
      = hFace H rndI (P.hashTupleAbs (hPt H rnd) (hPlanePair H rnd)) := by
  rw [hash_ConvexPolygon3_ref, ← polygonHashRef_tuple H rnd rndI P hw, hp]; rfl

/-- **EQUAL TRIANGLES HAVE EQUAL EXTRACTED HASHES** (same vertex set in any order / start vertex, same carrier plane with either
    orientation), for every H, rnd, rndI -/
theorem hash_ConvexPolygon3_eq_of_same_partial (H : HFun) (rnd : ℝ → ℝ) (rndI : Int → Int) {P Q : Polygon} (hP : P.Valid) (hQ : Q.Valid)
    (hs : P.same Q = true) (a b c a' b' c' : V3) (hp : P.pts = [a, b, c]) (hq : Q.pts = [a', b', c']) :
    impl_hash_ConvexPolygon3 H rnd rndI sigE negE a.toR b.toR c.toR P.plane.p.toR (unitR P.plane.n.toR)
      = impl_hash_ConvexPolygon3 H rnd rndI sigE negE a'.toR b'.toR c'.toR Q.plane.p.toR (unitR Q.plane.n.toR) := by
  rw [hash_ConvexPolygon3_tuple_partial H rnd rndI P a b c hp (Polygon.plane_WF P hP),
    hash_ConvexPolygon3_tuple_partial H rnd rndI Q a' b' c' hq (Polygon.plane_WF Q hQ), Polygon.hashTupleAbs_eq_of_same _ _ hP hQ hs]

def exP : Polygon := ⟨[⟨0,0,0⟩, ⟨1,0,0⟩, ⟨0,1,0⟩], ⟨⟨0,0,0⟩, ⟨0,0,1⟩⟩, ⟨0,0,0⟩⟩
def exQ : Polygon := ⟨[⟨0,1,0⟩, ⟨1,0,0⟩, ⟨0,0,0⟩], ⟨⟨0,1,0⟩, ⟨0,0,-2⟩⟩, ⟨0,0,0⟩⟩

/-- non-vacuity: the same triangle listed from another start vertex in the opposite sense, with the opposite, rescaled normal -/
theorem hash_ConvexPolygon3_example (H : HFun) (rnd : ℝ → ℝ) (rndI : Int → Int) :
    impl_hash_ConvexPolygon3 H rnd rndI sigE negE (V3.toR ⟨0,0,0⟩) (V3.toR ⟨1,0,0⟩) (V3.toR ⟨0,1,0⟩) (V3.toR ⟨0,0,0⟩)
        (unitR (V3.toR ⟨0,0,1⟩))
      = impl_hash_ConvexPolygon3 H rnd rndI sigE negE (V3.toR ⟨0,1,0⟩) (V3.toR ⟨1,0,0⟩) (V3.toR ⟨0,0,0⟩) (V3.toR ⟨0,1,0⟩)
        (unitR (V3.toR ⟨0,0,-2⟩)) :=
  hash_ConvexPolygon3_eq_of_same_partial H rnd rndI (P := exP) (Q := exQ)
    (Polygon.valid_of_polygonValidB exP rfl (by decide +kernel)) (Polygon.valid_of_polygonValidB exQ rfl (by decide +kernel))
    (by decide +kernel) _ _ _ _ _ _ rfl rfl
end hash_ConvexPolygon3

section hash_ConvexPolygon4
theorem hash_ConvexPolygon4_ref (H : HFun) (rnd : ℝ → ℝ) (rndI : Int → Int) (a b c d pp pn : RVec) :
    impl_hash_ConvexPolygon4 H rnd rndI sigE negE a b c d pp pn = polygonHashRef H rnd rndI [a, b, c, d] pp pn := by
  rw [hash_ConvexPolygon4_shape, implPoint_eq_ref, implPlane_eq_ref]; rfl

theorem hash_ConvexPolygon4_tuple_partial (H : HFun) (rnd : ℝ → ℝ) (rndI : Int → Int) (P : Polygon) (a b c d : V3)
    (hp : P.pts = [a, b, c, d]) (hw : P.plane.WF) :
    impl_hash_ConvexPolygon4 H rnd rndI sigE negE a.toR b.toR c.toR d.toR P.plane.p.toR (unitR P.plane.n.toR)
      = hFace H rndI (P.hashTupleAbs (hPt H rnd) (hPlanePair H rnd)) := by
  rw [hash_ConvexPolygon4_ref, ← polygonHashRef_tuple H rnd rndI P hw, hp]; rfl

/-- **EQUAL QUADRILATERALS HAVE EQUAL EXTRACTED HASHES**, for every H, rnd, rndI -/
theorem hash_ConvexPolygon4_eq_of_same_partial (H : HFun) (rnd : ℝ → ℝ) (rndI : Int → Int) {P Q : Polygon} (hP : P.Valid) (hQ : Q.Valid)
    (hs : P.same Q = true) (a b c d a' b' c' d' : V3) (hp : P.pts = [a, b, c, d]) (hq : Q.pts = [a', b', c', d']) :
    impl_hash_ConvexPolygon4 H rnd rndI sigE negE a.toR b.toR c.toR d.toR P.plane.p.toR (unitR P.plane.n.toR)
      = impl_hash_ConvexPolygon4 H rnd rndI sigE negE a'.toR b'.toR c'.toR d'.toR Q.plane.p.toR (unitR Q.plane.n.toR) := by
  rw [hash_ConvexPolygon4_tuple_partial H rnd rndI P a b c d hp (Polygon.plane_WF P hP),
    hash_ConvexPolygon4_tuple_partial H rnd rndI Q a' b' c' d' hq (Polygon.plane_WF Q hQ), Polygon.hashTupleAbs_eq_of_same _ _ hP hQ hs]
end hash_ConvexPolygon4

#print axioms hash_ConvexPolygon3_tuple_partial
#print axioms hash_ConvexPolygon3_eq_of_same_partial
#print axioms hash_ConvexPolygon4_eq_of_same_partial
end G3D.KTie.Khash
