import G3D.Proofs.Euler2

/-! # Euler's polyhedron formula, part 3: at most one ascending corner at a vertex

    Hypotheses (`Eu.Hyp`): `Polyhedron.Valid`, `Polyhedron.FaceLocal`, and every directed edge occurs once
    (`(dirEdges (B.faces.map (·.pts))).Nodup` — without it the face list of a cube repeated twice satisfies
    `Valid ∧ FaceLocal` and has `V - E + F = 8`).

    * `Eu.face_eq_of_same_hull` : two faces with the same hull are the same entry of the face list
    * `Eu.coplanar_of_corner` : a face whose plane contains a corner of another face has the same hull
    * `Eu.asc_ray` : an ascending corner `(p, v, s)` of a face `f`: the point `y` of `[p, s]` at the height of `v`
      satisfies `y - v = k (n_f × d)` with `k > 0`
    * `Eu.asc_unique` : two ascending corners at the same vertex coincide (face and corner) -/
namespace G3D
open V3

/-- the hypotheses of Euler's formula -/
structure Eu.Hyp (B : Polyhedron) : Prop where
  valid : B.Valid
  faceLocal : B.FaceLocal
  nodup : (dirEdges (B.faces.map (·.pts))).Nodup

theorem Eu.Hyp.proper {B : Polyhedron} (H : Eu.Hyp B) : B.Proper := H.valid.proper H.faceLocal

theorem Eu.pairwise_ne {α : Type} (R : α → α → Prop) (hs : ∀ a b, R a b → R b a) : ∀ l : List α,
    l.Pairwise R → ∀ a ∈ l, ∀ b ∈ l, a ≠ b → R a b := by
  intro l
  induction l with
  | nil => intro _ a ha; cases ha
  | cons x l ih =>
    intro hp a ha b hb hne
    rw [List.pairwise_cons] at hp
    rcases List.mem_cons.mp ha with ha | ha <;> rcases List.mem_cons.mp hb with hb | hb
    · exact absurd (ha.trans hb.symm) hne
    · rw [ha]; exact hp.1 b hb
    · rw [hb]; exact hs _ _ (hp.1 a ha)
    · exact ih hp.2 a ha b hb hne

/-- distinct entries of the face list have no common directed edge -/
theorem Eu.Hyp.disjoint {B : Polyhedron} (H : Eu.Hyp B) (f g : Polygon) (hf : f ∈ B.faces) (hg : g ∈ B.faces)
    (e : V3 × V3) (he1 : e ∈ closedPairs f.pts) (he2 : e ∈ closedPairs g.pts) : f = g := by
  by_contra hne
  have h := H.nodup
  rw [K4.FacetBody.dirEdges_eq, List.nodup_flatMap] at h
  have := Eu.pairwise_ne _ (fun a b (hab : List.Disjoint (closedPairs a.pts) (closedPairs b.pts)) => hab.symm)
    B.faces h.2 f hf g hg hne
  exact this he1 he2

theorem Eu.Hyp.faces_nodup {B : Polyhedron} (H : Eu.Hyp B) : B.faces.Nodup := by
  have h := H.nodup
  rw [K4.FacetBody.dirEdges_eq, List.nodup_flatMap] at h
  refine List.Pairwise.imp_of_mem ?_ h.2
  intro f g hf _ hd heq
  subst heq
  obtain ⟨p0, p1, p2, rest, hp, _, _⟩ := H.valid.faces_valid f hf
  have : (p0, p1) ∈ closedPairs f.pts := by rw [hp]; simp [closedPairs, consec]
  exact hd this this

/-- a vertex of a face lies in its plane and in the body -/
theorem Eu.Hyp.vertex {B : Polyhedron} (H : Eu.Hyp B) (f : Polygon) (hf : f ∈ B.faces) (v : V3) (hv : v ∈ f.pts) :
    f.side v = 0 ∧ B.contains v = true :=
  ⟨H.proper.side_of_face f hf v (vertex_in_hull _ _ hv), H.proper.face_sub f hf v (vertex_in_hull _ _ hv)⟩

theorem Eu.Hyp.side_le {B : Polyhedron} (_H : Eu.Hyp B) (f : Polygon) (hf : f ∈ B.faces) (x : V3)
    (hx : B.contains x = true) : f.side x ≤ 0 := (B.contains_iff_side x).mp hx f hf

/-- two faces with the same hull are the same entry of the face list -/
theorem Eu.face_eq_of_same_hull {B : Polyhedron} (H : Eu.Hyp B) (f g : Polygon) (hf : f ∈ B.faces)
    (hg : g ∈ B.faces) (h : ∀ x, InHull f.pts x ↔ InHull g.pts x) : f = g := by
  have hP := H.proper
  have hfv := H.valid.faces_valid f hf
  have hgv := H.valid.faces_valid g hg
  obtain ⟨o, ho⟩ := H.valid.interior
  have hall : ∀ v ∈ f.pts, g.side v = 0 := fun v hv =>
    hP.side_of_face g hg v ((h v).mp (vertex_in_hull _ _ hv))
  obtain ⟨k, hk, hn, _⟩ := coplanar_neighbour f g hfv (H.valid.center_in_plane f hf) o (ho f hf) (ho g hg) hall
  have hmem : ∀ p, p ∈ g.pts ↔ p ∈ f.pts := fun p =>
    ⟨SameSet.mem_of_same_hull hgv.strictConvexPos (fun x => (h x).symm) p,
      SameSet.mem_of_same_hull hfv.strictConvexPos h p⟩
  obtain ⟨p0, p1, p2, rest, hp, _, htp⟩ := id hfv
  obtain ⟨q0, q1, q2, rest', hq, _, htq⟩ := id hgv
  have htq' : triplesPos f.plane.n g.pts := by
    rw [hn] at htq; exact (triplesPos_smul_pos k hk _ _).mp htq
  obtain ⟨l1, l2, e1, e2⟩ := cycle_unique f.plane.n f.pts g.pts (by rw [hp]; simp) (by rw [hq]; simp)
    htp htq' hmem
  have hperm : List.Perm (closedPairs f.pts) (closedPairs g.pts) := by
    rw [e1, e2]; exact closedPairs_rotate l1 l2
  have he : (p0, p1) ∈ closedPairs f.pts := by rw [hp]; simp [closedPairs, consec]
  exact H.disjoint f g hf hg _ he (hperm.mem_iff.mp he)

/-- a face whose plane contains a corner of the face `g` has the same hull as `g` -/
theorem Eu.coplanar_of_corner {B : Polyhedron} (H : Eu.Hyp B) (f g : Polygon) (hf : f ∈ B.faces)
    (hg : g ∈ B.faces) (t : V3 × V3 × V3) (ht : t ∈ Eu.cycTriples g.pts)
    (h1 : f.side t.1 = 0) (h2 : f.side t.2.1 = 0) (h3 : f.side t.2.2 = 0) :
    ∀ x, InHull f.pts x ↔ InHull g.pts x := by
  have hP := H.proper
  have hgv := H.valid.faces_valid g hg
  obtain ⟨e1, e2, _, _, _, hD⟩ := Eu.triple_facts g hgv t ht
  have m1 := closedPairs_mem _ _ e1
  have m2 := closedPairs_mem _ _ e2
  set p := t.1
  set v := t.2.1
  set s := t.2.2
  have gp := (H.vertex g hg p m1.1).1
  have gv := (H.vertex g hg v m1.2).1
  have gs := (H.vertex g hg s m2.2).1
  -- both normals are orthogonal to the two edge vectors of the corner
  have hN : cross (sub s v) (sub p v) ≠ zero := by
    intro hz
    have : orient g.plane.n p v s = dot g.plane.n (cross (sub s v) (sub p v)) := by
      simp only [orient, dot, cross, sub]; ring
    rw [this, hz] at hD
    simp [dot, zero] at hD
  have fa : dot f.plane.n (sub s v) = 0 := by rw [K4.side_diff, h3, h2]; ring
  have fb : dot f.plane.n (sub p v) = 0 := by rw [K4.side_diff, h1, h2]; ring
  have ga : dot g.plane.n (sub s v) = 0 := by rw [K4.side_diff, gs, gv]; ring
  have gb : dot g.plane.n (sub p v) = 0 := by rw [K4.side_diff, gp, gv]; ring
  obtain ⟨k1, hk1⟩ := parallel_of_perp _ _ f.plane.n hN fa fb
  obtain ⟨k2, hk2⟩ := parallel_of_perp _ _ g.plane.n hN ga gb
  have hk2ne : k2 ≠ 0 := smul_ne_zero_left (by rw [← hk2]; exact Polygon.plane_WF g hgv)
  have hk1ne : k1 ≠ 0 := smul_ne_zero_left (by rw [← hk1]; exact Polygon.plane_WF f (H.valid.faces_valid f hf))
  have hside : ∀ x, f.side x = (k1 / k2) * g.side x := by
    intro x
    have a1 : f.side x = dot f.plane.n (sub x v) := by rw [K4.side_diff, h2]; ring
    have a2 : g.side x = dot g.plane.n (sub x v) := by rw [K4.side_diff, gv]; ring
    rw [a1, a2, hk1]
    conv_rhs => rw [hk2]
    simp only [dot, smul]
    field_simp
  have hne : k1 / k2 ≠ 0 := div_ne_zero hk1ne hk2ne
  intro x
  rw [hP.face_iff f hf, hP.face_iff g hg, hside]
  constructor
  · rintro ⟨a, b⟩; exact ⟨a, (mul_eq_zero.mp b).resolve_left hne⟩
  · rintro ⟨a, b⟩; exact ⟨a, by rw [b]; ring⟩

/-! ### the horizontal ray of an ascending corner -/

theorem Eu.lagrange (n d a : V3) :
    dot (cross n d) (cross n a) = normSq n * dot d a - dot n a * dot n d := by
  simp only [dot, cross, normSq]; ring

/-- the point of the chord `[p, s]` of an ascending corner `(p, v, s)` at the height of `v` -/
def Eu.chordPt (d : V3) (t : V3 × V3 × V3) : V3 :=
  add t.1 (smul ((dot d t.2.1 - dot d t.1) / (dot d t.2.2 - dot d t.1)) (sub t.2.2 t.1))

structure Eu.AscRay (f : Polygon) (d : V3) (t : V3 × V3 × V3) (y : V3) : Prop where
  tau : ∃ τ : Rat, 0 < τ ∧ τ < 1 ∧ y = add t.1 (smul τ (sub t.2.2 t.1))
  hull : InHull f.pts y
  level : dot d y = dot d t.2.1
  cross_ne : cross f.plane.n d ≠ zero
  ray : ∃ k : Rat, 0 < k ∧ sub y t.2.1 = smul k (cross f.plane.n d)

/-- an ascending corner `(p, v, s)` of a valid polygon: the point `y` of `[p, s]` at the height of `v` lies on the
    ray from `v` along `n × d` -/
theorem Eu.asc_ray (f : Polygon) (hv : f.Valid) (d : V3) (t : V3 × V3 × V3) (ht : t ∈ Eu.cycTriples f.pts)
    (h1 : dot d t.1 < dot d t.2.1) (h2 : dot d t.2.1 < dot d t.2.2) : Eu.AscRay f d t (Eu.chordPt d t) := by
  obtain ⟨e1, e2, _, _, _, hD⟩ := Eu.triple_facts f hv t ht
  have m1 := closedPairs_mem _ _ e1
  have m2 := closedPairs_mem _ _ e2
  have hn : f.plane.n ≠ zero := Polygon.plane_WF f hv
  obtain ⟨_, _, _, _, _, hpl, _⟩ := id hv
  set p := t.1 with hpd
  set v := t.2.1 with hvd
  set s := t.2.2 with hsd
  set τ := (dot d v - dot d p) / (dot d s - dot d p) with hτ
  have hden : 0 < dot d s - dot d p := by linarith
  have hτ0 : 0 < τ := div_pos (by linarith) hden
  have hτ1 : τ < 1 := by rw [hτ, div_lt_one hden]; linarith
  have hy : Eu.chordPt d t = add p (smul τ (sub s p)) := rfl
  set y := Eu.chordPt d t with hyd
  have hlevel : dot d y = dot d v := by
    have : dot d y = dot d p + τ * (dot d s - dot d p) := by rw [hy]; simp only [dot, add, smul, sub]; ring
    rw [this, hτ]; field_simp; ring
  have hbet : Between p s y := ⟨τ, le_of_lt hτ0, le_of_lt hτ1, hy⟩
  have hhull : InHull f.pts y := between_in_hull m1.1 m2.2 hbet
  have na : dot f.plane.n (sub s v) = 0 := inPlane_diff (hpl _ m1.2) (hpl _ m2.2)
  have nb : dot f.plane.n (sub p v) = 0 := inPlane_diff (hpl _ m1.2) (hpl _ m1.1)
  have hα : 0 < dot d (sub s v) := by
    have : dot d (sub s v) = dot d s - dot d v := by simp only [dot, sub]; ring
    rw [this]; linarith
  have hN := normSq_pos hn
  have hcr : cross f.plane.n d ≠ zero := by
    intro hz
    have h := Eu.lagrange f.plane.n d (sub s v)
    rw [hz, na] at h
    have h0 : dot zero (cross f.plane.n (sub s v)) = 0 := by simp [dot, zero]
    rw [h0] at h
    have : 0 < normSq f.plane.n * dot d (sub s v) := mul_pos hN hα
    linarith
  have ry1 : dot (sub y v) f.plane.n = 0 := by
    have : dot (sub y v) f.plane.n = (1 - τ) * dot f.plane.n (sub p v) + τ * dot f.plane.n (sub s v) := by
      rw [hy]; simp only [dot, add, smul, sub]; ring
    rw [this, na, nb]; ring
  have ry2 : dot (sub y v) d = 0 := by
    have : dot (sub y v) d = dot d y - dot d v := by simp only [dot, sub]; ring
    rw [this, hlevel]; ring
  obtain ⟨k, hk⟩ := parallel_of_perp f.plane.n d (sub y v) hcr ry1 ry2
  refine ⟨⟨τ, hτ0, hτ1, hy⟩, hhull, hlevel, hcr, k, ?_, hk⟩
  have o1 : orient f.plane.n v s y = (1 - τ) * orient f.plane.n p v s := by
    rw [hy]; simp only [orient, dot, cross, add, smul, sub]; ring
  have o2 : orient f.plane.n v s y = k * (normSq f.plane.n * dot d (sub s v)) := by
    have : orient f.plane.n v s y = dot f.plane.n (cross (sub s v) (sub y v)) := rfl
    rw [this, hk]
    have e : dot f.plane.n (cross (sub s v) (smul k (cross f.plane.n d))) =
        k * (normSq f.plane.n * dot d (sub s v) - dot f.plane.n (sub s v) * dot f.plane.n d) := by
      simp only [dot, cross, smul, normSq]; ring
    rw [e, na]; ring
  have hpos : 0 < k * (normSq f.plane.n * dot d (sub s v)) := by
    rw [← o2, o1]; exact mul_pos (by linarith) hD
  exact (pos_iff_pos_of_mul_pos hpos).mpr (mul_pos hN hα)

theorem Eu.smul_ne_zero {k : Rat} {v : V3} (hk : k ≠ 0) (hv : v ≠ zero) : smul k v ≠ zero := by
  intro h
  apply hv
  have hx := congrArg V3.x h; have hy := congrArg V3.y h; have hz := congrArg V3.z h
  simp only [smul, zero] at hx hy hz
  apply V3.ext' <;> simp only [zero]
  · exact (mul_eq_zero.mp hx).resolve_left hk
  · exact (mul_eq_zero.mp hy).resolve_left hk
  · exact (mul_eq_zero.mp hz).resolve_left hk

theorem Eu.cross_cross (g f d : V3) :
    cross (cross g d) (cross f d) = smul (dot g (cross f d)) d := by
  apply V3.ext' <;> simp only [cross, smul, dot] <;> ring

/-- on the way from `v` to the chord point of `f`, the chord point of `g`: then the corner of `g` lies in the plane
    of `f` -/
theorem Eu.asc_unique_aux {B : Polyhedron} (H : Eu.Hyp B) (d : V3) (f g : Polygon) (hf : f ∈ B.faces)
    (hg : g ∈ B.faces) (t t' : V3 × V3 × V3) (ht' : t' ∈ Eu.cycTriples g.pts)
    (hmid : t.2.1 = t'.2.1) (y y' : V3) (R : Eu.AscRay f d t y) (R' : Eu.AscRay g d t' y')
    (hvf : t.2.1 ∈ f.pts) (θ : Rat) (h0 : 0 ≤ θ) (h1 : θ ≤ 1) (hθ : sub y' t.2.1 = smul θ (sub y t.2.1)) :
    ∀ x, InHull f.pts x ↔ InHull g.pts x := by
  have hP := H.proper
  have hgv := H.valid.faces_valid g hg
  obtain ⟨e1, e2, _, _, _, _⟩ := Eu.triple_facts g hgv t' ht'
  have m1 := closedPairs_mem _ _ e1
  have m2 := closedPairs_mem _ _ e2
  have hb : Between t.2.1 y y' := by
    refine ⟨θ, h0, h1, ?_⟩
    have hx := congrArg V3.x hθ; have hy := congrArg V3.y hθ; have hz := congrArg V3.z hθ
    simp only [sub, smul] at hx hy hz
    apply V3.ext' <;> simp only [add, smul, sub] <;> linarith
  have hy'f : InHull f.pts y' := InHull.between (vertex_in_hull _ _ hvf) R.hull hb
  have hs : f.side y' = 0 := hP.side_of_face f hf y' hy'f
  obtain ⟨τ, hτ0, hτ1, hy'⟩ := R'.tau
  have hlin : f.side y' = (1 - τ) * f.side t'.1 + τ * f.side t'.2.2 := by
    rw [hy']; simp only [Polygon.side, dot, add, smul, sub]; ring
  have hp' : f.side t'.1 ≤ 0 := H.side_le f hf _ (H.vertex g hg _ m1.1).2
  have hs' : f.side t'.2.2 ≤ 0 := H.side_le f hf _ (H.vertex g hg _ m2.2).2
  have z1 : f.side t'.1 = 0 := by
    have a := mul_nonpos_of_nonneg_of_nonpos (le_of_lt hτ0) hs'
    have b : (1 - τ) * f.side t'.1 = 0 := by
      have := mul_nonpos_of_nonneg_of_nonpos (by linarith : (0:Rat) ≤ 1 - τ) hp'
      linarith
    exact (mul_eq_zero.mp b).resolve_left (by linarith)
  have z2 : f.side t'.2.2 = 0 := by
    have a := mul_nonpos_of_nonneg_of_nonpos (by linarith : (0:Rat) ≤ 1 - τ) hp'
    have b : τ * f.side t'.2.2 = 0 := by
      have := mul_nonpos_of_nonneg_of_nonpos (le_of_lt hτ0) hs'
      linarith
    exact (mul_eq_zero.mp b).resolve_left (ne_of_gt hτ0)
  have z0 : f.side t'.2.1 = 0 := by rw [← hmid]; exact (H.vertex f hf _ hvf).1
  exact Eu.coplanar_of_corner H f g hf hg t' ht' z1 z0 z2

/-- **at most one ascending corner at a vertex**: two ascending corners with the same middle vertex belong to the
    same face and coincide -/
theorem Eu.asc_unique {B : Polyhedron} (H : Eu.Hyp B) (d : V3) (f g : Polygon) (hf : f ∈ B.faces)
    (hg : g ∈ B.faces) (t t' : V3 × V3 × V3) (ht : t ∈ Eu.cycTriples f.pts) (ht' : t' ∈ Eu.cycTriples g.pts)
    (hmid : t.2.1 = t'.2.1) (ha : Eu.amT d t = true) (ha' : Eu.amT d t' = true) : f = g ∧ t = t' := by
  have hP := H.proper
  have hfv := H.valid.faces_valid f hf
  have hgv := H.valid.faces_valid g hg
  simp only [Eu.amT, decide_eq_true_iff] at ha ha'
  have R := Eu.asc_ray f hfv d t ht ha.1 ha.2
  have R' := Eu.asc_ray g hgv d t' ht' ha'.1 ha'.2
  set y := Eu.chordPt d t
  set y' := Eu.chordPt d t'
  obtain ⟨e1, _, _, _, _, _⟩ := Eu.triple_facts f hfv t ht
  obtain ⟨e1', _, _, _, _, _⟩ := Eu.triple_facts g hgv t' ht'
  have hvf : t.2.1 ∈ f.pts := (closedPairs_mem _ _ e1).2
  have hvg : t'.2.1 ∈ g.pts := (closedPairs_mem _ _ e1').2
  set v := t.2.1 with hvd
  have fv := (H.vertex f hf v hvf).1
  have gv : g.side v = 0 := by rw [hmid]; exact (H.vertex g hg _ hvg).1
  obtain ⟨k, hk, hray⟩ := R.ray
  obtain ⟨k', hk', hray'⟩ := R'.ray
  rw [← hmid] at hray'
  -- each chord point passes the test of the other face
  have c1 : dot g.plane.n (cross f.plane.n d) ≤ 0 := by
    have h := H.side_le g hg y (hP.face_sub f hf y R.hull)
    have e : g.side y = k * dot g.plane.n (cross f.plane.n d) := by
      have : g.side y = dot g.plane.n (sub y v) := by rw [K4.side_diff, gv]; ring
      rw [this, hray]; simp only [dot, smul]; ring
    rw [e] at h
    by_contra hc
    have := mul_pos hk (not_le.mp hc)
    linarith
  have c2 : dot f.plane.n (cross g.plane.n d) ≤ 0 := by
    have h := H.side_le f hf y' (hP.face_sub g hg y' R'.hull)
    have e : f.side y' = k' * dot f.plane.n (cross g.plane.n d) := by
      have : f.side y' = dot f.plane.n (sub y' v) := by rw [K4.side_diff, fv]; ring
      rw [this, hray']; simp only [dot, smul]; ring
    rw [e] at h
    by_contra hc
    have := mul_pos hk' (not_le.mp hc)
    linarith
  rw [K4.triple_swap] at c2
  have c0 : dot g.plane.n (cross f.plane.n d) = 0 := by linarith
  have hcz : cross (cross g.plane.n d) (cross f.plane.n d) = zero := by
    rw [Eu.cross_cross, c0]; apply V3.ext' <;> simp [smul, zero]
  have hpar := exists_smul_of_cross_zero R.cross_ne hcz
  set c := dot (cross g.plane.n d) (cross f.plane.n d) / normSq (cross f.plane.n d) with hc
  -- y' - v = θ (y - v)
  have hθ : sub y' v = smul (k' * c / k) (sub y v) := by
    rw [hray', hray, hpar]
    apply V3.ext' <;> simp only [smul] <;> field_simp
  -- θ > 0 by exposedness of v
  obtain ⟨D, hD⟩ := hP.vertex_exposed f hf v hvf
  have hyv : y ≠ v := by
    intro h
    have h0 : sub y v = zero := sub_eq_zero_iff.mpr h
    rw [hray] at h0
    exact Eu.smul_ne_zero (ne_of_gt hk) R.cross_ne h0
  have hyv' : y' ≠ v := by
    intro h
    have h0 : sub y' v = zero := sub_eq_zero_iff.mpr h
    rw [hray'] at h0
    exact Eu.smul_ne_zero (ne_of_gt hk') R'.cross_ne h0
  have hDy : dot D y < dot D v :=
    (SameSet.hull_exposed (hP.hull y (hP.face_sub f hf y R.hull)) hD).resolve_left hyv
  have hDy' : dot D y' < dot D v :=
    (SameSet.hull_exposed (hP.hull y' (hP.face_sub g hg y' R'.hull)) hD).resolve_left hyv'
  set θ := k' * c / k with hθd
  have hθpos : 0 < θ := by
    have e : dot D y' - dot D v = θ * (dot D y - dot D v) := by
      have a1 : dot D y' - dot D v = dot D (sub y' v) := by simp only [dot, sub]; ring
      have a2 : dot D y - dot D v = dot D (sub y v) := by simp only [dot, sub]; ring
      rw [a1, a2, hθ]; simp only [dot, smul]; ring
    by_contra hcon
    have hcon := not_lt.mp hcon
    have : 0 ≤ θ * (dot D y - dot D v) := mul_nonneg_of_nonpos_of_nonpos hcon (by linarith)
    linarith
  have hsame : ∀ x, InHull f.pts x ↔ InHull g.pts x := by
    rcases le_or_gt θ 1 with h1 | h1
    · exact Eu.asc_unique_aux H d f g hf hg t t' ht' hmid y y' R R' hvf θ (le_of_lt hθpos) h1 hθ
    · have hθ' : sub y t'.2.1 = smul (1 / θ) (sub y' t'.2.1) := by
        rw [← hmid, hθ]
        apply V3.ext' <;> simp only [smul] <;> field_simp
      intro x
      exact (Eu.asc_unique_aux H d g f hg hf t' t ht hmid.symm y' y R' R hvg (1 / θ)
        (le_of_lt (div_pos one_pos hθpos)) (by rw [div_le_one hθpos]; exact le_of_lt h1) hθ' x).symm
  have hfg := Eu.face_eq_of_same_hull H f g hf hg hsame
  subst hfg
  exact ⟨rfl, Eu.cycTriples_mid_inj f.pts hfv.nodup t t' ht ht' hmid⟩
#print axioms Eu.asc_unique

end G3D
