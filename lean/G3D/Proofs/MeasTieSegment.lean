import G3D.Extracted.Mmeas
import G3D.Proofs.MeasTieBase
/-! # mmeas, `Segment.length`  (C06)
    `G3D.Extracted.m_Segment_length` is regenerated on every run by tools/extract_mmeas.py from the BODY of
    `Segment.length` (geometry/segment.py: `return self.start_point.distance(self.end_point)`).  When the body cannot be
    translated the generated file holds `m_Segment_length_EXTRACTION_FAILED` instead and this module stops compiling. -/
namespace G3D.MeasTie.Segment
open G3D G3D.MeasRt G3D.KTie G3D.Extracted G3D.MeasTie Real

section length
/-- on any two real end points: the Euclidean length of `end − start` -/
theorem m_Segment_length_real (s : MSegment) :
    m_Segment_length s = √(RVec.normSq (RVec.sub s.end_point s.start_point)) := by
  simp only [m_Segment_length, pointDistance]
  congr 1
  simp only [RVec.normSq, RVec.dot, RVec.sub]; ring

/-- **`Segment.length()` is the square root of the model's squared length** -/
theorem m_Segment_length_tie (s : Seg) : m_Segment_length (segToM s) = √((s.lenSq : ℚ) : ℝ) := by
  rw [m_Segment_length_real]
  simp only [segToM, Seg.lenSq]
  rw [toR_sub, toR_normSq]
end length

#print axioms m_Segment_length_real
#print axioms m_Segment_length_tie
end G3D.MeasTie.Segment
