import G3D.Model.VecR
import G3D.Proofs.Vec
import Mathlib.Tactic.Ring
import Mathlib.Tactic.Linarith
import Mathlib.Tactic.FieldSimp
import Mathlib.Tactic.Positivity
/-! Real triples (`RVec`) and the casts of the rational model vectors: the lemmas shared by the tie modules `KTie*r`,
    `KTieKdist`, `KTieKarea` (hand-written, independent of every generated file). -/
namespace G3D.KTie
open G3D

theorem RVec.ext' {a b : RVec} (hx : a.x = b.x) (hy : a.y = b.y) (hz : a.z = b.z) : a = b := by
  cases a; cases b; simp_all

theorem nsq_nonneg (a : RVec) : 0 ≤ RVec.normSq a := by
  simp only [RVec.normSq, RVec.dot]; nlinarith [mul_self_nonneg a.x, mul_self_nonneg a.y, mul_self_nonneg a.z]

theorem nsq_eq_zero {a : RVec} : RVec.normSq a = 0 ↔ a = RVec.zero := by
  constructor
  · intro h
    simp only [RVec.normSq, RVec.dot] at h
    apply RVec.ext' <;> simp only [RVec.zero] <;>
      nlinarith [mul_self_nonneg a.x, mul_self_nonneg a.y, mul_self_nonneg a.z]
  · rintro rfl; simp [RVec.normSq, RVec.dot, RVec.zero]

theorem nsq_pos {a : RVec} (h : a ≠ RVec.zero) : 0 < RVec.normSq a :=
  lt_of_le_of_ne (nsq_nonneg a) (fun e => h (nsq_eq_zero.mp e.symm))

theorem lagrangeR (a b : RVec) :
    RVec.normSq (RVec.cross a b) = RVec.normSq a * RVec.normSq b - (RVec.dot a b) ^ 2 := by
  simp only [RVec.normSq, RVec.dot, RVec.cross]; ring

/-- the form in which the code's `v * v` appears: `0 + x*x + y*y + z*z` -/
theorem sum0 (a : RVec) : (0 : ℝ) + a.x * a.x + a.y * a.y + a.z * a.z = RVec.normSq a := by
  simp only [RVec.normSq, RVec.dot]; ring

@[simp] theorem toR_x (a : V3) : a.toR.x = (a.x : ℝ) := rfl

@[simp] theorem toR_y (a : V3) : a.toR.y = (a.y : ℝ) := rfl

@[simp] theorem toR_z (a : V3) : a.toR.z = (a.z : ℝ) := rfl

theorem toR_dot (a b : V3) : RVec.dot a.toR b.toR = ((V3.dot a b : ℚ) : ℝ) := by
  simp only [RVec.dot, V3.dot, toR_x, toR_y, toR_z]; push_cast; ring

theorem toR_normSq (a : V3) : RVec.normSq a.toR = ((V3.normSq a : ℚ) : ℝ) := toR_dot a a

theorem toR_sub (a b : V3) : RVec.sub a.toR b.toR = (V3.sub a b).toR := by
  apply RVec.ext' <;> simp [RVec.sub, V3.sub]

theorem toR_add (a b : V3) : RVec.add a.toR b.toR = (V3.add a b).toR := by
  apply RVec.ext' <;> simp [RVec.add, V3.add]

theorem toR_cross (a b : V3) : RVec.cross a.toR b.toR = (V3.cross a b).toR := by
  apply RVec.ext' <;> simp [RVec.cross, V3.cross]

theorem toR_smul (k : ℚ) (a : V3) : RVec.smul (k : ℝ) a.toR = (V3.smul k a).toR := by
  apply RVec.ext' <;> simp [RVec.smul, V3.smul]

theorem toR_inj {a b : V3} : a.toR = b.toR ↔ a = b := by
  constructor
  · intro h
    have hx := congrArg RVec.x h; have hy := congrArg RVec.y h; have hz := congrArg RVec.z h
    simp only [toR_x, toR_y, toR_z, Rat.cast_inj] at hx hy hz
    exact V3.ext' hx hy hz
  · rintro rfl; rfl

theorem toR_zero : V3.zero.toR = RVec.zero := by apply RVec.ext' <;> simp [V3.zero, RVec.zero]

end G3D.KTie
