import G3D.Model.PyRtM
import G3D.Proofs.HandlersTieBase
import G3D.Proofs.Flat
import G3D.Proofs.HandlersTieShared
/-! Generic lemmas about the additions `G3D.Model.PyRtM` to the Python runtime, shared by the tie modules
    `MethodsTie{Flat,Polygon,Polyhedron}` (which do not import each other). -/
set_option linter.unusedSimpArgs false
set_option linter.unusedVariables false
namespace G3D.Tie
open V3 PyRt

/-- evaluates the runtime primitives of PyRt / PyRtM on constructor-headed arguments -/
macro "msimp" : tactic => `(tactic| simp [pyrt, ptObj, lnObj, plObj, sgObj, Val.ptSeq, Val.ptSet, pyFld, pyMeth_pv, pySub, pyAdd,
  pyEqM, pyNeM, pyEq, pyVectorZero, ofCtor, Self.empty, Self.ofLine, Self.ofPlane, Self.ofSeg, Self.ofHalfLine, Self.ofPolygon,
  Self.ofPyramid, pyPack_Line, pyPack_Plane, pyPack_Segment, pyPack_HalfLine, pyPack_ConvexPolygon, pyPack_Pyramid,
  pyAttrM_class_level, pyAttrM_x, pyAttrM_y, pyAttrM_z, pyMeth_in_, pyInM, pyContains, pyIn, pyPoint1, pyPoint3, pyAbs, pyFloat,
  pyDiv, pyCmpTol, tolEval, pyMeth_normalized, pyMeth_cross, pyMeth_orthogonal, pyMeth_normSq, pyDivLenSq, pySameDir, pyMulM, pyMul,
  pyNegM, pyIndexM, pySetItemM, pyGeo_parallel, toAObj?, parallelG, pyLineM, pyPlane2, pyPlane3, pySegmentM, pyHalfLineM,
  pyPyramid, pyMoveInPlace, pyMoveRet, Point.move, pyAttr_sv, pyAttr_dv, pyAttr_p, pyAttr_n, pyAttr_vector, pyAttr_center_point,
  pyCmp, CmpOp.evalInt, CmpOp.eval, Val.asRat?, Val.truthy, pyNot, pyVector, pyMeth_parallel])
macro "msimp" "[" ts:Lean.Parser.Tactic.simpLemma,* "]" : tactic =>
  `(tactic| simp [pyrt, ptObj, lnObj, plObj, sgObj, Val.ptSeq, Val.ptSet, pyFld, pyMeth_pv, pySub, pyAdd,
  pyEqM, pyNeM, pyEq, pyVectorZero, ofCtor, Self.empty, Self.ofLine, Self.ofPlane, Self.ofSeg, Self.ofHalfLine, Self.ofPolygon,
  Self.ofPyramid, pyPack_Line, pyPack_Plane, pyPack_Segment, pyPack_HalfLine, pyPack_ConvexPolygon, pyPack_Pyramid,
  pyAttrM_class_level, pyAttrM_x, pyAttrM_y, pyAttrM_z, pyMeth_in_, pyInM, pyContains, pyIn, pyPoint1, pyPoint3, pyAbs, pyFloat,
  pyDiv, pyCmpTol, tolEval, pyMeth_normalized, pyMeth_cross, pyMeth_orthogonal, pyMeth_normSq, pyDivLenSq, pySameDir, pyMulM, pyMul,
  pyNegM, pyIndexM, pySetItemM, pyGeo_parallel, toAObj?, parallelG, pyLineM, pyPlane2, pyPlane3, pySegmentM, pyHalfLineM,
  pyPyramid, pyMoveInPlace, pyMoveRet, Point.move, pyAttr_sv, pyAttr_dv, pyAttr_p, pyAttr_n, pyAttr_vector, pyAttr_center_point,
  pyCmp, CmpOp.evalInt, CmpOp.eval, Val.asRat?, Val.truthy, pyNot, pyVector, pyMeth_parallel, $ts,*])

@[pyrt] theorem pyFld_some (v : Val) : pyFld (some v) = .ok v := rfl
@[pyrt] theorem pyIsInstance_vec (v : V3) (t : PyTy) : pyIsInstance (.vec v) t = .bool (decide (t = .Vector)) := by cases t <;> rfl
@[pyrt] theorem pyIsInstance_bool (b : Bool) (t : PyTy) : pyIsInstance (.bool b) t = .bool false := by cases t <;> rfl
@[pyrt] theorem pyIsInstance_seq (l : List Obj) (t : PyTy) : pyIsInstance (.seq l) t = .bool false := by cases t <;> rfl

@[pyrt high] theorem pyAnd_bool (a b : Bool) : pyAnd (.ok (.bool a)) (.ok (.bool b)) = .ok (.bool (a && b)) := by cases a <;> rfl
@[pyrt high] theorem pyOr_bool (a b : Bool) : pyOr (.ok (.bool a)) (.ok (.bool b)) = .ok (.bool (a || b)) := by cases a <;> rfl

@[pyrt] theorem pyIsInstance_obj_vector (o : Obj) : pyIsInstance (.obj o) .Vector = .bool false := by
  rcases o with g | P | B
  · cases g <;> rfl
  · rfl
  · rfl

theorem abs_sub_tol (a b : Rat) : decide ((if a < b then b - a else a - b) ≤ 0) = (a - b == 0) := by
  rw [Bool.eq_iff_iff]
  simp only [decide_eq_true_eq, beq_iff_eq]
  split <;> constructor <;> intro h' <;> linarith

theorem abs_le_zero_iff (q : Rat) : ((if q < 0 then -q else q) ≤ 0) ↔ q = 0 := by
  split
  · constructor
    · intro h; linarith
    · intro h; linarith
  · constructor
    · intro h; linarith
    · intro h; linarith

theorem normSq_le_zero_iff (v : V3) : normSq v ≤ 0 ↔ v = zero := by
  rw [← normSq_eq_zero]
  constructor
  · intro h; exact le_antisymm h (normSq_nonneg v)
  · intro h; rw [h]

theorem add_right_inj' {a b v : V3} : add a v = add b v ↔ a = b := by
  constructor
  · intro h
    have hx := congrArg V3.x h; have hy := congrArg V3.y h; have hz := congrArg V3.z h
    simp only [add] at hx hy hz
    apply V3.ext' <;> linarith
  · intro h; rw [h]

theorem sub_add_add (a b v : V3) : sub (add b v) (add a v) = sub b a := by
  apply V3.ext' <;> simp [sub, add]

theorem sub_add_cancel_left' (a v : V3) : sub (add a v) a = v := by
  apply V3.ext' <;> simp [sub, add]

theorem neg_eq_zero_iff {v : V3} : neg v = zero ↔ v = zero := by
  constructor
  · intro h
    have hx := congrArg V3.x h; have hy := congrArg V3.y h; have hz := congrArg V3.z h
    simp only [neg, zero] at hx hy hz
    apply V3.ext' <;> simp [zero] <;> linarith
  · intro h; rw [h]; rfl

/-! ### loops -/


/-- a loop that never exits early and never fails is a fold -/
theorem forIn_yield {α σ : Type} (xs : List α) (f : σ → α → σ) (s : σ) :
    forIn xs s (fun x s => (Except.ok (ForInStep.yield (f s x)) : PyM (ForInStep σ))) = .ok (xs.foldl f s) := by
  induction xs generalizing s with
  | nil => rfl
  | cons x xs ih => simp [List.forIn_cons, ih]

/-- the three running sums of `_get_center_point` (`0` before the first point, a float afterwards) -/
def ctrRepr : Option V3 → Val × Val × Val
  | none => (.int 0, .int 0, .int 0)
  | some s => (.num s.x, .num s.y, .num s.z)

def ctrAdd (o : Option V3) (p : V3) : Option V3 := some (match o with | none => p | some s => add s p)

theorem ctrFold (ps : List V3) (s : V3) : ps.foldl ctrAdd (some s) = some (ps.foldl add s) := by
  induction ps generalizing s with
  | nil => rfl
  | cons p ps ih => simp [List.foldl_cons, ctrAdd, ih]

theorem zero_add' (p : V3) : add zero p = p := by apply V3.ext' <;> simp [add, zero]

theorem center_loop_body (p : V3) (o : Option V3) :
    (do let a ← pyAttrM_x ((Val.obj ∘ ptObj) p)
        let x ← pyAdd (ctrRepr o).1 a
        let b ← pyAttrM_y ((Val.obj ∘ ptObj) p)
        let y ← pyAdd (ctrRepr o).2.1 b
        let c ← pyAttrM_z ((Val.obj ∘ ptObj) p)
        (fun a => ForInStep.yield (x, y, a)) <$> pyAdd (ctrRepr o).2.2 c) =
      ForInStep.map' ctrRepr <$> (Except.ok (ForInStep.yield (ctrAdd o p)) : PyM _) := by
  cases o with
  | none => simp [ctrRepr, ctrAdd, ForInStep.map', pyAttrM_x, pyAttrM_y, pyAttrM_z, ptObj, pyAdd, Val.asRat?]
  | some s => simp [ctrRepr, ctrAdd, ForInStep.map', pyAttrM_x, pyAttrM_y, pyAttrM_z, ptObj, pyAdd, Val.asRat?, add]

theorem forIn_guard {α σ : Type} (xs : List α) (ok : α → Bool) (f : σ → α → σ) (e : BErr) (s : σ) :
    forIn xs s (fun x s => if ok x = true then (Except.ok (ForInStep.yield (f s x)) : PyM (ForInStep σ)) else .error e) =
      if xs.all ok = true then .ok (xs.foldl f s) else .error e := by
  induction xs generalizing s with
  | nil => simp
  | cons x xs ih =>
    by_cases h : ok x = true
    · simp [List.forIn_cons, h, ih]
    · simp [List.forIn_cons, h]

@[pyrt] theorem pyIndexM_ptSeq_zero (p : V3) (ps : List V3) :
    pyIndexM (.seq ((p :: ps).map ptObj)) (.int 0) = .ok (.obj (ptObj p)) := by
  simp [pyIndexM, pyIndex, normIdx]

@[pyrt] theorem pyIndexM_ptSeq_one (p q : V3) (ps : List V3) :
    pyIndexM (.seq ((p :: q :: ps).map ptObj)) (.int 1) = .ok (.obj (ptObj q)) := by
  simp [pyIndexM, pyIndex, normIdx]
@[pyrt] theorem pyIndexM_ptSeq_two (p q r : V3) (ps : List V3) :
    pyIndexM (.seq ((p :: q :: r :: ps).map ptObj)) (.int 2) = .ok (.obj (ptObj r)) := by
  simp [pyIndexM, pyIndex, normIdx]


theorem consec_getElem? : ∀ (l : List V3) (k : Nat) (a b : V3), (consec l)[k]? = some (a, b) →
    l[k]? = some a ∧ l[k + 1]? = some b := by
  intro l
  induction l with
  | nil => intro k a b h; simp [consec] at h
  | cons x l ih =>
    intro k a b h
    cases l with
    | nil => simp [consec] at h
    | cons y r =>
      cases k with
      | zero => simp [consec] at h; simp [h]
      | succ k =>
        simp only [consec, List.getElem?_cons_succ] at h
        have := ih k a b h
        simpa using this

theorem closedPairs_getElem? (pts : List V3) (k : Nat) (a b : V3) (h : (closedPairs pts)[k]? = some (a, b)) :
    pts[k]? = some a ∧ (if k + 1 = pts.length then pts[0]? = some b else pts[k + 1]? = some b) := by
  cases pts with
  | nil => simp [closedPairs] at h
  | cons p ps =>
    have hc : closedPairs (p :: ps) = consec ((p :: ps) ++ [p]) := rfl
    rw [hc] at h
    obtain ⟨h1, h2⟩ := consec_getElem? _ k a b h
    have hk : k < (p :: ps).length := by
      by_contra hge
      have : (p :: ps ++ [p]).length ≤ k + 1 := by simp at hge ⊢; omega
      rw [List.getElem?_eq_none this] at h2
      cases h2
    rw [List.getElem?_append_left hk] at h1
    refine ⟨h1, ?_⟩
    split
    · rename_i he
      rw [List.getElem?_append_right (by omega)] at h2
      simp [he] at h2
      simp [h2]
    · rename_i hne
      rw [List.getElem?_append_left (by omega)] at h2
      exact h2

theorem consec_length : ∀ l : List V3, (consec l).length = l.length - 1 := by
  intro l
  induction l with
  | nil => rfl
  | cons x l ih =>
    cases l with
    | nil => rfl
    | cons y r => simp only [consec, List.length_cons, ih]; omega

theorem closedPairs_length (pts : List V3) : (closedPairs pts).length = pts.length := by
  cases pts with
  | nil => rfl
  | cons p ps =>
    show (consec ((p :: ps) ++ [p])).length = _
    rw [consec_length]; simp

/-- a loop `for i in range(len(points))` that reads `points[i]` and `points[0 if i == len - 1 else i + 1]` is a loop over
    the cyclic edge list `closedPairs points` -/
theorem forIn_cyc {σ τ : Type} (pts : List V3) (repr : σ → τ)
    (body : Val → τ → PyM (ForInStep τ)) (step : V3 × V3 → σ → PyM (ForInStep σ))
    (h : ∀ (k : Nat) (a b : V3), (closedPairs pts)[k]? = some (a, b) → ∀ s,
      body (.int k) (repr s) = ForInStep.map' repr <$> step (a, b) s) :
    ∀ s, forIn ((intsFrom 0 pts.length).map Val.int) (repr s) body = repr <$> forIn (closedPairs pts) s step := by
  intro s
  have hm := map_snd_indexed (closedPairs pts) 0
  rw [closedPairs_length] at hm
  rw [← hm, forIn_repr (fun xi : (V3 × V3) × Int => Val.int xi.2) repr (indexed 0 (closedPairs pts)) body (fun xi => step xi.1)]
  · rw [forIn_indexed]
  · intro ⟨⟨a, b⟩, i⟩ hmem s
    obtain ⟨k, hk, hx⟩ := mem_indexed _ 0 _ i hmem
    have : i = (k : Int) := by omega
    subst this
    exact h k a b hx s

theorem pyIndexM_ptSeq_nat (pts : List V3) (k : Nat) (a : V3) (h : pts[k]? = some a) :
    pyIndexM (.seq (pts.map ptObj)) (.int (k : Int)) = .ok (.obj (ptObj a)) := by
  have := pyIndex_seq_nat (pts.map ptObj) k (ptObj a) (by simp [h])
  simpa [pyIndexM] using this

theorem forIn_append_mapM {α β : Type} (xs : List α) (f : α → PyM β) (acc : List β) :
    forIn xs acc (fun x acc => do let y ← f x; pure (ForInStep.yield (acc ++ [y]))) = (fun ys => acc ++ ys) <$> xs.mapM f := by
  induction xs generalizing acc with
  | nil => simp
  | cons x xs ih =>
    rw [List.forIn_cons, List.mapM_cons]
    cases hfx : f x with
    | error e => rfl
    | ok y =>
      show forIn xs (acc ++ [y]) (fun x acc => do let y ← f x; pure (ForInStep.yield (acc ++ [y]))) = _
      rw [ih]
      cases xs.mapM f with
      | error e => rfl
      | ok ys => show Except.ok ((acc ++ [y]) ++ ys) = Except.ok (acc ++ (y :: ys)); simp

theorem liftC_mapM {α β : Type} (xs : List α) (g : α → Except CErr β) :
    liftC (xs.mapM g) = xs.mapM (fun x => liftC (g x)) := by
  induction xs with
  | nil => rfl
  | cons x xs ih =>
    simp only [List.mapM_cons]
    cases hx : g x with
    | error e => simp [liftC]
    | ok y =>
      rw [← ih]
      cases xs.mapM g <;> simp [liftC]

/-- the round of the cyclic index arithmetic, both branches -/
theorem cyc_index (pts : List V3) (k : Nat) (a b : V3) (h : (closedPairs pts)[k]? = some (a, b)) :
    pyIndexM (.seq (pts.map ptObj)) (.int (k : Int)) = .ok (.obj (ptObj a)) ∧
    (((k : Int) = (pts.length : Int) - 1 ∧ pyIndexM (.seq (pts.map ptObj)) (.int 0) = .ok (.obj (ptObj b))) ∨
     (¬ (k : Int) = (pts.length : Int) - 1 ∧ pyIndexM (.seq (pts.map ptObj)) (.int ((k : Int) + 1)) = .ok (.obj (ptObj b)))) := by
  obtain ⟨h1, h2⟩ := closedPairs_getElem? pts k a b h
  refine ⟨pyIndexM_ptSeq_nat pts k a h1, ?_⟩
  by_cases hk : k + 1 = pts.length
  · left
    rw [if_pos hk] at h2
    exact ⟨by omega, by simpa using pyIndexM_ptSeq_nat pts 0 b h2⟩
  · right
    rw [if_neg hk] at h2
    exact ⟨by omega, by simpa using pyIndexM_ptSeq_nat pts (k + 1) b h2⟩

/-- a loop that leaves with `False` at the first failing element is `all` -/
theorem forIn_all {α : Type} (xs : List α) (bad : α → Bool) (r : Bool) :
    forIn xs r (fun x r => if bad x = true then (Except.ok (ForInStep.done false) : PyM (ForInStep Bool)) else .ok (.yield r)) =
      .ok (if xs.any bad = true then false else r) := by
  induction xs generalizing r with
  | nil => simp
  | cons x xs ih =>
    by_cases h : bad x = true
    · simp [List.forIn_cons, h]
    · simp [List.forIn_cons, h, ih]

/-! ### early `return` inside a `for`, membership in a list of points -/
/-- `for x in xs: if not ok(x): return v` as compiled by `do` (early-return state `(some v, ())`) -/
theorem forIn_return {α β : Type} (xs : List α) (ok : α → Prop) [DecidablePred ok] (v : β) :
    forIn xs ((none : Option β), ()) (fun x _ => if ok x then (Except.ok (ForInStep.yield (none, ())) : PyM (ForInStep (Option β × Unit)))
        else Except.ok (ForInStep.done (some v, ()))) = .ok (if ∀ x ∈ xs, ok x then (none, ()) else (some v, ())) := by
  induction xs with
  | nil => simp
  | cons x xs ih =>
    by_cases h : ok x
    · simp [List.forIn_cons, h, ih]
    · simp [List.forIn_cons, h]

/-- the same with the test in the other polarity: `for x in xs: if bad(x): return v` -/
theorem forIn_return' {α β : Type} (xs : List α) (bad : α → Prop) [DecidablePred bad] (v : β) :
    forIn xs ((none : Option β), ()) (fun x _ => if bad x then (Except.ok (ForInStep.done (some v, ())) : PyM (ForInStep (Option β × Unit)))
        else Except.ok (ForInStep.yield (none, ()))) = .ok (if ∃ x ∈ xs, bad x then (some v, ()) else (none, ())) := by
  induction xs with
  | nil => simp
  | cons x xs ih =>
    by_cases h : bad x
    · simp [List.forIn_cons, h]
    · simp [List.forIn_cons, h, ih]

theorem pyInM_pt_seq (a : V3) (ps : List V3) :
    pyInM (Val.obj (ptObj a)) (Val.seq (ps.map ptObj)) = .ok (.bool (decide (a ∈ ps))) := by
  have h : (ps.map ptObj).any (objSame (ptObj a) ·) = decide (a ∈ ps) := by
    induction ps with
    | nil => simp
    | cons p ps ih =>
      simp only [List.map_cons, List.any_cons, ih, List.mem_cons, Bool.decide_or]
      simp [objSame, ptObj, beq_iff_eq]
      by_cases hp : a = p <;> simp [hp]
  simp only [pyInM, ptObj, objHashable] at h ⊢
  simp [h]

end G3D.Tie
