import G3D.Proofs.FlatPolygon
/-! C03, polygon × polygon with non-coplanar carrier planes: exact (from K1 and C01).
    Parallel distinct planes: `None`, exact.  The coplanar case is kernel K2 (unproved). -/
namespace G3D
open V3

theorem interPolygonPolygon_noncoplanar_exact (a b : Polygon) (ha : a.Valid) (hb : b.Valid)
    (hne : a.plane.eqv b.plane = false) :
    ExactB (interPolygonPolygon a b) (InHull a.pts) (InHull b.pts) := by
  have haW := Polygon.plane_WF a ha
  have hbW := Polygon.plane_WF b hb
  have hina := Polygon.hull_in_plane a ha
  have hinb := Polygon.hull_in_plane b hb
  obtain ⟨o, ho, hw, hd⟩ := interPlanePlane_exact a.plane b.plane haW hbW
  have hshape := interPlanePlane_shape a.plane b.plane haW hbW o ho
  unfold interPolygonPolygon
  rw [ho]
  rcases hshape with rfl | ⟨_, heq⟩ | ⟨L, rfl, hL⟩
  · -- parallel, distinct planes
    refine ⟨none, rfl, fun x => ?_⟩
    simp only [denOptB, false_iff]
    rintro ⟨hxa, hxb⟩
    exact (hd x).mpr ⟨hina x hxa, hinb x hxb⟩
  · rw [heq] at hne; cases hne
  · -- crossing planes: both polygons are cut by the common line
    have hLden : ∀ x, L.den x ↔ (a.plane.den x ∧ b.plane.den x) := fun x => hd x
    obtain ⟨oa, hoa, hwa, hda⟩ := interLinePolygon_exact L hL a ha
    obtain ⟨ob, hob, hwb, hdb⟩ := interLinePolygon_exact L hL b hb
    simp only
    rw [hoa, hob]
    have key : ∀ x, (InHull a.pts x ∧ InHull b.pts x) ↔ ((L.den x ∧ InHull a.pts x) ∧ (L.den x ∧ InHull b.pts x)) := by
      intro x
      constructor
      · rintro ⟨h1, h2⟩
        have := (hLden x).mpr ⟨hina x h1, hinb x h2⟩
        exact ⟨⟨this, h1⟩, ⟨this, h2⟩⟩
      · rintro ⟨⟨_, h1⟩, ⟨_, h2⟩⟩; exact ⟨h1, h2⟩
    rcases ObjFlatWF_cases oa hwa with rfl | ⟨qa, rfl⟩ | ⟨sa, rfl, hsa⟩
    · refine ⟨none, rfl, fun x => ?_⟩
      simp only [denOptB, false_iff]
      rintro ⟨h1, h2⟩
      have := ((key x).mp ⟨h1, h2⟩).1
      exact (hda x).mpr this
    all_goals
      rcases ObjFlatWF_cases ob hwb with rfl | ⟨qb, rfl⟩ | ⟨sb, rfl, hsb⟩
    · refine ⟨none, rfl, fun x => ?_⟩
      simp only [denOptB, false_iff]
      rintro ⟨h1, h2⟩
      exact (hdb x).mpr ((key x).mp ⟨h1, h2⟩).2
    · have := ExactB_of_liftFlat (interFlat_exact (.point qa) (.point qb) trivial trivial)
      obtain ⟨o', ho', hd'⟩ := this
      refine ⟨o', ho', fun x => ?_⟩
      rw [hd' x, key x]
      exact and_congr (hda x) (hdb x)
    · have := ExactB_of_liftFlat (interFlat_exact (.point qa) (.seg sb) trivial hsb)
      obtain ⟨o', ho', hd'⟩ := this
      refine ⟨o', ho', fun x => ?_⟩
      rw [hd' x, key x]
      exact and_congr (hda x) (hdb x)
    · refine ⟨none, rfl, fun x => ?_⟩
      simp only [denOptB, false_iff]
      rintro ⟨h1, h2⟩
      exact (hdb x).mpr ((key x).mp ⟨h1, h2⟩).2
    · have := ExactB_of_liftFlat (interFlat_exact (.seg sa) (.point qb) hsa trivial)
      obtain ⟨o', ho', hd'⟩ := this
      refine ⟨o', ho', fun x => ?_⟩
      rw [hd' x, key x]
      exact and_congr (hda x) (hdb x)
    · have := ExactB_of_liftFlat (interFlat_exact (.seg sa) (.seg sb) hsa hsb)
      obtain ⟨o', ho', hd'⟩ := this
      refine ⟨o', ho', fun x => ?_⟩
      rw [hd' x, key x]
      exact and_congr (hda x) (hdb x)
end G3D
