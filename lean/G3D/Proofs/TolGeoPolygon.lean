import G3D.Model.TolGeoPolygon
import G3D.Proofs.TolGeoPlane
import Mathlib.Tactic.LinearCombination

/-! C19 for `ConvexPolygon.__contains__(Point)` under a perturbation of the vertices by ≤ eps/1000 per coordinate.

    What is proved (sup-norm estimates, explicit numeric side conditions `hplane`, `hedge`):
    * every point that satisfies the EXACT membership conditions of the original polygon (on the plane, on the inner side of
      every edge) — in particular every vertex and the centre — is accepted by the perturbed polygon;
    * a point that violates an exact edge condition by more than `2·eps` is rejected by the perturbed polygon.
    Assumed, not proved: the perturbed polygon lists its (perturbed) vertices in the same cyclic order as the original
    (`_check_and_sort_points` sorts by `atan2` about the centre; the order is stable as long as the angular gaps
    exceed the perturbation).  The raw normal of the perturbed plane is allowed to move by `g·eps/1000` per coordinate;
    `cross_closeBy` gives `g = 8E + 1` for the three-point constructor. -/
namespace G3D.TolGeo
open R3

/-! ### triple products in the sup norm -/

theorem abs_mul_le_mul {a b A B : ℝ} (ha : |a| ≤ A) (hb : |b| ≤ B) : |a * b| ≤ A * B := by
  rw [abs_mul]; exact mul_le_mul ha hb (abs_nonneg _) (le_trans (abs_nonneg _) ha)

theorem cross_coord_le {b c : R3} {B C : ℝ} (hb : |b.x| ≤ B ∧ |b.y| ≤ B ∧ |b.z| ≤ B)
    (hc : |c.x| ≤ C ∧ |c.y| ≤ C ∧ |c.z| ≤ C) :
    |(cross b c).x| ≤ 2 * (B * C) ∧ |(cross b c).y| ≤ 2 * (B * C) ∧ |(cross b c).z| ≤ 2 * (B * C) := by
  refine ⟨?_, ?_, ?_⟩ <;> simp only [cross]
  · have h1 := abs_mul_le_mul hb.2.1 hc.2.2
    have h2 := abs_mul_le_mul hb.2.2 hc.2.1
    have := abs_sub (b.y * c.z) (b.z * c.y); linarith
  · have h1 := abs_mul_le_mul hb.2.2 hc.1
    have h2 := abs_mul_le_mul hb.1 hc.2.2
    have := abs_sub (b.z * c.x) (b.x * c.z); linarith
  · have h1 := abs_mul_le_mul hb.1 hc.2.1
    have h2 := abs_mul_le_mul hb.2.1 hc.1
    have := abs_sub (b.x * c.y) (b.y * c.x); linarith

/-- `|a·(b×c)| ≤ 6·A·B·C` for coordinate bounds `A, B, C` -/
theorem triple_le {a b c : R3} {A B C : ℝ} (ha : |a.x| ≤ A ∧ |a.y| ≤ A ∧ |a.z| ≤ A)
    (hb : |b.x| ≤ B ∧ |b.y| ≤ B ∧ |b.z| ≤ B) (hc : |c.x| ≤ C ∧ |c.y| ≤ C ∧ |c.z| ≤ C) :
    |dot a (cross b c)| ≤ 6 * (A * (B * C)) := by
  obtain ⟨c1, c2, c3⟩ := cross_coord_le hb hc
  have := abs_dot_le_of_coord ha.1 ha.2.1 ha.2.2 c1 c2 c3
  linarith

theorem triple_diff (a a' n n' w w' : R3) :
    dot a' (cross n' w') - dot a (cross n w)
      = dot (sub a' a) (cross n' w') + dot a (cross (sub n' n) w') + dot a (cross n (sub w' w)) := by
  simp only [dot, cross, sub]; ring

/-- the edge quantity `vec·(n × v0)` moves by at most `6(δ·E₁ + R·Δ·E₁ + 2Rδ)` -/
theorem edge_perturb {a a' n n' w w' : R3} {R δ Δ E₁ : ℝ}
    (ha : |a.x| ≤ R ∧ |a.y| ≤ R ∧ |a.z| ≤ R)
    (hda : |(sub a' a).x| ≤ δ ∧ |(sub a' a).y| ≤ δ ∧ |(sub a' a).z| ≤ δ)
    (hn : |n.x| ≤ 1 ∧ |n.y| ≤ 1 ∧ |n.z| ≤ 1) (hn' : |n'.x| ≤ 1 ∧ |n'.y| ≤ 1 ∧ |n'.z| ≤ 1)
    (hdn : |(sub n' n).x| ≤ Δ ∧ |(sub n' n).y| ≤ Δ ∧ |(sub n' n).z| ≤ Δ)
    (hw' : |w'.x| ≤ E₁ ∧ |w'.y| ≤ E₁ ∧ |w'.z| ≤ E₁)
    (hdw : |(sub w' w).x| ≤ 2 * δ ∧ |(sub w' w).y| ≤ 2 * δ ∧ |(sub w' w).z| ≤ 2 * δ) :
    |dot a' (cross n' w') - dot a (cross n w)|
      ≤ 6 * (δ * (1 * E₁)) + 6 * (R * (Δ * E₁)) + 6 * (R * (1 * (2 * δ))) := by
  rw [triple_diff]
  have t1 := triple_le hda hn' hw'
  have t2 := triple_le ha hdn hw'
  have t3 := triple_le ha hn hdw
  have s1 := abs_add_le (dot (sub a' a) (cross n' w') + dot a (cross (sub n' n) w')) (dot a (cross n (sub w' w)))
  have s2 := abs_add_le (dot (sub a' a) (cross n' w')) (dot a (cross (sub n' n) w'))
  linarith

/-! ### normalisation -/

/-- `self.plane.n.normalized()` on the already normalised stored normal changes nothing -/
theorem normalized_idem {r : R3} (hr : 0 < dot r r) : normalized (normalized r) = normalized r := by
  have h1 : len (normalized r) = 1 := by
    unfold len; rw [normalized_dot_self hr]; exact Real.sqrt_one
  have : normalized (normalized r) = smul (1 / len (normalized r)) (normalized r) := rfl
  rw [this, h1]
  ext <;> simp [smul]

/-- unit normals of raw normals that are γ-close, raw length ≥ ρ ≥ 26γ: each coordinate within (13/4)·γ/ρ -/
theorem normalized_closeBy_gen {r r' : R3} {γ ρ : ℝ} (hρ : 0 < ρ) (hr : ρ * ρ ≤ dot r r) (hγ : 26 * γ ≤ ρ)
    (hr' : 0 < dot r' r') (h : closeBy γ r r') :
    closeBy (13 / 4 * γ / ρ) (normalized r) (normalized r') := by
  have hγ0 : 0 ≤ γ := le_trans (abs_nonneg _) h.1
  obtain ⟨h1, h2, h3⟩ := normalized_close (lt_of_lt_of_le (mul_pos hρ hρ) hr) hr' h.1 h.2.1 h.2.2
  have hL : ρ ≤ len r := le_len hρ.le hr
  have hLL := len_close h.1 h.2.1 h.2.2
  have hL' : 12 / 13 * ρ ≤ len r' := by
    have := (abs_le.mp hLL).1
    linarith
  refine ⟨?_, ?_, ?_⟩ <;> rw [le_div_iff₀ hρ]
  · nlinarith [abs_nonneg ((normalized r').x - (normalized r).x)]
  · nlinarith [abs_nonneg ((normalized r').y - (normalized r).y)]
  · nlinarith [abs_nonneg ((normalized r').z - (normalized r).z)]

/-- point test of a perturbed plane, general form: support within δ, unit normals within Δ, `3RΔ + 3δ < eps` -/
theorem Plane.containsT_of_close_gen {eps δ Δ R : ℝ} {p p' r r' x : R3}
    (hp : closeBy δ p p') (hc : closeBy Δ (normalized r) (normalized r')) (hr' : 0 < dot r' r')
    (hon : dot (sub x p) r = 0)
    (hx : |(sub x p).x| ≤ R ∧ |(sub x p).y| ≤ R ∧ |(sub x p).z| ≤ R)
    (hnum : 3 * (R * Δ) + 3 * (δ * 1) < eps) :
    Plane.containsT eps (Plane.ofPN p' r') x := by
  have hn' := normalized_coord_le hr'
  unfold Plane.containsT Plane.ofPN
  simp only
  have e : dot x (normalized r') - dot p' (normalized r')
      = dot (sub x p) (sub (normalized r') (normalized r)) + dot (sub x p) (normalized r)
        + dot (sub p p') (normalized r') := by
    simp only [dot, sub]; ring
  have e0 : dot (sub x p) (normalized r) = 0 := by
    have : dot (sub x p) (normalized r) = 1 / len r * dot (sub x p) r := by
      simp only [dot, normalized, smul]; ring
    rw [this, hon, mul_zero]
  rw [e, e0, add_zero]
  have b1 := abs_dot_le_of_coord hx.1 hx.2.1 hx.2.2 hc.sub_coord.1 hc.sub_coord.2.1 hc.sub_coord.2.2
  obtain ⟨a1, a2, a3⟩ := hp.symm.sub_coord
  have b2 := abs_dot_le_of_coord a1 a2 a3 hn'.1 hn'.2.1 hn'.2.2
  have b3 := abs_add_le (dot (sub x p) (sub (normalized r') (normalized r))) (dot (sub p p') (normalized r'))
  linarith

/-- `X·ρ ≤ δ·K`, `K ≤ c·ρ` ⇒ `X ≤ c·δ` -/
theorem num_step {X δ ρ K c : ℝ} (hρ : 0 < ρ) (hδ : 0 ≤ δ) (h : X * ρ ≤ δ * K) (hK : K ≤ c * ρ) :
    X ≤ c * δ := by
  have h1 : δ * K ≤ δ * (c * ρ) := mul_le_mul_of_nonneg_left hK hδ
  have h2 : X * ρ ≤ (c * δ) * ρ := by linarith
  exact le_of_mul_le_mul_right h2 hρ

/-! ### the polygon -/

section poly
variable {n : Nat} {eps E R ρ g : ℝ} {p p' r r' x : R3} {P P' : Fin n → R3}

/-- the common estimate: every edge quantity of the perturbed polygon is within `999·eps/1000` of the original one -/
theorem Polygon.edgeVal_close (heps : 0 < eps) (heps1 : eps ≤ 1)
    (hr : closeBy (g * (eps / 1000)) r r') (hP : ∀ i, closeBy (eps / 1000) (P i) (P' i))
    (hρ : 0 < ρ) (hρr : ρ * ρ ≤ dot r r) (hg : 26 * (g * (eps / 1000)) ≤ ρ)
    (hxP : ∀ i, |(sub x (P i)).x| ≤ R ∧ |(sub x (P i)).y| ≤ R ∧ |(sub x (P i)).z| ≤ R)
    (hE : ∀ i, |(sub (P (nextIdx i)) (P i)).x| ≤ E ∧ |(sub (P (nextIdx i)) (P i)).y| ≤ E ∧
      |(sub (P (nextIdx i)) (P i)).z| ≤ E)
    (hedge : 6 * ((E + 1 / 100) * ρ + 13 / 4 * R * g * (E + 1 / 100) + 2 * R * ρ) ≤ 999 * ρ) (i : Fin n) :
    |(⟨Plane.ofPN p' r', P'⟩ : Polygon n).edgeVal i x - (⟨Plane.ofPN p r, P⟩ : Polygon n).edgeVal i x|
      ≤ 999 * (eps / 1000) := by
  have hδ : 0 < eps / 1000 := by linarith
  have hγ0 : 0 ≤ g * (eps / 1000) := le_trans (abs_nonneg _) hr.1
  have hrpos : 0 < dot r r := lt_of_lt_of_le (mul_pos hρ hρ) hρr
  have hr'pos : 0 < dot r' r' :=
    (dot_pos_of_close (c := ρ * ρ / 4) (by nlinarith) (by positivity) hr).2
  have hc := normalized_closeBy_gen hρ hρr hg hr'pos hr
  have hΔ : 13 / 4 * (g * (eps / 1000)) / ρ * ρ = 13 / 4 * (g * (eps / 1000)) := by
    field_simp
  unfold Polygon.edgeVal Plane.ofPN
  simp only
  rw [normalized_idem hrpos, normalized_idem hr'pos]
  have hdw := ((hP i).sub (hP (nextIdx i))).sub_coord
  have hw' : |(sub (P' (nextIdx i)) (P' i)).x| ≤ E + 1 / 100 ∧ |(sub (P' (nextIdx i)) (P' i)).y| ≤ E + 1 / 100 ∧
      |(sub (P' (nextIdx i)) (P' i)).z| ≤ E + 1 / 100 := by
    have m : ∀ a b : ℝ, |a| ≤ E → |b - a| ≤ 2 * (eps / 1000) → |b| ≤ E + 1 / 100 := by
      intro a b ha hb
      have : b = a + (b - a) := by ring
      rw [this]
      have := abs_add_le a (b - a)
      linarith
    exact ⟨m _ _ (hE i).1 hdw.1, m _ _ (hE i).2.1 hdw.2.1, m _ _ (hE i).2.2 hdw.2.2⟩
  have hda : |(sub (sub x (P' i)) (sub x (P i))).x| ≤ eps / 1000 ∧
      |(sub (sub x (P' i)) (sub x (P i))).y| ≤ eps / 1000 ∧
      |(sub (sub x (P' i)) (sub x (P i))).z| ≤ eps / 1000 := by
    obtain ⟨q1, q2, q3⟩ := hP i
    refine ⟨?_, ?_, ?_⟩ <;> simp only [sub]
    · have : x.x - (P' i).x - (x.x - (P i).x) = -((P' i).x - (P i).x) := by ring
      rw [this, abs_neg]; exact q1
    · have : x.y - (P' i).y - (x.y - (P i).y) = -((P' i).y - (P i).y) := by ring
      rw [this, abs_neg]; exact q2
    · have : x.z - (P' i).z - (x.z - (P i).z) = -((P' i).z - (P i).z) := by ring
      rw [this, abs_neg]; exact q3
  have key := edge_perturb (hxP i) hda (normalized_coord_le hrpos) (normalized_coord_le hr'pos)
    hc.sub_coord hw' hdw
  refine le_trans key ?_
  refine num_step (K := 6 * ((E + 1 / 100) * ρ + 13 / 4 * R * g * (E + 1 / 100) + 2 * R * ρ)) hρ hδ.le ?_ hedge
  apply le_of_eq
  linear_combination (6 * R * (E + 1 / 100)) * hΔ

/-- **Acceptance.**  Every point `x` that satisfies the exact membership conditions of the original polygon (plane through
    `p` with raw normal `r`, `|r| ≥ ρ`; `x` on the inner side of every edge) is accepted by the perturbed polygon.
    `R` bounds the coordinates of `x − p` and `x − P i`, `E` those of the edges; `g·eps/1000` the move of the raw normal. -/
theorem Polygon.containsT_of_close (heps : 0 < eps) (heps1 : eps ≤ 1)
    (hp : closeBy (eps / 1000) p p') (hr : closeBy (g * (eps / 1000)) r r')
    (hP : ∀ i, closeBy (eps / 1000) (P i) (P' i))
    (hρ : 0 < ρ) (hρr : ρ * ρ ≤ dot r r) (hg : 26 * (g * (eps / 1000)) ≤ ρ)
    (hon : dot (sub x p) r = 0)
    (hxp : |(sub x p).x| ≤ R ∧ |(sub x p).y| ≤ R ∧ |(sub x p).z| ≤ R)
    (hxP : ∀ i, |(sub x (P i)).x| ≤ R ∧ |(sub x (P i)).y| ≤ R ∧ |(sub x (P i)).z| ≤ R)
    (hE : ∀ i, |(sub (P (nextIdx i)) (P i)).x| ≤ E ∧ |(sub (P (nextIdx i)) (P i)).y| ≤ E ∧
      |(sub (P (nextIdx i)) (P i)).z| ≤ E)
    (hin : ∀ i, 0 ≤ (⟨Plane.ofPN p r, P⟩ : Polygon n).edgeVal i x)
    (hplane : 39 / 4 * R * g + 3 * ρ < 1000 * ρ)
    (hedge : 6 * ((E + 1 / 100) * ρ + 13 / 4 * R * g * (E + 1 / 100) + 2 * R * ρ) ≤ 999 * ρ) :
    Polygon.containsT eps (⟨Plane.ofPN p' r', P'⟩ : Polygon n) x := by
  have hδ : 0 < eps / 1000 := by linarith
  have hγ0 : 0 ≤ g * (eps / 1000) := le_trans (abs_nonneg _) hr.1
  have hrpos : 0 < dot r r := lt_of_lt_of_le (mul_pos hρ hρ) hρr
  have hr'pos : 0 < dot r' r' :=
    (dot_pos_of_close (c := ρ * ρ / 4) (by nlinarith) (by positivity) hr).2
  have hc := normalized_closeBy_gen hρ hρr hg hr'pos hr
  have hΔ : 13 / 4 * (g * (eps / 1000)) / ρ * ρ = 13 / 4 * (g * (eps / 1000)) := by
    field_simp
  constructor
  · refine Plane.containsT_of_close_gen hp hc hr'pos hon hxp ?_
    -- (3RΔ + 3δ)·ρ = δ·(39/4·R·g + 3ρ) < δ·1000ρ
    have h1 : (3 * (R * (13 / 4 * (g * (eps / 1000)) / ρ)) + 3 * (eps / 1000 * 1)) * ρ
        = eps / 1000 * (39 / 4 * R * g + 3 * ρ) := by
      linear_combination (3 * R) * hΔ
    have h2 : eps / 1000 * (39 / 4 * R * g + 3 * ρ) < eps / 1000 * (1000 * ρ) :=
      mul_lt_mul_of_pos_left hplane hδ
    have h3 : (3 * (R * (13 / 4 * (g * (eps / 1000)) / ρ)) + 3 * (eps / 1000 * 1)) * ρ < eps * ρ := by
      rw [h1]; linarith
    exact lt_of_mul_lt_mul_right h3 hρ.le
  · intro i hlt
    have hcl := Polygon.edgeVal_close (p := p) (p' := p') heps heps1 hr hP hρ hρr hg hxP hE hedge i
    have := (abs_le.mp hcl).1
    have := hin i
    linarith

/-- **Rejection.**  A point that violates the exact condition of some edge of the original polygon by more than `2·eps`
    is rejected by the perturbed polygon. -/
theorem Polygon.not_containsT_of_close (heps : 0 < eps) (heps1 : eps ≤ 1)
    (hr : closeBy (g * (eps / 1000)) r r') (hP : ∀ i, closeBy (eps / 1000) (P i) (P' i))
    (hρ : 0 < ρ) (hρr : ρ * ρ ≤ dot r r) (hg : 26 * (g * (eps / 1000)) ≤ ρ)
    (hxP : ∀ i, |(sub x (P i)).x| ≤ R ∧ |(sub x (P i)).y| ≤ R ∧ |(sub x (P i)).z| ≤ R)
    (hE : ∀ i, |(sub (P (nextIdx i)) (P i)).x| ≤ E ∧ |(sub (P (nextIdx i)) (P i)).y| ≤ E ∧
      |(sub (P (nextIdx i)) (P i)).z| ≤ E)
    (hedge : 6 * ((E + 1 / 100) * ρ + 13 / 4 * R * g * (E + 1 / 100) + 2 * R * ρ) ≤ 999 * ρ)
    (hout : ∃ i, (⟨Plane.ofPN p r, P⟩ : Polygon n).edgeVal i x < -(2 * eps)) :
    ¬ Polygon.containsT eps (⟨Plane.ofPN p' r', P'⟩ : Polygon n) x := by
  rintro ⟨_, hall⟩
  obtain ⟨i, hi⟩ := hout
  apply hall i
  have hcl := Polygon.edgeVal_close (p := p) (p' := p') heps heps1 hr hP hρ hρr hg hxP hE hedge i
  have := (abs_le.mp hcl).2
  linarith

end poly

/-! ### the raw normal of the three-point constructor -/

theorem cross_coord_close {u1 u2 v1 v2 g1 g2 h1 h2 E d : ℝ} (hu1 : |u1| ≤ E) (hu2 : |u2| ≤ E)
    (hv1 : |v1| ≤ E) (hv2 : |v2| ≤ E) (hg1 : |g1| ≤ d) (hg2 : |g2| ≤ d) (hh1 : |h1| ≤ d) (hh2 : |h2| ≤ d) :
    |((u1 + g1) * (v2 + h2) - (u2 + g2) * (v1 + h1)) - (u1 * v2 - u2 * v1)| ≤ 4 * (E * d) + 2 * (d * d) := by
  have e : ((u1 + g1) * (v2 + h2) - (u2 + g2) * (v1 + h1)) - (u1 * v2 - u2 * v1)
      = (u1 * h2 + g1 * v2 + g1 * h2) - (u2 * h1 + g2 * v1 + g2 * h1) := by ring
  rw [e]
  have a1 := abs_mul_le_mul hu1 hh2
  have a2 := abs_mul_le_mul hg1 hv2
  have a3 := abs_mul_le_mul hg1 hh2
  have a4 := abs_mul_le_mul hu2 hh1
  have a5 := abs_mul_le_mul hg2 hv1
  have a6 := abs_mul_le_mul hg2 hh1
  have s0 := abs_sub (u1 * h2 + g1 * v2 + g1 * h2) (u2 * h1 + g2 * v1 + g2 * h1)
  have s1 := abs_add_three (u1 * h2) (g1 * v2) (g1 * h2)
  have s2 := abs_add_three (u2 * h1) (g2 * v1) (g2 * h1)
  nlinarith

/-- `Plane(a, b, c)`: if the two spanning vectors `u = b − a`, `v = c − a` (coordinates ≤ E) move by ≤ d per
    coordinate, the raw normal `u × v` moves by ≤ `4Ed + 2d²`; with `d = 2·eps/1000` this is ≤ `(8E + 1)·eps/1000` -/
theorem cross_closeBy {u u' v v' : R3} {E d : ℝ} (hu : |u.x| ≤ E ∧ |u.y| ≤ E ∧ |u.z| ≤ E)
    (hv : |v.x| ≤ E ∧ |v.y| ≤ E ∧ |v.z| ≤ E) (hu' : closeBy d u u') (hv' : closeBy d v v') :
    closeBy (4 * (E * d) + 2 * (d * d)) (cross u v) (cross u' v') := by
  have ex : ∀ a b : ℝ, b = a + (b - a) := fun a b => by ring
  refine ⟨?_, ?_, ?_⟩ <;> simp only [cross]
  · rw [ex u.y u'.y, ex u.z u'.z, ex v.y v'.y, ex v.z v'.z]
    exact cross_coord_close hu.2.1 hu.2.2 hv.2.1 hv.2.2 hu'.2.1 hu'.2.2 hv'.2.1 hv'.2.2
  · rw [ex u.z u'.z, ex u.x u'.x, ex v.z v'.z, ex v.x v'.x]
    exact cross_coord_close hu.2.2 hu.1 hv.2.2 hv.1 hu'.2.2 hu'.1 hv'.2.2 hv'.1
  · rw [ex u.x u'.x, ex u.y u'.y, ex v.x v'.x, ex v.y v'.y]
    exact cross_coord_close hu.1 hu.2.1 hv.1 hv.2.1 hu'.1 hu'.2.1 hv'.1 hv'.2.1

theorem cross_closeBy_points {a a' b b' c c' : R3} {E eps : ℝ} (heps : 0 < eps) (heps1 : eps ≤ 1)
    (hu : |(sub b a).x| ≤ E ∧ |(sub b a).y| ≤ E ∧ |(sub b a).z| ≤ E)
    (hv : |(sub c a).x| ≤ E ∧ |(sub c a).y| ≤ E ∧ |(sub c a).z| ≤ E)
    (ha : closeBy (eps / 1000) a a') (hb : closeBy (eps / 1000) b b') (hc : closeBy (eps / 1000) c c') :
    closeBy ((8 * E + 1) * (eps / 1000)) (cross (sub b a) (sub c a)) (cross (sub b' a') (sub c' a')) := by
  have h := cross_closeBy hu hv (ha.sub hb) (ha.sub hc)
  have hE : 0 ≤ E := le_trans (abs_nonneg _) hu.1
  have hle : 4 * (E * (2 * (eps / 1000))) + 2 * (2 * (eps / 1000) * (2 * (eps / 1000)))
      ≤ (8 * E + 1) * (eps / 1000) := by nlinarith
  obtain ⟨h1, h2, h3⟩ := h
  exact ⟨le_trans h1 hle, le_trans h2 hle, le_trans h3 hle⟩

/-- **Acceptance, polygons as constructed** (`Plane(points[0], points[1], points[2])`, polygon.py:152): the three constructor
    points `a b c` and all vertices are perturbed by ≤ eps/1000 per coordinate; `E` bounds the coordinates of `b − a`, `c − a`
    and of every edge, `ρ ≤ |(b − a) × (c − a)|`.  The move of the raw normal is `g = 8E + 1` (in units of eps/1000). -/
theorem Polygon.containsT_ofPoints {n : Nat} {eps E R ρ : ℝ} {a a' b b' c c' x : R3} {P P' : Fin n → R3}
    (heps : 0 < eps) (heps1 : eps ≤ 1)
    (ha : closeBy (eps / 1000) a a') (hb : closeBy (eps / 1000) b b') (hc : closeBy (eps / 1000) c c')
    (hP : ∀ i, closeBy (eps / 1000) (P i) (P' i))
    (hu : |(sub b a).x| ≤ E ∧ |(sub b a).y| ≤ E ∧ |(sub b a).z| ≤ E)
    (hv : |(sub c a).x| ≤ E ∧ |(sub c a).y| ≤ E ∧ |(sub c a).z| ≤ E)
    (hρ : 0 < ρ) (hρr : ρ * ρ ≤ dot (cross (sub b a) (sub c a)) (cross (sub b a) (sub c a)))
    (hg : 26 * ((8 * E + 1) * (eps / 1000)) ≤ ρ)
    (hon : dot (sub x a) (cross (sub b a) (sub c a)) = 0)
    (hxa : |(sub x a).x| ≤ R ∧ |(sub x a).y| ≤ R ∧ |(sub x a).z| ≤ R)
    (hxP : ∀ i, |(sub x (P i)).x| ≤ R ∧ |(sub x (P i)).y| ≤ R ∧ |(sub x (P i)).z| ≤ R)
    (hE : ∀ i, |(sub (P (nextIdx i)) (P i)).x| ≤ E ∧ |(sub (P (nextIdx i)) (P i)).y| ≤ E ∧
      |(sub (P (nextIdx i)) (P i)).z| ≤ E)
    (hin : ∀ i, 0 ≤ (Polygon.ofPoints a b c P).edgeVal i x)
    (hplane : 39 / 4 * R * (8 * E + 1) + 3 * ρ < 1000 * ρ)
    (hedge : 6 * ((E + 1 / 100) * ρ + 13 / 4 * R * (8 * E + 1) * (E + 1 / 100) + 2 * R * ρ) ≤ 999 * ρ) :
    Polygon.containsT eps (Polygon.ofPoints a' b' c' P') x :=
  Polygon.containsT_of_close (g := 8 * E + 1) heps heps1 ha (cross_closeBy_points heps heps1 hu hv ha hb hc) hP
    hρ hρr hg hon hxa hxP hE hin hplane hedge

/-- **Rejection, polygons as constructed** -/
theorem Polygon.not_containsT_ofPoints {n : Nat} {eps E R ρ : ℝ} {a a' b b' c c' x : R3} {P P' : Fin n → R3}
    (heps : 0 < eps) (heps1 : eps ≤ 1)
    (ha : closeBy (eps / 1000) a a') (hb : closeBy (eps / 1000) b b') (hc : closeBy (eps / 1000) c c')
    (hP : ∀ i, closeBy (eps / 1000) (P i) (P' i))
    (hu : |(sub b a).x| ≤ E ∧ |(sub b a).y| ≤ E ∧ |(sub b a).z| ≤ E)
    (hv : |(sub c a).x| ≤ E ∧ |(sub c a).y| ≤ E ∧ |(sub c a).z| ≤ E)
    (hρ : 0 < ρ) (hρr : ρ * ρ ≤ dot (cross (sub b a) (sub c a)) (cross (sub b a) (sub c a)))
    (hg : 26 * ((8 * E + 1) * (eps / 1000)) ≤ ρ)
    (hxP : ∀ i, |(sub x (P i)).x| ≤ R ∧ |(sub x (P i)).y| ≤ R ∧ |(sub x (P i)).z| ≤ R)
    (hE : ∀ i, |(sub (P (nextIdx i)) (P i)).x| ≤ E ∧ |(sub (P (nextIdx i)) (P i)).y| ≤ E ∧
      |(sub (P (nextIdx i)) (P i)).z| ≤ E)
    (hedge : 6 * ((E + 1 / 100) * ρ + 13 / 4 * R * (8 * E + 1) * (E + 1 / 100) + 2 * R * ρ) ≤ 999 * ρ)
    (hout : ∃ i, (Polygon.ofPoints a b c P).edgeVal i x < -(2 * eps)) :
    ¬ Polygon.containsT eps (Polygon.ofPoints a' b' c' P') x :=
  Polygon.not_containsT_of_close (g := 8 * E + 1) (p := a) (p' := a') heps heps1
    (cross_closeBy_points heps heps1 hu hv ha hb hc) hP hρ hρr hg hxP hE hedge hout

/-- a vector of length 1 is its own normalisation -/
theorem normalized_of_unit {r : R3} (h : dot r r = 1) : normalized r = r := by
  have h1 : len r = 1 := by unfold len; rw [h]; exact Real.sqrt_one
  have : normalized r = smul (1 / len r) r := rfl
  rw [this, h1]
  ext <;> simp [smul]

end G3D.TolGeo
