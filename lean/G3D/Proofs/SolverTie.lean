import G3D.Extracted.Solver
import G3D.Proofs.SolverTieGauss
/-! Tie of G3D/Extracted/Solver.lean (generated from Geometry3D/utils/solver.py by tools/extract_solver.py) to the hand
    model G3D/Model/Solver2.lean: every extracted definition equals the model's.  Property C16 (and C17, whose Plane
    general-form / parametric constructors call `solve`).

    SolverTieGauss.lean : `shape_tie`, `find_pivot_row_tie0`, `find_pivot_row_tie`, `gaussian_elimination_tie`
    this file           : `null_shape_tie` (the pinned comparison of the one trusted reading), `null_tie`, `nullrow_tie`,
                          `count_tie`, `index_tie`, `first_nonzero_tie`, `init_tie`, `bool_tie`, `nonzero_tie`,
                          `call_tie` (passes `pass1_loop`, `pass2_loop`, `pass3_loop`), `solve_tie`, `solution_fields`,
                          `solve_call_tie`, `solve_bool_tie` (end to end), `rank_le`;
                          `deviation_empty`, `deviation_rank`, `deviation_ragged`: inputs OUTSIDE the hypotheses on which
                          the literal translation and the hand model differ.

    Method: the loop bodies are written once more here in `do`-notation (`pass1Body`, .. ; `outerBody`, `innerBody` in
    SolverTieGauss) and the generated definition is shown to be that loop by `rfl` (`call_unfold`, `gauss_unfold`): any
    change of the generated term breaks that step.  Each loop is then proved equal to the model's recursion by induction.
    Python exceptions: `liftE` embeds the model's `Err` (`noSolution`, `wrongArity` = the two `ValueError`s by message,
    `noneUsed` = the `TypeError` of `number * None`); `IndexError` / `ZeroDivisionError` are shown not to occur under the
    hypotheses (rows of length n+1, pivot / first non-zero entries ≠ 0, `first_nonzero(row) < n` in a solvable system). -/
set_option linter.unusedVariables false
set_option linter.unusedSimpArgs false
set_option linter.unusedTactic false
set_option linter.unreachableTactic false
namespace G3D.SolverTie
open G3D.PyRtS G3D.Extracted G3D.Solver2


theorem null_shape_tie : s_null_shape = "f |- abs(f) < get_eps()" := by decide

theorem null_tie (f : Rat) : s_null f = .ok (f == 0) := rfl

theorem nullrow_tie (r : List Rat) : s_nullrow r = .ok (nullRow r) := by
  unfold s_nullrow
  rw [pyAll_pure s_null (fun x => x == 0) r (fun x _ => null_tie x)]
  rfl

theorem count_tie (f : Rat → PyM Bool) (f' : Rat → Bool) (l : List Rat) (hf : ∀ x ∈ l, f x = .ok (f' x)) :
    s_count f l = .ok ((l.filter f').length : Int) := by
  unfold s_count
  simp only [pure_eq_ok]
  suffices h : ∀ (c : Int), (forIn l c fun i __s => do
          let b ← f i
          if b = true then Except.ok (ForInStep.yield (__s + 1)) else Except.ok (ForInStep.yield __s))
        = Except.ok (c + ((l.filter f').length : Int)) by
    rw [h]; simp
  induction l with
  | nil => intro c; simp
  | cons x xs ih =>
    intro c
    have ihx := ih (fun y hy => hf y (List.mem_cons_of_mem _ hy))
    rw [List.forIn_cons, hf x (List.mem_cons_self ..)]
    cases hx : f' x
    · simp [ihx, hx]
    · simp [ihx, hx]; omega




/-- first index (from `k`) whose element satisfies `p` -/
def findFrom (p : Rat → Bool) : Nat → List Rat → Option Nat
  | _, [] => none
  | k, x :: xs => if p x then some k else findFrom p (k + 1) xs

theorem index_loop (f : Rat → PyM Bool) (f' : Rat → Bool) :
    ∀ (l : List Rat) (k : Nat), (∀ x ∈ l, f x = .ok (f' x)) →
    (forIn (enumFrom k l) ((none : Option Int), ()) fun x __s =>
          match x with
          | (i, v) => do
            let b ← f v
            if b = true then Except.ok (ForInStep.done (some i, ())) else Except.ok (ForInStep.yield (none, ())))
      = Except.ok ((findFrom f' k l).map (fun (n : Nat) => (n : Int)), ()) := by
  intro l
  induction l with
  | nil => intro k _; simp [findFrom]
  | cons x xs ih =>
    intro k hf
    have ihx := ih (k + 1) (fun y hy => hf y (List.mem_cons_of_mem _ hy))
    rw [enumFrom_cons, List.forIn_cons]
    simp only [hf x (List.mem_cons_self ..), ok_bind]
    cases hx : f' x
    · simp [ihx, hx, findFrom]
    · simp [hx, findFrom]

theorem index_tie (f : Rat → PyM Bool) (f' : Rat → Bool) (l : List Rat) (hf : ∀ x ∈ l, f x = .ok (f' x)) :
    s_index f l = match findFrom f' 0 l with
      | some n => .ok (n : Int)
      | none => .error (.valueError "No item satisfies {}") := by
  unfold s_index
  simp only [pure_eq_ok, pyEnumerate_eq]
  rw [index_loop f f' l 0 hf]
  cases findFrom f' 0 l <;> rfl

theorem findFrom_nonzero : ∀ (r : List Rat) (k : Nat),
    (match findFrom (fun x => !(x == 0)) k r with | some n => n | none => k + r.length) = k + firstNonzero r := by
  intro r
  induction r with
  | nil => intro k; simp [findFrom, firstNonzero]
  | cons a as ih =>
    intro k
    by_cases h : a = 0
    · have := ih (k + 1)
      simp only [findFrom, firstNonzero, h, beq_self_eq_true, Bool.not_true, if_true, List.length_cons] at this ⊢
      simp only [Bool.false_eq_true, if_false]
      rw [show k + (as.length + 1) = k + 1 + as.length by omega, this]; omega
    · simp [findFrom, firstNonzero, h]

theorem first_nonzero_tie (r : List Rat) : s_first_nonzero r = .ok (firstNonzero r : Int) := by
  unfold s_first_nonzero
  simp only [pure_eq_ok, pyEnumerate_eq, null_tie, ok_bind]
  have h := index_loop (fun v => Except.ok (!(v == 0))) (fun v => !(v == 0)) r 0 (fun _ _ => rfl)
  simp only [ok_bind] at h
  rw [h]
  have h2 := findFrom_nonzero r 0
  simp only [Nat.zero_add] at h2
  cases hf : findFrom (fun v => !(v == 0)) 0 r with
  | none => rw [hf] at h2; simp [pyLen, ← h2]
  | some n => rw [hf] at h2; simp [← h2]


/-- the record that `Solution.__init__` builds, in terms of the model -/
def solutionOf (s : Mat) : Solution :=
  { _s := s
    varcount := ((s.headD []).length : Int) - 1
    _solvable := solvable s
    varargs := ((s.headD []).length : Int) - 1 - ((nonNullRows s).length : Int)
    exact := (((s.headD []).length : Int) - 1 - ((nonNullRows s).length : Int)) == 0 }

theorem init_tie (s : Mat) (hne : ∀ row ∈ s, row ≠ []) : s_init s = .ok (solutionOf s) := by
  unfold s_init
  have h1 : pyAny (fun row => do
        let a ← pyAnd (do let a ← pyAll (fun coeff => do let b ← s_null coeff; pure b) (pySliceTo row (-1)); pure a)
                      (do let i ← pyIdx row (-1); let b ← s_null i; pure !b)
        pure a) s
      = .ok (s.any (fun row => row.dropLast.all (· == 0) && (row.getLastD 0 != 0))) := by
    apply pyAny_pure
    intro row hrow
    rw [pySliceTo_neg_one, pyIdx_neg_one (hne row hrow)]
    rw [pyAll_pure _ (fun x => x == 0) _ (fun x _ => by simp [null_tie])]
    simp only [pyAnd, null_tie, pure_eq_ok, ok_bind]
    cases (row.dropLast.all fun x => x == 0) <;> simp [bne]
  have h2 : pyCompIf (fun row => do let b ← s_nullrow row; pure !b) (fun row => pure (1 : Int)) s
      = .ok (((s.filter (fun r => !nullRow r))).map (fun _ => (1 : Int))) := by
    apply pyCompIf_pure
    · intro row _; simp [nullrow_tie]
    · intro row _; rfl
  simp only [shape_tie, ok_bind, pure_eq_ok] at h1 h2 ⊢
  rw [h1, h2]
  simp only [ok_bind, pySum_ones]
  rfl


/-- body of the first loop of `__call__` (state: `vals`) -/
def pass1Body (x : Int × Row) (vals : List (Option Rat)) : PyM (ForInStep (List (Option Rat))) :=
  match x with
  | (i, row) => do
    if ((← s_count (fun i => do return !((← s_null i))) (pySliceTo row (-1 : Int))) == (1 : Int)) then
      let var : Int ← s_index (fun i => do return !((← s_null i))) (pySliceTo row (-1 : Int))
      let vals ← pySetIdx vals var (some (← pyDiv (← pyIdx row (-1 : Int)) (← pyIdx row var)))
      return ForInStep.yield vals
    return ForInStep.yield vals

/-- body of the second loop (state: `(v, vals)`) -/
def pass2Body (pivots : List Int) (i : Int) (st : List Rat × List (Option Rat)) :
    PyM (ForInStep (List Rat × List (Option Rat))) := do
  let v := st.1
  let vals := st.2
  if !(pyTruthy v) then
    return ForInStep.done (v, vals)
  if (← pyAnd (do return pyIsNone (← pyIdx vals i)) (do return !(pyIn i pivots))) then
    let pop_1 ← pyPop v
    let v := pop_1.2
    let vals ← pySetIdx vals i (some pop_1.1)
    return ForInStep.yield (v, vals)
  return ForInStep.yield (v, vals)

/-- the element of the generator expression under `sum(...)` in the third loop -/
def sumElt (row : Row) (vals : List (Option Rat)) (j : Int) : PyM Rat := do
  return (((-1 : Rat) * (← pyIdx row j)) * (← pyNum (← pyIdx vals j)))

/-- body of the third loop (state: `vals`) -/
def pass3Body (s : Mat) (i : Int) (vals : List (Option Rat)) : PyM (ForInStep (List (Option Rat))) := do
  let row : List Rat ← pyIdx s i
  if (← s_nullrow row) then
    return ForInStep.yield vals
  let tbd : Int ← s_first_nonzero row
  let s : Rat := pySum (← pyComp (sumElt row vals) (pyRange (tbd + (1 : Int)) (pyLen row - (1 : Int))))
  let s := s + (← pyIdx row (-1 : Int))
  let vals ← pySetIdx vals tbd (some (← pyDiv s (← pyIdx row tbd)))
  return ForInStep.yield vals

theorem call_unfold (self : Solution) (v : List Rat) : s_call self v = (do
    if !(self._solvable) then
      throw (PyErr.valueError "Has no solution")
    if (pyLen v != self.varargs) then
      throw (PyErr.valueError "Expected {} values, got {}")
    let vals ← forIn (pyEnumerate self._s) (pyRepeat [none] self.varcount) pass1Body
    let pivots := pySetOf (← pyCompIf (fun row => do return !((← s_nullrow row)))
      (fun row => do return (← s_first_nonzero row)) self._s)
    let st ← forIn (pyReversed (pyRange (0 : Int) (pyLen vals))) (pyList v, vals) (pass2Body pivots)
    let vals ← forIn (pyReversed (pyRange (0 : Int) (pyLen self._s))) st.2 (pass3Body self._s)
    return pyTuple vals) := by
  rfl


theorem firstNonzero_le : ∀ (l : Row), firstNonzero l ≤ l.length := by
  intro l; induction l with
  | nil => simp [firstNonzero]
  | cons a as ih => by_cases h : a = 0 <;> simp [firstNonzero, h]; omega

theorem firstNonzero_lt_iff : ∀ (l : Row), firstNonzero l < l.length ↔ ∃ a ∈ l, a ≠ 0 := by
  intro l; induction l with
  | nil => simp [firstNonzero]
  | cons a as ih =>
    by_cases h : a = 0
    · simp [firstNonzero, h, ih]
    · simp only [firstNonzero, h, if_false, List.length_cons, Nat.zero_lt_succ, true_iff]
      exact ⟨a, List.mem_cons_self .., h⟩

theorem firstNonzero_getD : ∀ (l : Row), firstNonzero l < l.length → l.getD (firstNonzero l) 0 ≠ 0 := by
  intro l; induction l with
  | nil => simp [firstNonzero]
  | cons a as ih =>
    by_cases h : a = 0
    · simp only [firstNonzero, h, if_true, List.length_cons, Nat.add_lt_add_iff_right, List.getD_cons_succ]
      exact ih
    · intro _; simp only [firstNonzero, h, if_false, List.getD_cons_zero]; exact h

theorem findFrom_eq_firstNonzero (l : Row) (k : Nat) (h : firstNonzero l < l.length) :
    findFrom (fun x => !(x == 0)) k l = some (k + firstNonzero l) := by
  induction l generalizing k with
  | nil => simp [firstNonzero] at h
  | cons a as ih =>
    by_cases ha : a = 0
    · simp only [firstNonzero, ha, if_true, List.length_cons, Nat.add_lt_add_iff_right] at h
      simp only [findFrom, ha, beq_self_eq_true, Bool.not_true, Bool.false_eq_true, if_false, firstNonzero, if_true]
      rw [ih (k + 1) h]; congr 1; omega
    · simp [findFrom, firstNonzero, ha]

theorem getD_dropLast (l : Row) (i : Nat) (h : i < l.dropLast.length) : l.dropLast.getD i 0 = l.getD i 0 := by
  have h2 : i < l.length := by simp at h; omega
  rw [List.getD_eq_getElem?_getD, List.getD_eq_getElem?_getD, List.getElem?_eq_getElem h,
    List.getElem?_eq_getElem h2, List.getElem_dropLast]

theorem pass1_length (s : Mat) (vals : List (Option Rat)) : (pass1 s vals).length = vals.length := by
  unfold pass1
  induction s generalizing vals with
  | nil => rfl
  | cons row rest ih =>
    simp only [List.foldl_cons]
    rw [ih]; split <;> simp

theorem pass1_cons (row : Row) (rest : Mat) (vals : List (Option Rat)) :
    pass1 (row :: rest) vals = pass1 rest
      (if (row.dropLast.filter (· != 0)).length = 1 then
        vals.set (firstNonzero row.dropLast) (some (row.getLastD 0 / row.getD (firstNonzero row.dropLast) 0))
       else vals) := by
  simp only [pass1, List.foldl_cons]

theorem pass1_loop (n : Nat) : ∀ (rows : Mat) (k : Nat) (vals : List (Option Rat)),
    (∀ row ∈ rows, row.length = n + 1) → vals.length = n →
    forIn (enumFrom k rows) vals pass1Body = .ok (pass1 rows vals) := by
  intro rows
  induction rows with
  | nil => intro k vals _ _; simp [pass1]
  | cons row rest ih =>
    intro k vals hrows hv
    have hrow : row.length = n + 1 := hrows row (List.mem_cons_self ..)
    have hne : row ≠ [] := by intro h; rw [h] at hrow; simp at hrow
    have hcs : row.dropLast.length = n := by simp [hrow]
    rw [enumFrom_cons, List.forIn_cons, pass1_cons]
    have hcount : s_count (fun i => Except.ok !(i == 0)) (pySliceTo row (-1 : Int))
        = .ok (((row.dropLast.filter (fun x => !(x == 0))).length : Nat) : Int) := by
      rw [pySliceTo_neg_one]
      exact count_tie _ _ _ (fun x _ => rfl)
    by_cases hc : (row.dropLast.filter (· != 0)).length = 1
    · have hc' : (row.dropLast.filter (fun x => !(x == 0))).length = 1 := hc
      have hex : firstNonzero row.dropLast < row.dropLast.length := by
        rw [firstNonzero_lt_iff]
        have : 0 < (row.dropLast.filter (fun x => !(x == 0))).length := by omega
        obtain ⟨a, ha⟩ := List.exists_mem_of_length_pos this
        rw [List.mem_filter] at ha
        exact ⟨a, ha.1, by simpa using ha.2⟩
      have hindex : s_index (fun i => Except.ok !(i == 0)) (pySliceTo row (-1 : Int))
          = .ok ((firstNonzero row.dropLast : Nat) : Int) := by
        rw [pySliceTo_neg_one, index_tie _ (fun x => !(x == 0)) _ (fun x _ => rfl),
          findFrom_eq_firstNonzero _ 0 hex]
        simp
      have hvar : firstNonzero row.dropLast < n := by omega
      have hget : row.getD (firstNonzero row.dropLast) 0 ≠ 0 := by
        rw [← getD_dropLast row _ hex]; exact firstNonzero_getD _ hex
      have step : pass1Body ((k : Int), row) vals = .ok (ForInStep.yield
          (vals.set (firstNonzero row.dropLast) (some (row.getLastD 0 / row.getD (firstNonzero row.dropLast) 0)))) := by
        unfold pass1Body
        simp only [pure_eq_ok, null_tie, ok_bind]
        simp only [hcount, ok_bind, hc', hindex, pyIdx_neg_one hne,
          pyIdx_getD (l := row) (firstNonzero row.dropLast) rfl (by omega), pyDiv, hget, if_false, pure_eq_ok,
          pySetIdx_nat (l := vals) (firstNonzero row.dropLast) _ rfl (by omega)]
        rfl
      rw [step, if_pos hc]
      simp only [ok_bind]
      exact ih (k + 1) _ (fun r hr => hrows r (List.mem_cons_of_mem _ hr)) (by simpa using hv)
    · have hc' : ¬ (row.dropLast.filter (fun x => !(x == 0))).length = 1 := hc
      have step : pass1Body ((k : Int), row) vals = .ok (ForInStep.yield vals) := by
        unfold pass1Body
        simp only [pure_eq_ok, null_tie, ok_bind]
        simp only [hcount, ok_bind]
        have : ((((row.dropLast.filter (fun x => !(x == 0))).length : Nat) : Int) == 1) = false := by
          simp; exact_mod_cast hc'
        simp only [this]
        rfl
      rw [step, if_neg hc]
      simp only [ok_bind]
      exact ih (k + 1) _ (fun r hr => hrows r (List.mem_cons_of_mem _ hr)) hv


theorem pyIn_cast (i : Nat) (piv : List Nat) :
    pyIn (i : Int) (piv.map (fun (c : Nat) => (c : Int))) = decide (i ∈ piv) := by
  unfold pyIn
  induction piv with
  | nil => simp
  | cons c cs ih =>
    simp only [List.map_cons, List.contains_cons, ih, List.mem_cons]
    by_cases h : i = c
    · subst h; simp
    · have : ((i : Int) == (c : Int)) = false := by simp; exact_mod_cast h
      simp [this, h]

theorem pass2_length (piv : List Nat) : ∀ (i : Nat) (v : List Rat) (vals : List (Option Rat)),
    (pass2 piv i v vals).length = vals.length := by
  intro i
  induction i with
  | zero => intro v vals; rfl
  | succ i ih =>
    intro v vals
    simp only [pass2]
    split
    · rfl
    · split
      · rw [ih]; simp
      · rw [ih]

theorem pass2_loop (piv : List Nat) : ∀ (i : Nat) (v : List Rat) (vals : List (Option Rat)), i ≤ vals.length →
    (Prod.snd <$> forIn (pyReversed (pyRange (0 : Int) ((i : Nat) : Int))) (v, vals)
        (pass2Body (piv.map (fun (c : Nat) => (c : Int)))))
      = .ok (pass2 piv i v vals) := by
  intro i
  induction i with
  | zero => intro v vals _; rw [pyReversed_range_zero]; simp [pass2]
  | succ i ih =>
    intro v vals hi
    rw [pyReversed_range_succ, List.forIn_cons]
    by_cases hv : v.isEmpty = true
    · have step : pass2Body (piv.map (fun (c : Nat) => (c : Int))) (i : Int) (v, vals)
          = .ok (ForInStep.done (v, vals)) := by
        unfold pass2Body
        simp only [pyTruthy, hv, Bool.not_true, Bool.not_false, if_true]
        rfl
      rw [step]
      simp [pass2, hv]
    · have hv' : v.isEmpty = false := by simpa using hv
      have hidx : pyIdx vals (i : Int) = .ok (vals.getD i none) := by
        rw [pyIdx_nat i rfl (by omega)]; simp [List.getD_eq_getElem?_getD, List.getElem?_eq_getElem (show i < vals.length by omega)]
      have hvne : v ≠ [] := by intro h; rw [h] at hv; exact hv rfl
      have hpop : pyPop v = .ok (v.getLastD 0, v.dropLast) := by
        unfold pyPop
        rw [List.getLast?_eq_some_getLast hvne]
        simp only [pure_eq_ok]
        congr 2
        rw [List.getLastD_eq_getLast?, List.getLast?_eq_some_getLast hvne]; rfl
      by_cases hc : vals.getD i none = none ∧ i ∉ piv
      · have step : pass2Body (piv.map (fun (c : Nat) => (c : Int))) (i : Int) (v, vals)
            = .ok (ForInStep.yield (v.dropLast, vals.set i (some (v.getLastD 0)))) := by
          unfold pass2Body
          simp only [pyTruthy, hv', Bool.not_false, Bool.not_true, Bool.false_eq_true, if_false, pyAnd, hidx,
            pure_eq_ok, ok_bind, pyIsNone, hc.1, Option.isNone_none, if_true, pyIn_cast, hc.2, decide_false,
            hpop, pySetIdx_nat (l := vals) i _ rfl (by omega)]
        rw [step]
        simp only [ok_bind]
        rw [ih _ _ (by simp; omega)]
        have : pass2 piv (i + 1) v vals = pass2 piv i v.dropLast (vals.set i (some (v.getLastD 0))) := by
          simp only [pass2, hv', Bool.false_eq_true, if_false]; rw [if_pos hc]
        rw [this]
      · have step : pass2Body (piv.map (fun (c : Nat) => (c : Int))) (i : Int) (v, vals)
            = .ok (ForInStep.yield (v, vals)) := by
          unfold pass2Body
          simp only [pyTruthy, hv', Bool.not_false, Bool.not_true, Bool.false_eq_true, if_false, pyAnd, hidx,
            pure_eq_ok, ok_bind, pyIsNone, pyIn_cast]
          by_cases h1 : vals.getD i none = none
          · have h2 : i ∈ piv := by
              by_contra h2; exact hc ⟨h1, h2⟩
            simp [h1, h2]
          · cases hh : vals.getD i none with
            | none => exact absurd hh h1
            | some x => simp
        rw [step]
        simp only [ok_bind]
        rw [ih _ _ (by omega)]
        have : pass2 piv (i + 1) v vals = pass2 piv i v vals := by
          simp only [pass2, hv', Bool.false_eq_true, if_false]; rw [if_neg hc]
        rw [this]


/-- the Python exception that the model's error stands for -/
def embedErr : Err → PyErr
  | .noSolution => .valueError "Has no solution"
  | .wrongArity => .valueError "Expected {} values, got {}"
  | .noneUsed => .typeError

/-- a model result as a runtime result -/
def liftE {α} : Except Err α → PyM α
  | .ok a => .ok a
  | .error e => .error (embedErr e)

@[simp] theorem liftE_ok {α} (a : α) : liftE (.ok a : Except Err α) = .ok a := rfl
@[simp] theorem liftE_error {α} (e : Err) : liftE (.error e : Except Err α) = .error (embedErr e) := rfl
theorem liftE_bind {α β} (x : Except Err α) (f : α → Except Err β) :
    liftE (x >>= f) = liftE x >>= fun a => liftE (f a) := by
  cases x <;> rfl

/-- one row of the back substitution (the model's `pass3` is `pass3 rest vals >>= pass3Step row`) -/
def pass3Step (row : Row) (vals' : List (Option Rat)) : Except Err (List (Option Rat)) :=
  if nullRow row then pure vals' else do
    let s ← sumNeg ((row.drop (firstNonzero row + 1)).dropLast) (vals'.drop (firstNonzero row + 1))
    pure (vals'.set (firstNonzero row) (some ((s + row.getLastD 0) / row.getD (firstNonzero row) 0)))

theorem pass3_cons (row : Row) (rest : List Row) (vals : List (Option Rat)) :
    pass3 (row :: rest) vals = pass3 rest vals >>= pass3Step row := by
  simp only [pass3, pass3Step]
  cases pass3 rest vals with
  | error e => rfl
  | ok vals' =>
    show (if nullRow row = true then _ else _) = (if nullRow row = true then _ else _)
    split <;> rfl

theorem pass3_append : ∀ (a b : List Row) (vals : List (Option Rat)),
    pass3 (a ++ b) vals = pass3 b vals >>= pass3 a := by
  intro a
  induction a with
  | nil => intro b vals; cases h : pass3 b vals <;> simp [pass3, h] <;> rfl
  | cons row rest ih =>
    intro b vals
    rw [List.cons_append, pass3_cons, ih]
    cases h : pass3 b vals with
    | error e => rfl
    | ok v => simp only [ok_bind]; rw [pass3_cons]

theorem pass3Step_length (row : Row) (vals vals' : List (Option Rat)) (h : pass3Step row vals = .ok vals') :
    vals'.length = vals.length := by
  unfold pass3Step at h
  split at h
  · cases h; rfl
  · cases hs : sumNeg ((row.drop (firstNonzero row + 1)).dropLast) (vals.drop (firstNonzero row + 1)) with
    | error e => rw [hs] at h; cases h
    | ok s => rw [hs] at h; cases h; simp

/-- the generator expression under `sum(...)` in the third loop = the model's `sumNeg` -/
theorem sum_loop (row : Row) (vals : List (Option Rat)) (n : Nat) (hrow : row.length = n + 1) (hvals : vals.length = n) :
    ∀ (cnt t : Nat), t + cnt = n →
    (pySum <$> pyComp (sumElt row vals) (pyRange (t : Int) ((t + cnt : Nat) : Int)))
      = liftE (sumNeg ((row.drop t).dropLast) (vals.drop t)) := by
  intro cnt
  induction cnt with
  | zero =>
    intro t ht
    have : (row.drop t).dropLast = [] := by
      have : (row.drop t).length = 1 := by simp [hrow]; omega
      match hd : row.drop t, this with
      | [x], _ => rfl
    rw [pyRange_empty (by simp), this]
    rfl
  | succ c ih =>
    intro t ht
    have ht1 : t < n := by omega
    have hd : row.drop t = row.getD t 0 :: row.drop (t + 1) := by
      rw [List.drop_eq_getElem_cons (by omega)]; simp [List.getD_eq_getElem?_getD, List.getElem?_eq_getElem (show t < row.length by omega)]
    have hne : row.drop (t + 1) ≠ [] := by
      intro h; have := congrArg List.length h; simp [hrow] at this; omega
    have hdl : (row.drop t).dropLast = row.getD t 0 :: (row.drop (t + 1)).dropLast := by
      rw [hd]
      match hq : row.drop (t + 1), hne with
      | y :: ys, _ => simp
    have hv : vals.drop t = vals.getD t none :: vals.drop (t + 1) := by
      rw [List.drop_eq_getElem_cons (by omega)]; simp [List.getD_eq_getElem?_getD, List.getElem?_eq_getElem (show t < vals.length by omega)]
    rw [pyRange_cons (by push_cast; omega), hdl, hv]
    have e1 : pyIdx row (t : Int) = .ok (row.getD t 0) := pyIdx_getD t rfl (by omega)
    have e2 : pyIdx vals (t : Int) = .ok (vals.getD t none) := by
      rw [pyIdx_nat t rfl (by omega)]; simp [List.getD_eq_getElem?_getD, List.getElem?_eq_getElem (show t < vals.length by omega)]
    have ihx := ih (t + 1) (by omega)
    rw [show ((t : Int) + 1) = ((t + 1 : Nat) : Int) by push_cast; rfl,
        show t + (c + 1) = t + 1 + c by omega]
    have ge : sumElt row vals (t : Int) = (match vals.getD t none with
        | none => .error .typeError
        | some x => .ok (-1 * row.getD t 0 * x)) := by
      unfold sumElt
      simp only [e1, e2, ok_bind, pure_eq_ok]
      cases vals.getD t none <;> rfl
    simp only [pyComp, ge]
    cases hval : vals.getD t none with
    | none => simp [sumNeg, embedErr]
    | some x =>
      simp only [ok_bind, sumNeg]
      generalize pyComp (sumElt row vals) (pyRange ((t + 1 : Nat) : Int) ((t + 1 + c : Nat) : Int)) = C at ihx ⊢
      generalize sumNeg (row.drop (t + 1)).dropLast (vals.drop (t + 1)) = S at ihx ⊢
      cases S with
      | error e =>
        cases C with
        | error e' => simp at ihx; simp [ihx]
        | ok ys => simp at ihx
      | ok r =>
        cases C with
        | error e' => simp at ihx
        | ok ys =>
          simp at ihx
          simp [pySum_cons, ihx]


/-- in a solvable system a non-null row has its first non-zero entry among the coefficients -/
theorem firstNonzero_lt_of_solvable : ∀ (n : Nat) (row : Row), row.length = n + 1 → nullRow row = false →
    (row.dropLast.all (· == 0) && (row.getLastD 0 != 0)) = false → firstNonzero row < n := by
  intro n row
  induction row generalizing n with
  | nil => intro h; simp at h
  | cons a as ih =>
    intro hl hnn hs
    by_cases ha : a = 0
    · have hnn' : nullRow as = false := by simpa [nullRow, ha] using hnn
      have hne : as ≠ [] := by intro h; rw [h] at hnn'; simp [nullRow] at hnn'
      obtain ⟨n', rfl⟩ : ∃ n', n = n' + 1 := by
        cases n with
        | zero => simp at hl; exact absurd hl hne
        | succ n' => exact ⟨n', rfl⟩
      obtain ⟨b, bs, rfl⟩ : ∃ b bs, as = b :: bs := by
        cases as with
        | nil => exact absurd rfl hne
        | cons b bs => exact ⟨b, bs, rfl⟩
      have hs' : ((b :: bs).dropLast.all (· == 0) && ((b :: bs).getLastD 0 != 0)) = false := by
        simpa [List.dropLast_cons_cons, ha] using hs
      have := ih n' (by simpa using hl) hnn' hs'
      show (if a = 0 then firstNonzero (b :: bs) + 1 else 0) < n' + 1
      rw [if_pos ha]; omega
    · simp only [firstNonzero, ha, if_false]
      cases n with
      | zero =>
        have : as = [] := by simpa using hl
        subst this
        simp [ha] at hs
      | succ n' => omega

theorem solvable_row {s : Mat} (hs : solvable s = true) {row : Row} (hrow : row ∈ s) :
    (row.dropLast.all (· == 0) && (row.getLastD 0 != 0)) = false := by
  simp only [solvable, Bool.not_eq_true', List.any_eq_false] at hs
  have := hs row hrow
  simpa using this

theorem pass3_step (n : Nat) (s : Mat) (hu : Uniform (n + 1) s) (hs : solvable s = true)
    (k : Nat) (hk : k < s.length) (vals : List (Option Rat)) (hv : vals.length = n) :
    pass3Body s (k : Int) vals = (ForInStep.yield <$> liftE (pass3Step (s.getD k []) vals)) := by
  have hget : s.getD k [] = s[k] := by
    rw [List.getD_eq_getElem?_getD, List.getElem?_eq_getElem hk]; rfl
  have hmem : s.getD k [] ∈ s := by rw [hget]; exact List.getElem_mem hk
  generalize s.getD k [] = row at hmem hget
  have hrow : row.length = n + 1 := hu row hmem
  have hne : row ≠ [] := by intro h; rw [h] at hrow; simp at hrow
  have e0 : pyIdx s (k : Int) = .ok row := by rw [pyIdx_nat k rfl hk, hget]
  unfold pass3Body pass3Step
  simp only [e0, ok_bind, nullrow_tie]
  cases hnn : nullRow row
  · have ht : firstNonzero row < n := firstNonzero_lt_of_solvable n row hrow hnn (solvable_row hs hmem)
    have hrange : pyRange (((firstNonzero row : Nat) : Int) + 1) (pyLen row - 1)
        = pyRange ((firstNonzero row + 1 : Nat) : Int) ((firstNonzero row + 1 + (n - firstNonzero row - 1) : Nat) : Int) := by
      have h1 : ((firstNonzero row : Nat) : Int) + 1 = ((firstNonzero row + 1 : Nat) : Int) := by push_cast; rfl
      have h2 : pyLen row - 1 = ((firstNonzero row + 1 + (n - firstNonzero row - 1) : Nat) : Int) := by
        unfold pyLen; rw [hrow]; omega
      rw [h1, h2]
    have hsum := sum_loop row vals n hrow hv (n - firstNonzero row - 1) (firstNonzero row + 1) (by omega)
    have e1 : pyIdx row ((firstNonzero row : Nat) : Int) = .ok (row.getD (firstNonzero row) 0) :=
      pyIdx_getD _ rfl (by omega)
    have hnz : row.getD (firstNonzero row) 0 ≠ 0 := firstNonzero_getD row (by omega)
    simp only [Bool.false_eq_true, if_false, first_nonzero_tie, ok_bind, hrange, pyIdx_neg_one hne, e1, pyDiv, hnz,
      pure_eq_ok, pySetIdx_nat (l := vals) (firstNonzero row) _ rfl (by omega)]
    generalize pyComp (sumElt row vals) (pyRange ((firstNonzero row + 1 : Nat) : Int)
      ((firstNonzero row + 1 + (n - firstNonzero row - 1) : Nat) : Int)) = C at hsum ⊢
    generalize sumNeg (row.drop (firstNonzero row + 1)).dropLast (vals.drop (firstNonzero row + 1)) = S at hsum ⊢
    cases S with
    | error e =>
      cases C with
      | error e' => simp at hsum; simp [hsum]
      | ok ys => simp at hsum
    | ok r =>
      cases C with
      | error e' => simp at hsum
      | ok ys => simp at hsum; simp [hsum]
  · simp

theorem pass3_loop (n : Nat) (s : Mat) (hu : Uniform (n + 1) s) (hs : solvable s = true) :
    ∀ (k : Nat) (vals : List (Option Rat)), k ≤ s.length → vals.length = n →
    forIn (pyReversed (pyRange (0 : Int) ((k : Nat) : Int))) vals (pass3Body s) = liftE (pass3 (s.take k) vals) := by
  intro k
  induction k with
  | zero => intro vals _ _; rw [pyReversed_range_zero]; simp [pass3]
  | succ k ih =>
    intro vals hk hv
    rw [pyReversed_range_succ, List.forIn_cons, pass3_step n s hu hs k (by omega) vals hv]
    have htake : s.take (k + 1) = s.take k ++ [s.getD k []] := by
      rw [List.take_add_one, List.getD_eq_getElem?_getD, List.getElem?_eq_getElem (show k < s.length by omega)]; rfl
    have h1 : pass3 [s.getD k []] vals = pass3Step (s.getD k []) vals := by
      rw [pass3_cons]; rfl
    rw [htake, pass3_append, h1]
    cases hstep : pass3Step (s.getD k []) vals with
    | error e => rfl
    | ok b =>
      have hb := pass3Step_length _ _ _ hstep
      simp only [liftE_ok, map_ok, ok_bind]
      exact ih b (by omega) (by omega)


theorem pyRepeat_none (n : Nat) : pyRepeat [(none : Option Rat)] (n : Int) = List.replicate n none := by
  unfold pyRepeat
  simp only [Int.toNat_natCast]
  induction n with
  | zero => rfl
  | succ n ih => simp [List.replicate_succ, ih]

theorem pivots_tie (s : Mat) :
    pyCompIf (fun row => do return !((← s_nullrow row))) (fun row => do return (← s_first_nonzero row)) s
      = .ok ((pivotCols s).map (fun (c : Nat) => (c : Int))) := by
  rw [pyCompIf_pure _ _ (fun r => !nullRow r) (fun r => ((firstNonzero r : Nat) : Int)) s
    (fun row _ => by simp [nullrow_tie]) (fun row _ => by simp [first_nonzero_tie])]
  simp [pivotCols, nonNullRows]

theorem bool_tie (sol : Solution) : s_bool sol = .ok sol._solvable := rfl
theorem nonzero_tie (sol : Solution) : s_nonzero sol = .ok sol._solvable := rfl

theorem headD_length {n : Nat} {s : Mat} (hu : Uniform (n + 1) s) (hne : s ≠ []) : (s.headD []).length = n + 1 := by
  cases s with
  | nil => exact absurd rfl hne
  | cons r rs => exact hu r (List.mem_cons_self ..)

/-- **`Solution.__call__` = the model's `call`**, including which exception is raised when. -/
theorem call_tie (n : Nat) (s : Mat) (v : List Rat) (hu : Uniform (n + 1) s) (hne : s ≠ [])
    (hrank : solvable s = true → (nonNullRows s).length ≤ n) :
    s_call (solutionOf s) v = liftE (call n s v) := by
  rw [call_unfold]
  have hl := headD_length hu hne
  simp only [solutionOf, hl]
  cases hs : solvable s
  · simp [call, hs, embedErr]
  · have hr := hrank hs
    have hva : (((n + 1 : Nat) : Int) - 1 - ((nonNullRows s).length : Int)) = ((varargs n s : Nat) : Int) := by
      unfold varargs; omega
    have hvc : (((n + 1 : Nat) : Int) - 1) = (n : Int) := by omega
    rw [hva, hvc]
    simp only [Bool.not_true, Bool.false_eq_true, if_false]
    by_cases hlen : v.length = varargs n s
    · have hne' : (pyLen v != ((varargs n s : Nat) : Int)) = false := by
        unfold pyLen; rw [hlen]; simp
      simp only [hne', Bool.false_eq_true, if_false]
      rw [pyEnumerate_eq, pyRepeat_none, pass1_loop n s 0 _ hu (by simp)]
      simp only [ok_bind, pivots_tie, pySetOf, pyList]
      have hlen1 : pyLen (pass1 s (List.replicate n none)) = (n : Int) := by
        unfold pyLen; rw [pass1_length]; simp
      rw [hlen1]
      have h2 := pass2_loop (pivotCols s) n v (pass1 s (List.replicate n none)) (by rw [pass1_length]; simp)
      cases hfor : forIn (pyReversed (pyRange (0 : Int) ((n : Nat) : Int))) (v, pass1 s (List.replicate n none))
          (pass2Body ((pivotCols s).map (fun (c : Nat) => (c : Int)))) with
      | error e => rw [hfor] at h2; cases h2
      | ok st =>
        rw [hfor] at h2
        simp only [map_ok, Except.ok.injEq] at h2
        simp only [ok_bind, h2]
        have h3 := pass3_loop n s hu hs s.length (pass2 (pivotCols s) n v (pass1 s (List.replicate n none)))
          (Nat.le_refl _) (by rw [pass2_length, pass1_length]; simp)
        rw [List.take_length] at h3
        rw [show pyLen s = ((s.length : Nat) : Int) from rfl, h3]
        have hcall : call n s v = pass3 s (pass2 (pivotCols s) n v (pass1 s (List.replicate n none))) := by
          simp [call, hs, hlen]
        rw [hcall]
        cases pass3 s (pass2 (pivotCols s) n v (pass1 s (List.replicate n none))) <;> rfl
    · have hne' : (pyLen v != ((varargs n s : Nat) : Int)) = true := by
        unfold pyLen; simp; exact_mod_cast hlen
      simp [hne', call, hs, hlen, embedErr]


theorem gaussRec_length (nc : Nat) : ∀ (f j : Nat) (rows : List Row), (gaussRec f nc j rows).length = rows.length := by
  intro f
  induction f with
  | zero => intro j rows; rfl
  | succ f ih =>
    intro j rows
    simp only [gaussRec]
    split
    · rfl
    · cases rows with
      | nil => rfl
      | cons r0 rs =>
        simp only
        cases hp : pivotIdx (r0 :: rs) j with
        | none => simp only; rw [ih]
        | some k =>
          simp only [List.length_cons, ih, List.length_map]
          have := takePivot_snd_length (r0 :: rs) k (pivotIdx_some hp).1
          simpa using this

theorem gauss_length (m : Mat) : (gauss m).length = m.length := gaussRec_length _ _ _ _

theorem gauss_uniform (n : Nat) (m : Mat) (hu : Uniform (n + 1) m) (hne : m ≠ []) : Uniform (n + 1) (gauss m) :=
  fun r hr => ((gauss_echelon n m hu hne).rows r hr).1

theorem gauss_ne_nil (m : Mat) (hne : m ≠ []) : gauss m ≠ [] := by
  intro h; have := gauss_length m; rw [h] at this
  exact hne (List.length_eq_zero_iff.mp this.symm)

/-- in a solvable echelon form there are at most as many non-null rows as unknowns (so Python's `varargs`, an int that
    may be negative, is the model's truncated natural-number `varargs`) -/
theorem rank_le (n : Nat) (m : Mat) (hu : Uniform (n + 1) m) (hne : m ≠ []) (hs : solvable (gauss m) = true) :
    (nonNullRows (gauss m)).length ≤ n := by
  have hech := gauss_echelon n m hu hne
  have := freeCount_add_length n (pivotCols (gauss m)) (pivotCols_nodup hech hs)
    (fun k hk => (pivotCols_ge hech hs k hk).2)
  rw [← pivotCols_length]; omega

/-- **`solve` = `Solution(gauss m)`** -/
theorem solve_tie (n : Nat) (m : Mat) (hu : Uniform (n + 1) m) (hne : m ≠ []) :
    s_solve m = .ok (solutionOf (solve m)) := by
  unfold s_solve
  have hl := headD_length hu hne
  rw [gaussian_elimination_tie m (by rw [hl]; exact hu)]
  simp only [ok_bind, pure_eq_ok]
  rw [init_tie]
  · rfl
  · intro row hrow h
    have := gauss_uniform n m hu hne row hrow
    rw [h] at this; simp at this

/-- the fields of `solve(m)` in terms of the model -/
theorem solution_fields (n : Nat) (m : Mat) (hu : Uniform (n + 1) m) (hne : m ≠ []) :
    (solutionOf (solve m))._s = solve m ∧
    (solutionOf (solve m)).varcount = (n : Int) ∧
    (solutionOf (solve m))._solvable = solvable (solve m) ∧
    (solvable (solve m) = true → (solutionOf (solve m)).varargs = ((varargs n (solve m) : Nat) : Int)) ∧
    (solvable (solve m) = true → (solutionOf (solve m)).exact = decide (varargs n (solve m) = 0)) := by
  have hl := headD_length (gauss_uniform n m hu hne) (gauss_ne_nil m hne)
  have hva : solvable (solve m) = true →
      (((n + 1 : Nat) : Int) - 1 - ((nonNullRows (solve m)).length : Int)) = ((varargs n (solve m) : Nat) : Int) := by
    intro hs; have := rank_le n m hu hne hs; unfold varargs solve; omega
  refine ⟨rfl, ?_, rfl, ?_, ?_⟩
  · show (((solve m).headD []).length : Int) - 1 = n
    unfold solve; rw [hl]; omega
  · intro hs
    show (((solve m).headD []).length : Int) - 1 - _ = _
    unfold solve at hva ⊢; rw [hl]; exact hva hs
  · intro hs
    show ((((solve m).headD []).length : Int) - 1 - _ == 0) = _
    unfold solve at hva ⊢; rw [hl, hva hs]
    by_cases h : varargs n (gauss m) = 0 <;> simp [h]

/-- **end to end**: `solve(m)(*v)` = the model's `call n (solve m) v`, errors included -/
theorem solve_call_tie (n : Nat) (m : Mat) (v : List Rat) (hu : Uniform (n + 1) m) (hne : m ≠ []) :
    (s_solve m >>= fun sol => s_call sol v) = liftE (call n (solve m) v) := by
  rw [solve_tie n m hu hne]
  simp only [ok_bind]
  exact call_tie n (solve m) v (gauss_uniform n m hu hne) (gauss_ne_nil m hne) (rank_le n m hu hne)

/-- `bool(solve(m))` = the model's `solvable` -/
theorem solve_bool_tie (n : Nat) (m : Mat) (hu : Uniform (n + 1) m) (hne : m ≠ []) :
    (s_solve m >>= s_bool) = .ok (solvable (solve m)) := by
  rw [solve_tie n m hu hne]; rfl


/-! ### where the hand model deviates from the literal translation (all outside the hypotheses of the ties) -/

/-- D1: the empty matrix.  Python: `varcount = shape([])[1] - 1 = -1`, so every call raises "Expected -1 values";
    the model (whose `n` is a natural number) returns the empty tuple. -/
theorem deviation_empty :
    s_call (solutionOf []) [] = .error (.valueError "Expected {} values, got {}") ∧ call 0 [] [] = .ok [] := by
  constructor <;> rfl

/-- D2: a `Solution` built directly from a NON-echelon matrix with more non-null rows than unknowns.  Python's
    `varargs` is negative, so every call raises; the model's truncated `varargs` is 0 and `call` proceeds.
    (Unreachable through `solve`: `rank_le`.) -/
theorem deviation_rank :
    s_call (solutionOf [[1, 1], [1, 1]]) [] = .error (.valueError "Expected {} values, got {}") ∧
    call 1 [[1, 1], [1, 1]] [] = .ok [some 1] := by
  constructor
  · decide
  · simp [call, solvable, varargs, nonNullRows, nullRow, pass1, pass2, pass3, firstNonzero, sumNeg]

/-- D3: ragged input.  The code raises IndexError where the model (total `getD`) goes on. -/
theorem deviation_ragged :
    s_find_pivot_row [[]] = .error .indexError ∧ pivotIdx [[]] 0 = none ∧
    (∃ e, s_init [[]] = .error e) ∧ solvable [[]] = true := by
  refine ⟨rfl, rfl, ⟨.indexError, rfl⟩, rfl⟩

/-! ### axiom audit -/
#print axioms null_shape_tie
#print axioms null_tie
#print axioms shape_tie
#print axioms nullrow_tie
#print axioms find_pivot_row_tie
#print axioms gaussian_elimination_tie
#print axioms count_tie
#print axioms index_tie
#print axioms first_nonzero_tie
#print axioms init_tie
#print axioms bool_tie
#print axioms nonzero_tie
#print axioms call_tie
#print axioms solve_tie
#print axioms solution_fields
#print axioms solve_call_tie
#print axioms solve_bool_tie
#print axioms deviation_empty
#print axioms deviation_rank
#print axioms deviation_ragged
end G3D.SolverTie
