import G3D.Proofs.Euler1

/-! # Euler's polyhedron formula, part 2: a linear functional along a strictly convex cycle

    For a `Valid` polygon and a functional `d` that is injective on its vertices:
    * `Eu.triple_facts` : the cyclic triples are positively oriented corners
    * `Eu.corner_identity`, `Eu.corner_dot` : a vector of the plane in the frame of a corner
    * `Eu.local_min` : a vertex lower than both its neighbours is the lowest vertex (convexity)
    * `Eu.bottom_count` : exactly one cyclic triple is a local minimum
    * `Eu.face_count` : #ascending edges = 1 + #ascending corners (pred lower, succ higher) -/
namespace G3D
open V3

/-- the directed edge `e` ascends w.r.t. `d` -/
def Eu.ascE (d : V3) (e : V3 × V3) : Bool := decide (dot d e.1 < dot d e.2)
/-- the corner `(pred, v, succ)` is a local minimum of `d` -/
def Eu.bottomT (d : V3) (t : V3 × V3 × V3) : Bool := decide (dot d t.2.1 < dot d t.1 ∧ dot d t.2.1 < dot d t.2.2)
/-- the corner `(pred, v, succ)` ascends: `pred` lower, `succ` higher -/
def Eu.amT (d : V3) (t : V3 × V3 × V3) : Bool := decide (dot d t.1 < dot d t.2.1 ∧ dot d t.2.1 < dot d t.2.2)

/-- corners of a valid polygon: both pairs are edges, the three vertices are distinct and positively oriented -/
theorem Eu.triple_facts (P : Polygon) (hv : P.Valid) (t : V3 × V3 × V3) (ht : t ∈ Eu.cycTriples P.pts) :
    (t.1, t.2.1) ∈ closedPairs P.pts ∧ (t.2.1, t.2.2) ∈ closedPairs P.pts ∧
    t.1 ≠ t.2.1 ∧ t.2.1 ≠ t.2.2 ∧ t.1 ≠ t.2.2 ∧ 0 < orient P.plane.n t.1 t.2.1 t.2.2 := by
  obtain ⟨h1, h2⟩ := Eu.cycTriples_mem P.pts t ht
  have d1 := hv.edges_distinct _ h1
  have d2 := hv.edges_distinct _ h2
  simp only at d1 d2
  have d3 : t.1 ≠ t.2.2 := by
    intro h
    rw [h] at h1
    exact Polygon.no_rev_edge P hv _ h2 h1
  obtain ⟨p0, p1, p2, rest, hp, _, htp⟩ := id hv
  refine ⟨h1, h2, d1, d2, d3, ?_⟩
  rcases closed_edges_pos P.plane.n P.pts htp _ h1 t.2.2 (closedPairs_mem _ _ h2).2 with h | h | h
  · exact h
  · exact absurd h.symm d3
  · exact absurd h.symm d2

/-- scalar form of the frame identity `(n.(a×b)) c = (n.(c×b)) a + (n.(a×c)) b + [a,b,c] n` -/
theorem Eu.corner_dot (n d a b c : V3) :
    dot n (cross a b) * dot d c =
      dot n (cross c b) * dot d a + dot n (cross a c) * dot d b + dot (cross a b) c * dot d n := by
  simp only [dot, cross]; ring

/-- in the plane of a valid polygon, relative to the corner `(p, v, s)`: for every point `w` of the plane
    `D (d.(w-v)) = X (d.(s-v)) + Y (d.(p-v))` with `D = orient n p v s`, `X = orient n p v w`, `Y = orient n v s w` -/
theorem Eu.corner_frame (P : Polygon) (hv : P.Valid) (p v s w d : V3) (hp : p ∈ P.pts) (hvm : v ∈ P.pts)
    (hs : s ∈ P.pts) (hw : G3D.inPlane P.plane.n P.plane.p w = true) :
    orient P.plane.n p v s * dot d (sub w v) =
      orient P.plane.n p v w * dot d (sub s v) + orient P.plane.n v s w * dot d (sub p v) := by
  have hn : P.plane.n ≠ zero := Polygon.plane_WF P hv
  obtain ⟨_, _, _, _, _, hpl, _⟩ := id hv
  have na : dot P.plane.n (sub s v) = 0 := inPlane_diff (hpl _ hvm) (hpl _ hs)
  have nb : dot P.plane.n (sub p v) = 0 := inPlane_diff (hpl _ hvm) (hpl _ hp)
  have nc : dot P.plane.n (sub w v) = 0 := inPlane_diff (hpl _ hvm) hw
  have htr := K3.trip_zero_of_perp P.plane.n (sub s v) (sub p v) (sub w v) hn na nb nc
  have h := Eu.corner_dot P.plane.n d (sub s v) (sub p v) (sub w v)
  rw [htr] at h
  have e1 : orient P.plane.n p v s = dot P.plane.n (cross (sub s v) (sub p v)) := by
    simp only [orient, dot, cross, sub]; ring
  have e2 : orient P.plane.n p v w = dot P.plane.n (cross (sub w v) (sub p v)) := by
    simp only [orient, dot, cross, sub]; ring
  have e3 : orient P.plane.n v s w = dot P.plane.n (cross (sub s v) (sub w v)) := rfl
  rw [e1, e2, e3, h]; ring

/-- **convexity**: a vertex lower than both its neighbours is a lowest vertex -/
theorem Eu.local_min (P : Polygon) (hv : P.Valid) (d : V3) (t : V3 × V3 × V3) (ht : t ∈ Eu.cycTriples P.pts)
    (h1 : dot d t.2.1 < dot d t.1) (h2 : dot d t.2.1 < dot d t.2.2) :
    ∀ w ∈ P.pts, dot d t.2.1 ≤ dot d w := by
  intro w hw
  obtain ⟨e1, e2, _, _, _, hD⟩ := Eu.triple_facts P hv t ht
  obtain ⟨_, _, _, _, _, hpl, htp⟩ := id hv
  have m1 := closedPairs_mem _ _ e1
  have m2 := closedPairs_mem _ _ e2
  have hX := closed_edges_nonneg P.plane.n P.pts htp _ e1 w hw
  have hY := closed_edges_nonneg P.plane.n P.pts htp _ e2 w hw
  have h := Eu.corner_frame P hv t.1 t.2.1 t.2.2 w d m1.1 m1.2 m2.2 (hpl w hw)
  have ds : dot d (sub t.2.2 t.2.1) = dot d t.2.2 - dot d t.2.1 := by simp only [dot, sub]; ring
  have dp : dot d (sub t.1 t.2.1) = dot d t.1 - dot d t.2.1 := by simp only [dot, sub]; ring
  have dw : dot d (sub w t.2.1) = dot d w - dot d t.2.1 := by simp only [dot, sub]; ring
  rw [ds, dp, dw] at h
  simp only at hX hY
  have hr : 0 ≤ orient P.plane.n t.1 t.2.1 t.2.2 * (dot d w - dot d t.2.1) := by
    rw [h]
    exact add_nonneg (mul_nonneg hX (by linarith)) (mul_nonneg hY (by linarith))
  have := (mul_nonneg_iff_of_pos_left hD).mp hr
  linarith

/-- **convexity**: a vertex higher than both its neighbours is a highest vertex -/
theorem Eu.local_max (P : Polygon) (hv : P.Valid) (d : V3) (t : V3 × V3 × V3) (ht : t ∈ Eu.cycTriples P.pts)
    (h1 : dot d t.1 < dot d t.2.1) (h2 : dot d t.2.2 < dot d t.2.1) :
    ∀ w ∈ P.pts, dot d w ≤ dot d t.2.1 := by
  intro w hw
  have hn : ∀ x, dot (neg d) x = - dot d x := by intro x; simp only [dot, neg]; ring
  have := Eu.local_min P hv (neg d) t ht (by rw [hn, hn]; linarith) (by rw [hn, hn]; linarith) w hw
  rw [hn, hn] at this
  linarith

/-- exactly one corner of a valid polygon is a local minimum of a functional injective on the vertices -/
theorem Eu.bottom_count (P : Polygon) (hv : P.Valid) (d : V3)
    (hinj : ∀ u ∈ P.pts, ∀ w ∈ P.pts, u ≠ w → dot d u ≠ dot d w) :
    (Eu.cycTriples P.pts).countP (Eu.bottomT d) = 1 := by
  obtain ⟨p0, p1, p2, rest, hp, _, _⟩ := id hv
  have hne : P.pts ≠ [] := by rw [hp]; simp
  obtain ⟨m, hm, hmin⟩ := exists_max_of_list (fun x => - dot d x) P.pts hne
  have hmin' : ∀ w ∈ P.pts, dot d m ≤ dot d w := fun w hw => by
    have : - dot d w ≤ - dot d m := hmin w hw
    linarith
  have hchar : ∀ t ∈ Eu.cycTriples P.pts, Eu.bottomT d t = true ↔ (fun t : V3 × V3 × V3 => t.2.1 == m) t = true := by
    intro t ht
    obtain ⟨e1, e2, d1, d2, _, _⟩ := Eu.triple_facts P hv t ht
    have m1 := closedPairs_mem _ _ e1
    have m2 := closedPairs_mem _ _ e2
    simp only [Eu.bottomT]
    rw [decide_eq_true_iff, beq_iff_eq]
    constructor
    · rintro ⟨h1, h2⟩
      have h3 := Eu.local_min P hv d t ht h1 h2 m hm
      have h4 := hmin' _ m1.2
      by_contra hne'
      exact hinj _ m1.2 _ hm hne' (le_antisymm h3 h4)
    · intro h
      rw [h] at d1 d2 m1 m2 ⊢
      exact ⟨lt_of_le_of_ne (hmin' _ m1.1) (hinj _ hm _ m1.1 (Ne.symm d1)),
        lt_of_le_of_ne (hmin' _ m2.2) (hinj _ hm _ m2.2 d2)⟩
  rw [List.countP_congr hchar]
  have hmid : (Eu.cycTriples P.pts).countP (fun t => t.2.1 == m) =
      ((Eu.cycTriples P.pts).map (fun t => t.2.1)).count m := by
    rw [List.count, List.countP_map]; rfl
  rw [hmid, hp, (Eu.cycTriples_mid_perm p0 p1 (p2 :: rest)).count_eq, ← hp]
  exact List.count_eq_one_of_mem hv.nodup hm

/-- **per face**: the number of ascending edges is one plus the number of ascending corners -/
theorem Eu.face_count (P : Polygon) (hv : P.Valid) (d : V3)
    (hinj : ∀ u ∈ P.pts, ∀ w ∈ P.pts, u ≠ w → dot d u ≠ dot d w) :
    (closedPairs P.pts).countP (Eu.ascE d) = 1 + (Eu.cycTriples P.pts).countP (Eu.amT d) := by
  obtain ⟨p0, p1, p2, rest, hp, _, _⟩ := id hv
  have h1 : (closedPairs P.pts).countP (Eu.ascE d) =
      (Eu.cycTriples P.pts).countP (fun t => Eu.ascE d (t.2.1, t.2.2)) := by
    rw [hp, ← (Eu.cycTriples_right_perm p0 p1 (p2 :: rest)).countP_eq, List.countP_map]; rfl
  rw [h1, ← Eu.bottom_count P hv d hinj]
  apply Eu.countP_split
  · intro t ht
    obtain ⟨e1, _, d1, _, _, _⟩ := Eu.triple_facts P hv t ht
    have m1 := closedPairs_mem _ _ e1
    have hne := hinj _ m1.1 _ m1.2 d1
    simp only [Eu.ascE, Eu.bottomT, Eu.amT]
    rw [Bool.eq_iff_iff]
    simp only [Bool.or_eq_true, decide_eq_true_iff]
    constructor
    · intro h
      rcases lt_or_gt_of_ne hne with h' | h'
      · exact Or.inr ⟨h', h⟩
      · exact Or.inl ⟨h', h⟩
    · rintro (⟨_, h⟩ | ⟨_, h⟩) <;> exact h
  · intro t _ ⟨h1, h2⟩
    simp only [Eu.bottomT, Eu.amT, decide_eq_true_iff] at h1 h2
    exact lt_asymm h1.1 h2.1
#print axioms Eu.face_count

end G3D
