import G3D.Extracted.Mpolygon
import G3D.Proofs.MethodsTiePolygonShared
/-! # Tie, group `mpolygon`: `ConvexPolygon._get_center_point` = `meanV` (C09).  Own module because BOTH `__init__` (`MethodsTiePolygonCtor`) and `move` (`MethodsTiePolygonMove`) call this method: that coupling is real. -/
set_option linter.unusedSimpArgs false
set_option linter.unusedVariables false
set_option linter.style.nameCheck false
set_option linter.unusedTactic false
set_option linter.unreachableTactic false
namespace G3D.Tie
open V3 PyRt Extracted

theorem m_ConvexPolygon__get_center_point_eq (self : Self) (ps : List V3) (h : self.f_points = some (Val.ptSeq ps)) :
    m_ConvexPolygon__get_center_point self =
      if ps = [] then .error (.ctor .zeroDiv) else .ok (.obj (ptObj (meanV ps))) := by
  unfold m_ConvexPolygon__get_center_point
  rw [h]
  simp only [pyrt, pyFld, Val.ptSeq, List.map_map, List.length_map]
  rw [show ((Val.int 0, Val.int 0, Val.int 0) : Val × Val × Val) = ctrRepr none from rfl]
  rw [forIn_repr (Val.obj ∘ ptObj) ctrRepr ps _ (fun p o => .ok (.yield (ctrAdd o p)))]
  · rw [forIn_yield]
    cases ps with
    | nil => simp [ctrRepr, pyFloat, pyDiv, Val.asRat?]
    | cons p ps =>
      have hn : ((ps.length : Rat) + 1) ≠ 0 := by positivity
      simp only [List.foldl_cons, ctrAdd, ctrFold]
      simp [ctrRepr, pyFloat, pyDiv, Val.asRat?, pyPoint3, hn, meanV, sumV, zero_add', smul, ptObj]
      refine ⟨?_, ?_, ?_⟩ <;> ring
  · intro p _ o
    exact center_loop_body p o

/-- `_get_center_point()` on a polygon object (the constructor and `move` call it on the record under construction) -/
theorem m_ConvexPolygon__get_center_point_eq' (P : Polygon) :
    m_ConvexPolygon__get_center_point (Self.ofPolygon P) =
      if P.pts = [] then .error (.ctor .zeroDiv) else .ok (.obj (ptObj (meanV P.pts))) :=
  m_ConvexPolygon__get_center_point_eq _ P.pts rfl

end G3D.Tie
