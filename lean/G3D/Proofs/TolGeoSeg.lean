import G3D.Proofs.TolGeoPlane

/-! C19 for Segment and HalfLine. -/
namespace G3D.TolGeo
open R3

/-! ## Segment -/

/-- (a) **Segment equality**: both end points perturbed by ≤ eps/1000 per coordinate; no bound on the data. -/
theorem Segment.eqT_of_close {eps : ℝ} {S S' : Segment} (heps : 0 < eps)
    (hs : closeBy (eps / 1000) S.s S'.s) (he : closeBy (eps / 1000) S.e S'.e) :
    Segment.eqT eps S S' ∧ Segment.eqT eps S' S :=
  ⟨Or.inl ⟨(vecEq_of_close heps hs).1, (vecEq_of_close heps he).1⟩,
   Or.inl ⟨(vecEq_of_close heps hs).2, (vecEq_of_close heps he).2⟩⟩

/-- (c) **Rejection**: if the start point of `T` differs by more than 4·eps in some coordinate from BOTH end points of
    `S`, the segments are unequal (neither the direct nor the swapped match of segment.py:50-54 can hold). -/
theorem Segment.not_eqT_of_far {eps : ℝ} {S T : Segment} (heps : 0 < eps)
    (h1 : 4 * eps < |S.s.x - T.s.x| ∨ 4 * eps < |S.s.y - T.s.y| ∨ 4 * eps < |S.s.z - T.s.z|)
    (h2 : 4 * eps < |S.e.x - T.s.x| ∨ 4 * eps < |S.e.y - T.s.y| ∨ 4 * eps < |S.e.z - T.s.z|) :
    ¬ Segment.eqT eps S T := by
  rintro (⟨h, _⟩ | ⟨h, _⟩)
  · exact (not_vecEq_of_far heps h1).1 h
  · exact (not_vecEq_of_far heps h2).1 h

/-- the relative-length tests of segment.py:68-73 on perturbed data:
    `v1·v = t·|v|² + q·v` with every coordinate of `q` within 3·eps/1000 -/
theorem rel_bounds {eps t : ℝ} {v q : R3} (heps : 0 < eps) (ht0 : 0 ≤ t) (ht1 : t ≤ 1)
    (hv : 1 / 256 ≤ dot v v)
    (hq : |q.x| ≤ 3 * (eps / 1000) ∧ |q.y| ≤ 3 * (eps / 1000) ∧ |q.z| ≤ 3 * (eps / 1000)) :
    (t * dot v v + dot q v) / len v / len v > -eps ∧
    (t * dot v v + dot q v) / len v / len v < 1 + eps := by
  have hL : 1 / 16 ≤ len v := le_len (by norm_num) (by linarith)
  have hL0 : 0 < len v := by linarith
  have hw := abs_dot_le_of_coord hq.1 hq.2.1 hq.2.2 (abs_x_le_len v) (abs_y_le_len v) (abs_z_le_len v)
  have hw' := abs_le.mp hw
  have hLL := len_mul_self v
  have hsm : 3 * (3 * (eps / 1000) * len v) < eps * (len v * len v) := by
    have : eps * (1 / 16 * len v) ≤ eps * (len v * len v) :=
      mul_le_mul_of_nonneg_left (mul_le_mul_of_nonneg_right hL hL0.le) heps.le
    nlinarith [mul_pos heps hL0]
  constructor
  · rw [gt_iff_lt, lt_div_iff₀ hL0, lt_div_iff₀ hL0, ← hLL]
    nlinarith [mul_nonneg ht0 (mul_nonneg hL0.le hL0.le)]
  · rw [div_lt_iff₀ hL0, div_lt_iff₀ hL0, ← hLL]
    have : t * (len v * len v) ≤ 1 * (len v * len v) :=
      mul_le_mul_of_nonneg_right ht1 (mul_nonneg hL0.le hL0.le)
    nlinarith

/-- (b) **Segment contains the other segment's points.**  `x = S.s + t·(S.e − S.s)`, `0 ≤ t ≤ 1`, lies exactly on `S`;
    `S'` is a copy whose end points are perturbed by ≤ eps/1000 per coordinate; `|S.e − S.s| ≥ 1/10`; `t = 0` or `t² ≥ eps`
    (both end points qualify as soon as eps ≤ 1). -/
theorem Segment.containsT_of_close {eps t : ℝ} {S S' : Segment} (heps : 0 < eps) (heps1 : eps ≤ 1)
    (hs : closeBy (eps / 1000) S.s S'.s) (he : closeBy (eps / 1000) S.e S'.e)
    (hd : 1 / 100 ≤ dot (sub S.e S.s) (sub S.e S.s)) (ht0 : 0 ≤ t) (ht1 : t ≤ 1)
    (ht : t = 0 ∨ eps ≤ t ^ 2) :
    Segment.containsT eps S' (add S.s (smul t (sub S.e S.s))) := by
  unfold Segment.containsT
  by_cases hnear : len (sub (add S.s (smul t (sub S.e S.s))) S'.s) < eps
  · exact Or.inl hnear
  · refine Or.inr ⟨hnear, ?_, ?_⟩
    · exact Line.containsT_of_close2 (l := S.line) (l' := S'.line) heps heps1 hs (hs.sub he) hd ht
    · have hdv := hs.sub he
      have hv := (dot_pos_of_close (c := 1 / 256) (γ := 2 * (eps / 1000)) (by nlinarith) (by norm_num) hdv).1
      -- q = (s − s') + t·((e − s) − (e' − s'))
      have e : dot (sub (add S.s (smul t (sub S.e S.s))) S'.s) (sub S'.e S'.s)
          = t * dot (sub S'.e S'.s) (sub S'.e S'.s)
            + dot (add (sub S.s S'.s) (smul t (sub (sub S.e S.s) (sub S'.e S'.s)))) (sub S'.e S'.s) := by
        simp only [dot, sub, add, smul]; ring
      unfold Segment.rel
      rw [e]
      apply rel_bounds heps ht0 ht1 hv
      obtain ⟨a1, a2, a3⟩ := hs.symm.sub_coord
      obtain ⟨b1, b2, b3⟩ := hdv.symm.sub_coord
      have hδ : 0 ≤ eps / 1000 := by linarith
      have key : ∀ a b : ℝ, |a| ≤ eps / 1000 → |b| ≤ 2 * (eps / 1000) → |a + t * b| ≤ 3 * (eps / 1000) := by
        intro a b ha hb
        have h1 := abs_add_le a (t * b)
        have h2 : |t * b| ≤ 1 * (2 * (eps / 1000)) := by
          rw [abs_mul, abs_of_nonneg ht0]
          exact mul_le_mul ht1 hb (abs_nonneg _) (by norm_num)
        linarith
      exact ⟨key _ _ a1 b1, key _ _ a2 b2, key _ _ a3 b3⟩

/-! ## HalfLine -/

/-- `v·v' ≥ 0` for a perturbed copy `v'` of `v` (|v| ≥ 1/10, perturbation ≤ 1/100 per coordinate) -/
theorem dot_close_nonneg {v v' : R3} {γ : ℝ} (hγ : γ ≤ 1 / 100) (h : closeBy γ v v')
    (hv : 1 / 100 ≤ dot v v) : 0 ≤ dot v v' := by
  have hγ0 : 0 ≤ γ := le_trans (abs_nonneg _) h.1
  obtain ⟨a1, a2, a3⟩ := h.sub_coord
  have hff := dot_self_le_of_coord a1 a2 a3
  have e : dot v v' = (dot v v + dot v' v' - dot (sub v' v) (sub v' v)) / 2 := by
    simp only [dot, sub]; ring
  have := dot_self_nonneg v'
  rw [e]; nlinarith

/-- (a) **HalfLine equality**: point and vector perturbed by ≤ eps/1000 per coordinate, `|v| ≥ 1/10`, `eps ≤ 1`. -/
theorem HalfLine.eqT_of_close {eps : ℝ} {H H' : HalfLine} (heps : 0 < eps) (heps1 : eps ≤ 1)
    (hp : closeBy (eps / 1000) H.p H'.p) (hv : closeBy (eps / 1000) H.v H'.v)
    (hvv : 1 / 100 ≤ dot H.v H.v) :
    HalfLine.eqT eps H H' ∧ HalfLine.eqT eps H' H := by
  have hv' := dot_pos_of_close (c := 1 / 256) (γ := eps / 1000) (by nlinarith) (by norm_num) hv
  have hc := normalized_closeBy (by linarith) hv'.1 hv
  have small : ∀ a : R3, (|a.x| ≤ 48 * (eps / 1000) ∧ |a.y| ≤ 48 * (eps / 1000) ∧ |a.z| ≤ 48 * (eps / 1000)) →
      len a < eps := by
    intro a ha
    apply len_lt heps
    have := dot_self_le_of_coord ha.1 ha.2.1 ha.2.2
    nlinarith [mul_pos heps heps]
  exact ⟨⟨(vecEq_of_close heps hp).1, small _ hc.symm.sub_coord⟩,
    ⟨(vecEq_of_close heps hp).2, small _ hc.sub_coord⟩⟩

/-- (b) **HalfLine contains the other half-line's points.**  `x = H.p + t·H.v`, `t ≥ 0`, lies exactly on `H`; copy perturbed
    by ≤ eps/1000 per coordinate; `1/10 ≤ |H.v|`, coordinates of `H.v` at most 300 in absolute value; `t = 0` or `t² ≥ eps`. -/
theorem HalfLine.containsT_of_close {eps t : ℝ} {H H' : HalfLine} (heps : 0 < eps) (heps1 : eps ≤ 1)
    (hp : closeBy (eps / 1000) H.p H'.p) (hv : closeBy (eps / 1000) H.v H'.v)
    (hvv : 1 / 100 ≤ dot H.v H.v) (hM : |H.v.x| ≤ 300 ∧ |H.v.y| ≤ 300 ∧ |H.v.z| ≤ 300)
    (ht0 : 0 ≤ t) (ht : t = 0 ∨ eps ≤ t ^ 2) :
    HalfLine.containsT eps H' (add H.p (smul t H.v)) := by
  refine ⟨Line.containsT_of_close (l := H.line) (l' := H'.line) heps heps1 hp hv hvv ht, ?_⟩
  have e : dot (sub (add H.p (smul t H.v)) H'.p) H'.v = t * dot H.v H'.v + dot (sub H.p H'.p) H'.v := by
    simp only [dot, sub, add, smul]; ring
  rw [e]
  have h1 := dot_close_nonneg (by linarith) hv hvv
  obtain ⟨a1, a2, a3⟩ := hp.symm.sub_coord
  obtain ⟨b1, b2, b3⟩ := hv
  have m : ∀ a b : ℝ, |a| ≤ 300 → |b - a| ≤ eps / 1000 → |b| ≤ 301 := by
    intro a b ha hb
    have : b = a + (b - a) := by ring
    rw [this]
    have := abs_add_le a (b - a)
    linarith
  have h2 := abs_dot_le_of_coord a1 a2 a3 (m _ _ hM.1 b1) (m _ _ hM.2.1 b2) (m _ _ hM.2.2 b3)
  have h3 := (abs_le.mp h2).1
  have h4 : 0 ≤ t * dot H.v H'.v := mul_nonneg ht0 h1
  linarith

/-- **HalfLine in HalfLine** (halfline.py:71-76) for perturbed copies, both orders -/
theorem HalfLine.containsHL_of_close {eps : ℝ} {H H' : HalfLine} (heps : 0 < eps) (heps1 : eps ≤ 1)
    (hp : closeBy (eps / 1000) H.p H'.p) (hv : closeBy (eps / 1000) H.v H'.v)
    (hvv : 1 / 100 ≤ dot H.v H.v) (hM : |H.v.x| ≤ 300 ∧ |H.v.y| ≤ 300 ∧ |H.v.z| ≤ 300) :
    HalfLine.containsHL eps H' H ∧ HalfLine.containsHL eps H H' := by
  have hlt : eps / 1000 < eps := by linarith
  have hl := Line.eqT_of_close (l := H.line) (l' := H'.line) heps hp hv
  have h1 := dot_close_nonneg (γ := eps / 1000) (by linarith) hv hvv
  have hcomm : dot H'.v H.v = dot H.v H'.v := by simp only [dot]; ring
  -- the apex of each half-line is within eps of the other apex: early exit of `parallel`, then `0·… > -eps`
  have apex : ∀ (K : HalfLine) (y : R3), vecEq eps y K.p →
      (|(sub y K.p).x| ≤ eps / 1000 ∧ |(sub y K.p).y| ≤ eps / 1000 ∧ |(sub y K.p).z| ≤ eps / 1000) →
      (|K.v.x| ≤ 301 ∧ |K.v.y| ≤ 301 ∧ |K.v.z| ≤ 301) → HalfLine.containsT eps K y := by
    intro K y hy hc hK
    refine ⟨Line.containsT_near K.line hy, ?_⟩
    have := abs_dot_le_of_coord hc.1 hc.2.1 hc.2.2 hK.1 hK.2.1 hK.2.2
    have := (abs_le.mp this).1
    linarith
  have m : ∀ a b : ℝ, |a| ≤ 300 → |b - a| ≤ eps / 1000 → |b| ≤ 301 := by
    intro a b ha hb
    have : b = a + (b - a) := by ring
    rw [this]
    have := abs_add_le a (b - a)
    linarith
  have hM' : |H'.v.x| ≤ 301 ∧ |H'.v.y| ≤ 301 ∧ |H'.v.z| ≤ 301 :=
    ⟨m _ _ hM.1 hv.1, m _ _ hM.2.1 hv.2.1, m _ _ hM.2.2 hv.2.2⟩
  have hM1 : |H.v.x| ≤ 301 ∧ |H.v.y| ≤ 301 ∧ |H.v.z| ≤ 301 :=
    ⟨by linarith [hM.1], by linarith [hM.2.1], by linarith [hM.2.2]⟩
  refine ⟨⟨hl.2, apex H' H.p (vecEq_of_close heps hp).1 hp.symm.sub_coord hM', ?_⟩,
    ⟨hl.1, apex H H'.p (vecEq_of_close heps hp).2 hp.sub_coord hM1, ?_⟩⟩
  · rw [hcomm]; linarith
  · linarith

end G3D.TolGeo
