import G3D.Extracted.Khash
import G3D.Proofs.KhashLemmas
/-! # khash, `ConvexPolyhedron.__hash__`, `_get_polygon_hash_sum`, `_get_point_hash_sum`: the STRUCTURE of the hashed tuple, for every
    reading of the comparisons  (C08)
    `G3D.Extracted.impl_hash_*` are regenerated on every run (tools/extract_khash.py, engine tools/khash_engine.py on tools/kernels_engine.py):
    the REAL `__hash__` bodies are run on symbolic numbers with `hash` / `round` / `get_sig_figures` / `get_eps` shimmed; `H` is the
    uninterpreted hash of a tuple, `rnd` / `rndI` the uninterpreted `round(., get_sig_figures())` on numbers / integers, `sig` / `neg`
    the uninterpreted answers to `abs(c) > get_eps()` / `c < 0`.  Every statement holds FOR ALL H, rnd, rndI.  Each kernel has its own
    `section` (marker `impl_<kernel>_EXTRACTION_FAILED` when its walk fails).
    The polyhedron is walked in two shapes: 4 triangular faces / 4 vertices (tetrahedron) and 1 quadrilateral + 4 triangular faces /
    5 vertices (square pyramid); the object is assembled from the attributes `convex_polygons`, `point_set` the bodies read (the
    constructor is not run; a tuple stands in for the set `point_set`, whose iteration order is arbitrary anyway — the vertex sum is
    order-independent, `Polyhedron.hashTupleAbs_eq_of_sameB`).  The face points and the vertices are independent symbolic triples:
    nothing is assumed about their relation.  The hash delegates to `ConvexPolygon.__hash__` and `Point.__hash__`: the extracted
    text calls `impl_hash_ConvexPolygon3/4` and `impl_hash_Point`.  End-to-end statements: `KTieKhashPolyhedronEq`. -/
namespace G3D.KTie.Khash
open G3D G3D.Extracted G3D.KTie

section hash_ConvexPolyhedron_tetra
/-- the extracted polygon hash on a vertex LIST (only triangles occur in this shape) -/
noncomputable def implFace3 (H : HFun) (rnd : ℝ → ℝ) (rndI : Int → Int) (sig neg : ℝ → Bool) (pts : List RVec) (pp pn : RVec) : Int :=
  match pts with
  | [a, b, c] => impl_hash_ConvexPolygon3 H rnd rndI sig neg a b c pp pn
  | _ => 0

/-- `_get_polygon_hash_sum`: the sum of the EXTRACTED polygon hashes over the face list -/
theorem polygonHashSum_tetra_tie (H : HFun) (rnd : ℝ → ℝ) (rndI : Int → Int) (sig neg : ℝ → Bool)
    (f0a f0b f0c f0p f0n f1a f1b f1c f1p f1n f2a f2b f2c f2p f2n f3a f3b f3c f3p f3n v0 v1 v2 v3 : RVec) :
    impl_polygonHashSum_ConvexPolyhedron_tetra H rnd rndI sig neg f0a f0b f0c f0p f0n f1a f1b f1c f1p f1n f2a f2b f2c f2p f2n
        f3a f3b f3c f3p f3n v0 v1 v2 v3
      = ([([f0a, f0b, f0c], f0p, f0n), ([f1a, f1b, f1c], f1p, f1n), ([f2a, f2b, f2c], f2p, f2n), ([f3a, f3b, f3c], f3p, f3n)].map
          (fun f => implFace3 H rnd rndI sig neg f.1 f.2.1 f.2.2)).sum := by
  simp only [impl_polygonHashSum_ConvexPolyhedron_tetra, implFace3, List.map, List.sum_cons, List.sum_nil]; ring

/-- `_get_point_hash_sum`: the sum of the EXTRACTED point hashes over the vertex list -/
theorem pointHashSum_tetra_tie (H : HFun) (rnd : ℝ → ℝ)
    (f0a f0b f0c f0p f0n f1a f1b f1c f1p f1n f2a f2b f2c f2p f2n f3a f3b f3c f3p f3n v0 v1 v2 v3 : RVec) :
    impl_pointHashSum_ConvexPolyhedron_tetra H rnd f0a f0b f0c f0p f0n f1a f1b f1c f1p f1n f2a f2b f2c f2p f2n
        f3a f3b f3c f3p f3n v0 v1 v2 v3 = ([v0, v1, v2, v3].map (impl_hash_Point H rnd)).sum := by
  simp only [impl_pointHashSum_ConvexPolyhedron_tetra, List.map, List.sum_cons, List.sum_nil]; ring

/-- **the extracted tuple is `("ConvexPolyhedron", round(Σ_faces hash(face)), round(Σ_vertices hash(vertex)))`** with the extracted
    polygon and point hashes; for EVERY reading of the comparisons -/
theorem hash_ConvexPolyhedron_tetra_shape (H : HFun) (rnd : ℝ → ℝ) (rndI : Int → Int) (sig neg : ℝ → Bool)
    (f0a f0b f0c f0p f0n f1a f1b f1c f1p f1n f2a f2b f2c f2p f2n f3a f3b f3c f3p f3n v0 v1 v2 v3 : RVec) :
    impl_hash_ConvexPolyhedron_tetra H rnd rndI sig neg f0a f0b f0c f0p f0n f1a f1b f1c f1p f1n f2a f2b f2c f2p f2n
        f3a f3b f3c f3p f3n v0 v1 v2 v3
      = polyhedronHashAbs H rndI (impl_hash_Point H rnd) (implFace3 H rnd rndI sig neg)
          [([f0a, f0b, f0c], f0p, f0n), ([f1a, f1b, f1c], f1p, f1n), ([f2a, f2b, f2c], f2p, f2n), ([f3a, f3b, f3c], f3p, f3n)]
          [v0, v1, v2, v3] := by
  have e1 := polygonHashSum_tetra_tie H rnd rndI sig neg f0a f0b f0c f0p f0n f1a f1b f1c f1p f1n f2a f2b f2c f2p f2n
    f3a f3b f3c f3p f3n v0 v1 v2 v3
  have e2 := pointHashSum_tetra_tie H rnd f0a f0b f0c f0p f0n f1a f1b f1c f1p f1n f2a f2b f2c f2p f2n f3a f3b f3c f3p f3n v0 v1 v2 v3
  simp only [impl_polygonHashSum_ConvexPolyhedron_tetra] at e1
  simp only [impl_pointHashSum_ConvexPolyhedron_tetra] at e2
  simp only [impl_hash_ConvexPolyhedron_tetra, polyhedronHashAbs, e1, e2]

theorem hash_ConvexPolyhedron_tetra_paths :
    impl_hash_ConvexPolyhedron_tetra_oracles = [("sig", "abs(R) > eps"), ("neg", "R < 0")] ∧
    impl_hash_ConvexPolyhedron_tetra_paths = [[]] ∧ impl_polygonHashSum_ConvexPolyhedron_tetra_paths = [[]] ∧
    impl_pointHashSum_ConvexPolyhedron_tetra_oracles = [] ∧ impl_pointHashSum_ConvexPolyhedron_tetra_paths = [[]] := by decide

/-- (C19) every `round` of the body takes its digit count from the LIVE `get_sig_figures()` (offset 0) -/
theorem hash_ConvexPolyhedron_tetra_roundings :
    impl_hash_ConvexPolyhedron_tetra_roundings = [0] ∧ impl_polygonHashSum_ConvexPolyhedron_tetra_roundings = [] ∧
    impl_pointHashSum_ConvexPolyhedron_tetra_roundings = [] := by decide
end hash_ConvexPolyhedron_tetra

section hash_ConvexPolyhedron_pyramid
/-- the extracted polygon hash on a vertex LIST (triangles and quadrilaterals) -/
noncomputable def implFace34 (H : HFun) (rnd : ℝ → ℝ) (rndI : Int → Int) (sig neg : ℝ → Bool) (pts : List RVec) (pp pn : RVec) : Int :=
  match pts with
  | [a, b, c] => impl_hash_ConvexPolygon3 H rnd rndI sig neg a b c pp pn
  | [a, b, c, d] => impl_hash_ConvexPolygon4 H rnd rndI sig neg a b c d pp pn
  | _ => 0

theorem hash_ConvexPolyhedron_pyramid_shape (H : HFun) (rnd : ℝ → ℝ) (rndI : Int → Int) (sig neg : ℝ → Bool)
    (f0a f0b f0c f0d f0p f0n f1a f1b f1c f1p f1n f2a f2b f2c f2p f2n f3a f3b f3c f3p f3n f4a f4b f4c f4p f4n v0 v1 v2 v3 v4 : RVec) :
    impl_hash_ConvexPolyhedron_pyramid H rnd rndI sig neg f0a f0b f0c f0d f0p f0n f1a f1b f1c f1p f1n f2a f2b f2c f2p f2n
        f3a f3b f3c f3p f3n f4a f4b f4c f4p f4n v0 v1 v2 v3 v4
      = polyhedronHashAbs H rndI (impl_hash_Point H rnd) (implFace34 H rnd rndI sig neg)
          [([f0a, f0b, f0c, f0d], f0p, f0n), ([f1a, f1b, f1c], f1p, f1n), ([f2a, f2b, f2c], f2p, f2n), ([f3a, f3b, f3c], f3p, f3n),
           ([f4a, f4b, f4c], f4p, f4n)] [v0, v1, v2, v3, v4] := by
  have e1 : ([([f0a, f0b, f0c, f0d], f0p, f0n), ([f1a, f1b, f1c], f1p, f1n), ([f2a, f2b, f2c], f2p, f2n), ([f3a, f3b, f3c], f3p, f3n),
      ([f4a, f4b, f4c], f4p, f4n)].map (fun f => implFace34 H rnd rndI sig neg f.1 f.2.1 f.2.2)).sum
      = (0 : Int) + impl_hash_ConvexPolygon4 H rnd rndI sig neg f0a f0b f0c f0d f0p f0n
        + impl_hash_ConvexPolygon3 H rnd rndI sig neg f1a f1b f1c f1p f1n + impl_hash_ConvexPolygon3 H rnd rndI sig neg f2a f2b f2c f2p f2n
        + impl_hash_ConvexPolygon3 H rnd rndI sig neg f3a f3b f3c f3p f3n
        + impl_hash_ConvexPolygon3 H rnd rndI sig neg f4a f4b f4c f4p f4n := by
    simp only [implFace34, List.map, List.sum_cons, List.sum_nil]; ring
  have e2 : ([v0, v1, v2, v3, v4].map (impl_hash_Point H rnd)).sum
      = (0 : Int) + impl_hash_Point H rnd v0 + impl_hash_Point H rnd v1 + impl_hash_Point H rnd v2 + impl_hash_Point H rnd v3
        + impl_hash_Point H rnd v4 := by
    simp only [List.map, List.sum_cons, List.sum_nil]; ring
  simp only [impl_hash_ConvexPolyhedron_pyramid, polyhedronHashAbs, e1, e2]

theorem hash_ConvexPolyhedron_pyramid_paths :
    impl_hash_ConvexPolyhedron_pyramid_oracles = [("sig", "abs(R) > eps"), ("neg", "R < 0")] ∧
    impl_hash_ConvexPolyhedron_pyramid_paths = [[]] := by decide

/-- (C19) every `round` of the body takes its digit count from the LIVE `get_sig_figures()` (offset 0) -/
theorem hash_ConvexPolyhedron_pyramid_roundings : impl_hash_ConvexPolyhedron_pyramid_roundings = [0] := by decide
end hash_ConvexPolyhedron_pyramid

#print axioms hash_ConvexPolyhedron_tetra_shape
#print axioms hash_ConvexPolyhedron_pyramid_shape
end G3D.KTie.Khash
