import G3D.Extracted.Kernelsr
import G3D.Model.Distance
import G3D.Model.Angle
import G3D.Proofs.Vec
import G3D.Proofs.Flat
import G3D.Proofs.Heron
import G3D.Proofs.KernelsTie
import Mathlib.Analysis.Real.Sqrt
import Mathlib.Tactic.Ring
import Mathlib.Tactic.Linarith
import Mathlib.Tactic.FieldSimp
import Mathlib.Tactic.Positivity
/-! # The extracted arithmetic kernels ARE the model's quantities (part with square roots, over ℝ)
    `G3D.Extracted.impl_*` (G3D/Extracted/Kernelsr.lean) are regenerated on every run by tools/extract_kernelsr.py.
    The model keeps lengths and distances squared and normals unnormalised; the theorems below show that the terms the
    code evaluates (with `sqrt`, `abs`, the unit normal stored by `Plane`) are the square roots / the zero sets of the
    model's rational quantities, for real arguments and in particular for the casts of rational model vectors. -/
namespace G3D.KernelsTieReal
open G3D G3D.Extracted Real

/-! ### real triples -/
theorem RVec.ext' {a b : RVec} (hx : a.x = b.x) (hy : a.y = b.y) (hz : a.z = b.z) : a = b := by
  cases a; cases b; simp_all

theorem nsq_nonneg (a : RVec) : 0 ≤ RVec.normSq a := by
  simp only [RVec.normSq, RVec.dot]; nlinarith [mul_self_nonneg a.x, mul_self_nonneg a.y, mul_self_nonneg a.z]

theorem nsq_eq_zero {a : RVec} : RVec.normSq a = 0 ↔ a = RVec.zero := by
  constructor
  · intro h
    simp only [RVec.normSq, RVec.dot] at h
    apply RVec.ext' <;> simp only [RVec.zero] <;>
      nlinarith [mul_self_nonneg a.x, mul_self_nonneg a.y, mul_self_nonneg a.z]
  · rintro rfl; simp [RVec.normSq, RVec.dot, RVec.zero]

theorem nsq_pos {a : RVec} (h : a ≠ RVec.zero) : 0 < RVec.normSq a :=
  lt_of_le_of_ne (nsq_nonneg a) (fun e => h (nsq_eq_zero.mp e.symm))

theorem lagrangeR (a b : RVec) :
    RVec.normSq (RVec.cross a b) = RVec.normSq a * RVec.normSq b - (RVec.dot a b) ^ 2 := by
  simp only [RVec.normSq, RVec.dot, RVec.cross]; ring

/-- the form in which the code's `v * v` appears: `0 + x*x + y*y + z*z` -/
theorem sum0 (a : RVec) : (0 : ℝ) + a.x * a.x + a.y * a.y + a.z * a.z = RVec.normSq a := by
  simp only [RVec.normSq, RVec.dot]; ring

/-! ### casts of the rational model -/
@[simp] theorem toR_x (a : V3) : a.toR.x = (a.x : ℝ) := rfl
@[simp] theorem toR_y (a : V3) : a.toR.y = (a.y : ℝ) := rfl
@[simp] theorem toR_z (a : V3) : a.toR.z = (a.z : ℝ) := rfl

theorem toR_dot (a b : V3) : RVec.dot a.toR b.toR = ((V3.dot a b : ℚ) : ℝ) := by
  simp only [RVec.dot, V3.dot, toR_x, toR_y, toR_z]; push_cast; ring
theorem toR_normSq (a : V3) : RVec.normSq a.toR = ((V3.normSq a : ℚ) : ℝ) := toR_dot a a
theorem toR_sub (a b : V3) : RVec.sub a.toR b.toR = (V3.sub a b).toR := by
  apply RVec.ext' <;> simp [RVec.sub, V3.sub]
theorem toR_add (a b : V3) : RVec.add a.toR b.toR = (V3.add a b).toR := by
  apply RVec.ext' <;> simp [RVec.add, V3.add]
theorem toR_cross (a b : V3) : RVec.cross a.toR b.toR = (V3.cross a b).toR := by
  apply RVec.ext' <;> simp [RVec.cross, V3.cross]
theorem toR_smul (k : ℚ) (a : V3) : RVec.smul (k : ℝ) a.toR = (V3.smul k a).toR := by
  apply RVec.ext' <;> simp [RVec.smul, V3.smul]
theorem toR_inj {a b : V3} : a.toR = b.toR ↔ a = b := by
  constructor
  · intro h
    have hx := congrArg RVec.x h; have hy := congrArg RVec.y h; have hz := congrArg RVec.z h
    simp only [toR_x, toR_y, toR_z, Rat.cast_inj] at hx hy hz
    exact V3.ext' hx hy hz
  · rintro rfl; rfl
theorem toR_zero : V3.zero.toR = RVec.zero := by apply RVec.ext' <;> simp [V3.zero, RVec.zero]

/-! ### C06 / C10  `Vector.length`, `Vector.normalized`, `Point.distance` -/
theorem length_tie (a : RVec) : impl_length a = √(RVec.normSq a) := by
  simp only [impl_length, sum0]

theorem length_cast (a : V3) : impl_length a.toR = √((V3.normSq a : ℚ) : ℝ) := by
  rw [length_tie, toR_normSq]

theorem normalized_tie (a : RVec) : impl_normalized a = RVec.smul (1 / √(RVec.normSq a)) a := by
  apply RVec.ext' <;> simp only [impl_normalized, sum0, RVec.smul] <;> ring

theorem normalized_unit (a : RVec) (h : a ≠ RVec.zero) : RVec.normSq (impl_normalized a) = 1 := by
  rw [normalized_tie]
  have hN := nsq_pos h
  have hs : √(RVec.normSq a) ^ 2 = RVec.normSq a := Real.sq_sqrt hN.le
  have hs0 : √(RVec.normSq a) ≠ 0 := (Real.sqrt_pos.mpr hN).ne'
  have : RVec.normSq (RVec.smul (1 / √(RVec.normSq a)) a) = RVec.normSq a / √(RVec.normSq a) ^ 2 := by
    simp only [RVec.normSq, RVec.dot, RVec.smul]; field_simp
  rw [this, hs]; exact div_self hN.ne'

theorem pointDistance_tie (p q : RVec) : impl_pointDistance p q = √(RVec.normSq (RVec.sub q p)) := by
  simp only [impl_pointDistance]
  congr 1
  simp only [RVec.normSq, RVec.dot, RVec.sub]; ring

theorem distPointPoint_tie (p q : RVec) : impl_distPointPoint p q = √(RVec.normSq (RVec.sub q p)) := by
  simp only [impl_distPointPoint]
  congr 1
  simp only [RVec.normSq, RVec.dot, RVec.sub]; ring

/-- the library has two point–point distances (`Point.distance` and `distance(Point, Point)`); both are the square
    root of the model's squared distance -/
theorem distPointPoint_cast (p q : V3) :
    impl_distPointPoint p.toR q.toR = √((distSqPointPoint p q : ℚ) : ℝ) ∧
    impl_pointDistance p.toR q.toR = √((distSqPointPoint p q : ℚ) : ℝ) := by
  rw [distPointPoint_tie, pointDistance_tie, toR_sub, toR_normSq]; exact ⟨rfl, rfl⟩


/-! ### C11 / C19  `Vector.parallel` -/
theorem parallel_tie (a b : RVec) :
    impl_parallel_residual a b = |RVec.dot a b| - √(RVec.normSq a) * √(RVec.normSq b) ∧
    impl_parallel_scale a b = √(RVec.normSq a) := by
  constructor
  · simp only [impl_parallel_residual, sum0]
    congr 2
    simp only [RVec.dot]; ring
  · simp only [impl_parallel_scale, sum0]

/-- the recorded residual vanishes iff equality holds in Cauchy–Schwarz (the model's `V3.parallel`) -/
theorem parallel_iff_sq (a b : RVec) :
    impl_parallel_residual a b = 0 ↔ (RVec.dot a b) ^ 2 = RVec.normSq a * RVec.normSq b := by
  rw [(parallel_tie a b).1, ← Real.sqrt_mul (nsq_nonneg a), sub_eq_zero]
  have hAB : 0 ≤ RVec.normSq a * RVec.normSq b := mul_nonneg (nsq_nonneg a) (nsq_nonneg b)
  constructor
  · intro h
    have := congrArg (· ^ 2) h
    simp only [sq_abs, Real.sq_sqrt hAB] at this
    exact this
  · intro h
    rw [← h, Real.sqrt_sq_eq_abs]

/-- Lagrange: the residual vanishes iff the cross product does -/
theorem parallel_iff_cross (a b : RVec) : impl_parallel_residual a b = 0 ↔ RVec.cross a b = RVec.zero := by
  rw [parallel_iff_sq, ← nsq_eq_zero, lagrangeR]
  constructor <;> intro h <;> linarith

/-- the right-hand side `eps * |a|` of the recorded test is a positive multiple of eps exactly when `a ≠ 0`
    (the zero vectors are taken out by the shortcuts before) -/
theorem parallel_scale_pos (a b : RVec) (h : a ≠ RVec.zero) : 0 < impl_parallel_scale a b := by
  rw [(parallel_tie a b).2]; exact Real.sqrt_pos.mpr (nsq_pos h)

theorem parallel_cast (a b : V3) : impl_parallel_residual a.toR b.toR = 0 ↔ V3.parallel a b = true := by
  rw [parallel_iff_sq, toR_dot, toR_normSq, toR_normSq]
  simp only [V3.parallel, beq_iff_eq]
  constructor
  · intro h; exact_mod_cast h
  · intro h; exact_mod_cast h

/-- the three shortcuts of `Vector.parallel` (self zero, other zero, equal) return True; read exactly they are
    `a = 0`, `b = 0`, `a = b`, and on each of them the model's test is true as well -/
theorem parallel_shortcuts (a b : V3) :
    ((impl_parallelSelfZero_residual0 a.toR b.toR = 0 ∧ impl_parallelSelfZero_residual1 a.toR b.toR = 0 ∧
        impl_parallelSelfZero_residual2 a.toR b.toR = 0) → V3.parallel a b = true) ∧
    ((impl_parallelOtherZero_residual0 a.toR b.toR = 0 ∧ impl_parallelOtherZero_residual1 a.toR b.toR = 0 ∧
        impl_parallelOtherZero_residual2 a.toR b.toR = 0) → V3.parallel a b = true) ∧
    ((impl_parallelEqual_residual0 a.toR b.toR = 0 ∧ impl_parallelEqual_residual1 a.toR b.toR = 0 ∧
        impl_parallelEqual_residual2 a.toR b.toR = 0) → V3.parallel a b = true) := by
  simp only [impl_parallelSelfZero_residual0, impl_parallelSelfZero_residual1, impl_parallelSelfZero_residual2,
    impl_parallelOtherZero_residual0, impl_parallelOtherZero_residual1, impl_parallelOtherZero_residual2,
    impl_parallelEqual_residual0, impl_parallelEqual_residual1, impl_parallelEqual_residual2,
    toR_x, toR_y, toR_z, sub_zero, Rat.cast_eq_zero, sub_eq_zero, Rat.cast_inj, V3.parallel, beq_iff_eq,
    V3.normSq, V3.dot]
  refine ⟨?_, ?_, ?_⟩
  · rintro ⟨h1, h2, h3⟩; rw [h1, h2, h3]; ring
  · rintro ⟨h1, h2, h3⟩; rw [h1, h2, h3]; ring
  · rintro ⟨h1, h2, h3⟩; rw [h1, h2, h3]; ring

theorem parallel_shape :
    impl_parallel_shape = "abs(R) < (eps * S)" ∧
    impl_parallel_path = [("abs(R) < eps", false), ("abs(R) < eps", false), ("abs(R) < eps", false),
      ("abs(R) < (eps * S)", true)] ∧
    impl_parallelSelfZero_path = [("abs(R) < eps", true), ("abs(R) < eps", true), ("abs(R) < eps", true)] ∧
    impl_parallelOtherZero_path = [("abs(R) < eps", false), ("abs(R) < eps", true), ("abs(R) < eps", true),
      ("abs(R) < eps", true)] ∧
    impl_parallelEqual_path = [("abs(R) < eps", false), ("abs(R) < eps", false), ("abs(R) < eps", true),
      ("abs(R) < eps", true), ("abs(R) < eps", true)] := by decide

/-! ### C05 / C19  `Line.__contains__(Point)` -/
theorem lineContains_tie (sv dv x : RVec) :
    impl_lineContains_residual sv dv x = impl_parallel_residual (RVec.sub x sv) dv ∧
    impl_lineContains_scale sv dv x = impl_parallel_scale (RVec.sub x sv) dv := ⟨rfl, rfl⟩

theorem lineContains_cast (l : Line) (x : V3) :
    impl_lineContains_residual l.sv.toR l.dv.toR x.toR = 0 ↔ l.contains x = true := by
  rw [(lineContains_tie _ _ _).1, toR_sub, parallel_cast]; rfl

theorem lineContains_shape :
    impl_lineContains_shape = "abs(R) < (eps * S)" ∧
    impl_lineContains_path = [("abs(R) < eps", false), ("abs(R) < eps", false), ("abs(R) < eps", false),
      ("abs(R) < (eps * S)", true)] := by decide

/-! ### C11  `Vector.angle` -/
theorem angle_cosine_tie (a b : RVec) :
    impl_angle_cosine a b = RVec.dot a b / (√(RVec.normSq a) * √(RVec.normSq b)) := by
  simp only [impl_angle_cosine, sum0]
  congr 1
  simp only [RVec.dot]; ring

/-- cos² as computed = the model's `cosSqVec` (unconditionally: both sides are 0 when a vector is zero) -/
theorem angle_cosSq (a b : V3) : (impl_angle_cosine a.toR b.toR) ^ 2 = ((cosSqVec a b : ℚ) : ℝ) := by
  rw [angle_cosine_tie, div_pow, mul_pow, Real.sq_sqrt (nsq_nonneg _), Real.sq_sqrt (nsq_nonneg _),
    toR_dot, toR_normSq, toR_normSq]
  simp only [cosSqVec]; push_cast; ring

/-- Cauchy–Schwarz: the clamp `max(-1.0, min(1.0, cosine))` is the identity on exact values -/
theorem angle_cosine_range (a b : RVec) : -1 ≤ impl_angle_cosine a b ∧ impl_angle_cosine a b ≤ 1 := by
  have hsq : (impl_angle_cosine a b) ^ 2 ≤ 1 := by
    rw [angle_cosine_tie, div_pow, mul_pow, Real.sq_sqrt (nsq_nonneg _), Real.sq_sqrt (nsq_nonneg _)]
    have hl := lagrangeR a b
    have hc := nsq_nonneg (RVec.cross a b)
    have hAB : 0 ≤ RVec.normSq a * RVec.normSq b := mul_nonneg (nsq_nonneg a) (nsq_nonneg b)
    apply div_le_one_of_le₀ _ hAB
    linarith
  have := abs_le_one_iff_mul_self_le_one.mpr (by nlinarith : impl_angle_cosine a b * impl_angle_cosine a b ≤ 1)
  exact abs_le.mp this

theorem angle_path : impl_angle_path = [("R < 1.0", true), ("R > -1.0", true)] := by decide



/-! ### C05 / C19  `Segment.__contains__(Point)` -/
theorem segContains_parts_tie (a b x : RVec) :
    impl_segContains_lineResidual a b x = impl_lineContains_residual a (RVec.sub b a) x ∧
    impl_segContains_lineScale a b x = impl_lineContains_scale a (RVec.sub b a) x ∧
    impl_segContains_startDist a b x = √(RVec.normSq (RVec.sub x a)) := by
  refine ⟨rfl, rfl, ?_⟩
  simp only [impl_segContains_startDist]
  congr 1
  simp only [RVec.normSq, RVec.dot, RVec.sub]; ring

/-- the relative length `v1*v / |v| / |v|` is `v1.v / v.v` (the two square roots cancel, unconditionally) -/
theorem segContains_rel_tie (a b x : RVec) :
    impl_segContains_rel a b x = RVec.dot (RVec.sub x a) (RVec.sub b a) / RVec.normSq (RVec.sub b a) := by
  have hN := nsq_nonneg (RVec.sub b a)
  have key : ∀ d N : ℝ, 0 ≤ N → d / √N / √N = d / N := by
    intro d N h; rw [div_div, Real.mul_self_sqrt h]
  have := key (RVec.dot (RVec.sub x a) (RVec.sub b a)) _ hN
  rw [← this]
  simp only [impl_segContains_rel, RVec.normSq, RVec.dot, RVec.sub, zero_add]

theorem segContains_rel_cast (a b x : V3) :
    impl_segContains_rel a.toR b.toR x.toR
      = ((V3.dot (V3.sub x a) (V3.sub b a) / V3.normSq (V3.sub b a) : ℚ) : ℝ) := by
  rw [segContains_rel_tie, toR_sub, toR_sub, toR_dot, toR_normSq]; push_cast; rfl

/-- `Segment.__contains__` of the model = the code's decision read exactly:
    `|v1| < eps` as `|v1| = 0`, the carrier-line test as `R = 0`, `rel > -eps` as `0 ≤ rel`, `rel < 1 + eps` as `rel ≤ 1` -/
theorem segContains_iff (a b x : V3) :
    (Seg.mk' a b).contains x = true ↔
      impl_segContains_startDist a.toR b.toR x.toR = 0 ∨
      (impl_segContains_lineResidual a.toR b.toR x.toR = 0 ∧ 0 ≤ impl_segContains_rel a.toR b.toR x.toR ∧
        impl_segContains_rel a.toR b.toR x.toR ≤ 1) := by
  obtain ⟨h1, _, h3⟩ := segContains_parts_tie a.toR b.toR x.toR
  rw [h1, h3, segContains_rel_cast, toR_sub, toR_sub, toR_normSq,
    show impl_lineContains_residual a.toR (V3.sub b a).toR x.toR = 0 ↔ (⟨a, V3.sub b a⟩ : Line).contains x = true
      from lineContains_cast ⟨a, V3.sub b a⟩ x]
  have hnn : (0 : ℝ) ≤ ((V3.normSq (V3.sub x a) : ℚ) : ℝ) := by exact_mod_cast G3D.normSq_nonneg (V3.sub x a)
  rw [Real.sqrt_eq_zero hnn]
  simp only [Seg.contains, Seg.mk']
  by_cases h0 : V3.normSq (V3.sub x a) = 0
  · simp [h0]
  · have h0' : ¬ ((V3.normSq (V3.sub x a) : ℚ) : ℝ) = 0 := by exact_mod_cast h0
    simp only [beq_iff_eq, h0, if_false, Bool.and_eq_true, h0', false_or, and_assoc]
    constructor
    · rintro ⟨hl, hr0, hr1⟩
      exact ⟨hl, by exact_mod_cast of_decide_eq_true hr0, by exact_mod_cast of_decide_eq_true hr1⟩
    · rintro ⟨hl, hr0, hr1⟩
      exact ⟨hl, decide_eq_true (by exact_mod_cast hr0), decide_eq_true (by exact_mod_cast hr1)⟩

theorem segContains_paths :
    impl_segContains_path = [("abs(R) < eps", false), ("abs(R) < eps", false), ("abs(R) < eps", false),
      ("abs(R) < (eps * S)", true), ("R < eps", false), ("R > -eps", true), ("R < (1 + eps)", true)] ∧
    impl_segContainsStart_path = [("abs(R) < eps", false), ("abs(R) < eps", false), ("abs(R) < eps", false),
      ("abs(R) < (eps * S)", false), ("R < eps", true)] ∧
    impl_segContainsOffLine_path = [("abs(R) < eps", false), ("abs(R) < eps", false), ("abs(R) < eps", false),
      ("abs(R) < (eps * S)", false), ("R < eps", false)] ∧
    impl_segCtor_path = [("abs(R) < eps", false), ("abs(R) < eps", false)] := by decide

/-- `HalfLine`: the carrier-line test is that of `Line(p, v)`; the constructor's rejection test `|v| < eps` reads `v = 0` -/
theorem halfLine_parts_tie (p v x : RVec) :
    impl_halfLineContains_lineResidual p v x = impl_lineContains_residual p v x ∧
    impl_halfLineCtor_length p v = √(RVec.normSq v) := by
  refine ⟨rfl, ?_⟩
  simp only [impl_halfLineCtor_length, sum0]

theorem halfLineCtor_iff (p v : V3) : impl_halfLineCtor_length p.toR v.toR = 0 ↔ ¬ (HalfLine.mk' p v).WF := by
  rw [(halfLine_parts_tie _ _ _).2, toR_normSq]
  · have hnn : (0 : ℝ) ≤ ((V3.normSq v : ℚ) : ℝ) := by exact_mod_cast G3D.normSq_nonneg v
    rw [Real.sqrt_eq_zero hnn]
    simp only [HalfLine.WF, HalfLine.mk', and_true, ne_eq, not_not, Rat.cast_eq_zero]
    exact G3D.normSq_eq_zero
  · exact p.toR

/-! ### C05 / C19  `Plane.__contains__` with the unit normal that `Plane` stores -/
theorem planeCtor_n_tie (p n : RVec) : impl_planeCtor_n p n = RVec.smul (1 / √(RVec.normSq n)) n := by
  apply RVec.ext' <;> simp only [impl_planeCtor_n, sum0, RVec.smul] <;> ring

theorem planeContainsN_tie (p n x : RVec) :
    impl_planeContainsN_residual p n x = RVec.dot (RVec.sub x p) n / √(RVec.normSq n) := by
  simp only [impl_planeContainsN_residual, sum0, RVec.dot, RVec.sub]; ring

/-- the residual on the stored unit normal vanishes exactly where the model's residual on the raw normal does -/
theorem planeContainsN_cast (pl : Plane) (hw : pl.WF) (x : V3) :
    impl_planeContainsN_residual pl.p.toR pl.n.toR x.toR = 0 ↔ pl.contains x = true := by
  rw [planeContainsN_tie, toR_sub, toR_dot, toR_normSq]
  have hN : (0 : ℝ) < ((V3.normSq pl.n : ℚ) : ℝ) := by exact_mod_cast G3D.normSq_pos hw
  rw [div_eq_zero_iff, or_iff_left (Real.sqrt_pos.mpr hN).ne']
  simp only [Plane.contains, beq_iff_eq, Rat.cast_eq_zero, V3.dot, V3.sub]
  constructor <;> intro h <;> linarith

theorem planeContainsN_shape :
    impl_planeContainsN_shape = "abs(R) < eps" ∧ impl_planeContainsN_path = [("abs(R) < eps", true)] := by decide


/-! ### C10  calc/distance.py -/
/-- closed form of the model's point–line squared distance (foot of the perpendicular) -/
theorem distSqPointLine_eq (a : V3) (b : Line) (hb : b.WF) :
    distSqPointLine a b = .ok (V3.normSq (V3.sub
      (V3.add b.sv (V3.smul ((V3.dot b.dv a - V3.dot b.dv b.sv) / V3.dot b.dv b.dv) b.dv)) a)) := by
  have hN := G3D.normSq_pos hb
  have hno : ¬ V3.orthogonal b.dv b.dv = true := by
    simp only [V3.orthogonal, beq_iff_eq]; intro h
    have : V3.normSq b.dv = 0 := h
    exact absurd this (ne_of_gt hN)
  have hnc : ¬ (⟨a, b.dv⟩ : Plane).containsLine b = true := by
    unfold Plane.containsLine; rw [Bool.and_eq_true]; exact fun h => hno h.2
  unfold distSqPointLine
  simp only [interLinePlane, hnc, hno, if_false, Bool.false_eq_true]
  rfl

theorem distSqPointPlane_eq (a : V3) (b : Plane) (hb : b.WF) :
    distSqPointPlane a b = .ok (V3.normSq (V3.sub
      (V3.add a (V3.smul ((V3.dot b.n b.p - V3.dot b.n a) / V3.dot b.n b.n) b.n)) a)) := by
  have hN := G3D.normSq_pos hb
  have hno : ¬ V3.orthogonal b.n b.n = true := by
    simp only [V3.orthogonal, beq_iff_eq]; intro h
    have : V3.normSq b.n = 0 := h
    exact absurd this (ne_of_gt hN)
  have hnc : ¬ b.containsLine ⟨a, b.n⟩ = true := by
    unfold Plane.containsLine; rw [Bool.and_eq_true]; exact fun h => hno h.2
  unfold distSqPointPlane
  simp only [interLinePlane, hnc, hno, if_false, Bool.false_eq_true]
  rfl

/-- `distance(Point, Line)` through the auxiliary plane with the UNIT normal `dv/|dv|`: the factor cancels in `mu` -/
theorem distPointLine_real (x sv dv : RVec) (h : dv ≠ RVec.zero) :
    impl_distPointLine x sv dv = √(RVec.normSq (RVec.sub
      (RVec.add sv (RVec.smul ((RVec.dot dv x - RVec.dot dv sv) / RVec.normSq dv) dv)) x)) := by
  have hN : dv.x * dv.x + dv.y * dv.y + dv.z * dv.z ≠ 0 := by
    have := nsq_pos h; simp only [RVec.normSq, RVec.dot] at this; exact this.ne'
  have hs0 : √(dv.x * dv.x + dv.y * dv.y + dv.z * dv.z) ≠ 0 := by
    have := nsq_pos h; simp only [RVec.normSq, RVec.dot] at this; exact (Real.sqrt_pos.mpr this).ne'
  simp only [impl_distPointLine, zero_add]
  generalize √(dv.x * dv.x + dv.y * dv.y + dv.z * dv.z) = s at hs0 ⊢
  congr 1
  simp only [RVec.normSq, RVec.dot, RVec.sub, RVec.add, RVec.smul]
  field_simp

theorem cast_foot (a s d : V3) (mu : ℚ) :
    ((V3.normSq (V3.sub (V3.add s (V3.smul mu d)) a) : ℚ) : ℝ)
      = RVec.normSq (RVec.sub (RVec.add s.toR (RVec.smul (mu : ℝ) d.toR)) a.toR) := by
  rw [toR_smul, toR_add, toR_sub, toR_normSq]

/-- for rational inputs the computed distance is the square root of the model's squared distance -/
theorem distPointLine_tie (x : V3) (l : Line) (hl : l.WF) :
    ∃ d2 : ℚ, distSqPointLine x l = .ok d2 ∧ impl_distPointLine x.toR l.sv.toR l.dv.toR = √(d2 : ℝ) := by
  refine ⟨_, distSqPointLine_eq x l hl, ?_⟩
  have hd : l.dv.toR ≠ RVec.zero := fun h => hl (toR_inj.mp (h.trans toR_zero.symm))
  rw [distPointLine_real _ _ _ hd, cast_foot]
  congr 5
  rw [toR_dot, toR_dot, toR_normSq]; push_cast; rfl

/-- `distance(Point, Plane)` through the auxiliary line along the stored UNIT normal -/
theorem distPointPlane_real (x p n : RVec) (h : n ≠ RVec.zero) :
    impl_distPointPlane x p n = √(RVec.normSq (RVec.sub
      (RVec.add x (RVec.smul ((RVec.dot n p - RVec.dot n x) / RVec.normSq n) n)) x)) := by
  have hN : n.x * n.x + n.y * n.y + n.z * n.z ≠ 0 := by
    have := nsq_pos h; simp only [RVec.normSq, RVec.dot] at this; exact this.ne'
  have hs0 : √(n.x * n.x + n.y * n.y + n.z * n.z) ≠ 0 := by
    have := nsq_pos h; simp only [RVec.normSq, RVec.dot] at this; exact (Real.sqrt_pos.mpr this).ne'
  simp only [impl_distPointPlane, zero_add]
  generalize √(n.x * n.x + n.y * n.y + n.z * n.z) = s at hs0 ⊢
  congr 1
  simp only [RVec.normSq, RVec.dot, RVec.sub, RVec.add, RVec.smul]
  field_simp

theorem distPointPlane_tie (x : V3) (pl : Plane) (hw : pl.WF) :
    ∃ d2 : ℚ, distSqPointPlane x pl = .ok d2 ∧ impl_distPointPlane x.toR pl.p.toR pl.n.toR = √(d2 : ℝ) := by
  refine ⟨_, distSqPointPlane_eq x pl hw, ?_⟩
  have hd : pl.n.toR ≠ RVec.zero := fun h => hw (toR_inj.mp (h.trans toR_zero.symm))
  rw [distPointPlane_real _ _ _ hd, cast_foot]
  congr 5
  rw [toR_dot, toR_dot, toR_normSq]; push_cast; rfl

/-- the textbook form: `|n . (x - p)| / |n|` -/
theorem distPointPlane_closed (x p n : RVec) (h : n ≠ RVec.zero) :
    impl_distPointPlane x p n = |RVec.dot n (RVec.sub x p)| / √(RVec.normSq n) := by
  rw [distPointPlane_real x p n h]
  have hN := nsq_pos h
  have hk : ∀ k : ℝ, RVec.normSq (RVec.sub (RVec.add x (RVec.smul k n)) x) = k ^ 2 * RVec.normSq n := by
    intro k; simp only [RVec.normSq, RVec.dot, RVec.sub, RVec.add, RVec.smul]; ring
  have ht : RVec.dot n p - RVec.dot n x = -RVec.dot n (RVec.sub x p) := by
    simp only [RVec.dot, RVec.sub]; ring
  have : RVec.normSq (RVec.sub (RVec.add x (RVec.smul ((RVec.dot n p - RVec.dot n x) / RVec.normSq n) n)) x)
      = (RVec.dot n (RVec.sub x p)) ^ 2 / RVec.normSq n := by
    rw [hk, ht]
    have hN0 := hN.ne'
    field_simp
  rw [this, Real.sqrt_div (sq_nonneg _), Real.sqrt_sq_eq_abs]

/-- `distance(Line, Line)`, skew: `|(s2 - s1) . c/|c||` is the square root of the model's `((s2 - s1) . c)² / c.c` -/
theorem distLineLineSkew_real (s1 d1 s2 d2 : RVec) :
    impl_distLineLineSkew s1 d1 s2 d2
      = √((RVec.dot (RVec.sub s2 s1) (RVec.cross d1 d2)) ^ 2 / RVec.normSq (RVec.cross d1 d2)) := by
  rw [Real.sqrt_div (sq_nonneg _), Real.sqrt_sq_eq_abs, ← abs_of_nonneg (Real.sqrt_nonneg (RVec.normSq _)), ← abs_div]
  simp only [impl_distLineLineSkew, zero_add, RVec.normSq, RVec.dot, RVec.sub, RVec.cross]
  congr 1
  ring

theorem distLineLineSkew_tie (a b : Line) (hpar : V3.parallel a.dv b.dv = false) :
    ∃ d2 : ℚ, distSqLineLine a b = .ok d2 ∧
      impl_distLineLineSkew a.sv.toR a.dv.toR b.sv.toR b.dv.toR = √(d2 : ℝ) := by
  refine ⟨(V3.dot (V3.sub b.sv a.sv) (V3.cross a.dv b.dv)) ^ 2 / V3.normSq (V3.cross a.dv b.dv),
    by simp [distSqLineLine, hpar], ?_⟩
  rw [distLineLineSkew_real, toR_sub, toR_cross, toR_dot, toR_normSq]; push_cast; rfl

/-- the parallel branches delegate: same terms as the point kernels -/
theorem dist_delegations (s1 d1 s2 d2 sv dv p n : RVec) :
    impl_distLineLinePar s1 d1 s2 d2 = impl_distPointLine s1 s2 d2 ∧
    impl_distLinePlanePar sv dv p n = impl_distPointPlane sv p n := ⟨rfl, rfl⟩

theorem distLineLinePar_tie (a b : Line) (hb : b.WF) (hpar : V3.parallel a.dv b.dv = true) :
    ∃ d2 : ℚ, distSqLineLine a b = .ok d2 ∧
      impl_distLineLinePar a.sv.toR a.dv.toR b.sv.toR b.dv.toR = √(d2 : ℝ) := by
  obtain ⟨d2, h1, h2⟩ := distPointLine_tie a.sv b hb
  exact ⟨d2, by simp [distSqLineLine, hpar, h1], by rw [← h2]; rfl⟩

theorem distLinePlanePar_tie (l : Line) (pl : Plane) (hw : pl.WF) (hpar : V3.orthogonal l.dv pl.n = true) :
    ∃ d2 : ℚ, distSqLinePlane l pl = .ok d2 ∧
      impl_distLinePlanePar l.sv.toR l.dv.toR pl.p.toR pl.n.toR = √(d2 : ℝ) := by
  obtain ⟨d2, h1, h2⟩ := distPointPlane_tie l.sv pl hw
  exact ⟨d2, by simp [distSqLinePlane, hpar, h1], by rw [← h2]; rfl⟩

theorem distLinePlaneCross_tie (l : Line) (pl : Plane) (h : V3.orthogonal l.dv pl.n = false) :
    impl_distLinePlaneCross_value = "0.0" ∧ distSqLinePlane l pl = .ok 0 := by
  refine ⟨by decide, by simp [distSqLinePlane, h]⟩

theorem dist_paths :
    impl_distPointLine_path = [("abs(R) < eps", false), ("abs(R) < eps", false)] ∧
    impl_distPointPlane_path = [("abs(R) < eps", false), ("abs(R) < eps", false), ("abs(R) < eps", false)] ∧
    impl_distLineLineSkew_path = [("abs(R) < eps", false), ("abs(R) < eps", false), ("abs(R) < eps", false),
      ("abs(R) < (eps * S)", false)] ∧
    impl_distLineLinePar_path = [("abs(R) < eps", false), ("abs(R) < eps", false), ("abs(R) < eps", false),
      ("abs(R) < (eps * S)", true), ("abs(R) < eps", false), ("abs(R) < eps", false)] ∧
    impl_distLinePlanePar_path = [("abs(R) < eps", true), ("abs(R) < eps", false), ("abs(R) < eps", false),
      ("abs(R) < eps", false)] ∧
    impl_distLinePlaneCross_path = [("abs(R) < eps", false)] := by decide


/-! ### C06  `get_triangle_area` (Heron) -/
/-- Heron's value as computed from the three `Point.distance` calls is half the norm of the cross product -/
theorem triangleArea_tie (pa pb pc : RVec) :
    impl_triangleArea pa pb pc = (1 / 2) * √(RVec.normSq (RVec.cross (RVec.sub pb pa) (RVec.sub pc pa))) := by
  simp only [impl_triangleArea]
  have hA : (0 : ℝ) ≤ (pa.x - pb.x) ^ 2 + (pa.y - pb.y) ^ 2 + (pa.z - pb.z) ^ 2 := by positivity
  have hB : (0 : ℝ) ≤ (pb.x - pc.x) ^ 2 + (pb.y - pc.y) ^ 2 + (pb.z - pc.z) ^ 2 := by positivity
  have hC : (0 : ℝ) ≤ (pc.x - pa.x) ^ 2 + (pc.y - pa.y) ^ 2 + (pc.z - pa.z) ^ 2 := by positivity
  exact heron_sqrt _ _ _ _ hA hB hC (by simp only [RVec.normSq, RVec.dot, RVec.cross, RVec.sub]; ring)


/-! ### C01  `inter_plane_plane` (unit normals as stored, two further normalisations on the way) -/
section interPlanePlane
variable (p1 n1 p2 n2 : RVec)

/-- the four square roots met on the path: `|n1|`, `|n2|`, `|n̂1 × n̂2|`, `|(n̂1 × n̂2)^ × n̂1|`, in terms of the raw normals -/
theorem interPlanePlane_sqrts :
    impl_interPlanePlane_sqrt0 p1 n1 p2 n2 = √(RVec.normSq n1) ∧
    impl_interPlanePlane_sqrt1 p1 n1 p2 n2 = √(RVec.normSq n2) ∧
    impl_interPlanePlane_sqrt2 p1 n1 p2 n2 = √(RVec.normSq (RVec.cross n1 n2) *
      (1 / impl_interPlanePlane_sqrt0 p1 n1 p2 n2 * (1 / impl_interPlanePlane_sqrt1 p1 n1 p2 n2)) ^ 2) ∧
    impl_interPlanePlane_sqrt3 p1 n1 p2 n2 = √(RVec.normSq (RVec.cross (RVec.cross n1 n2) n1) *
      (1 / impl_interPlanePlane_sqrt0 p1 n1 p2 n2 * (1 / impl_interPlanePlane_sqrt1 p1 n1 p2 n2) *
        (1 / impl_interPlanePlane_sqrt2 p1 n1 p2 n2) * (1 / impl_interPlanePlane_sqrt0 p1 n1 p2 n2)) ^ 2) := by
  refine ⟨?_, ?_, ?_, ?_⟩
  · simp only [impl_interPlanePlane_sqrt0, sum0]
  · simp only [impl_interPlanePlane_sqrt1, sum0]
  · rw [impl_interPlanePlane_sqrt2]; congr 1
    simp only [RVec.normSq, RVec.dot, RVec.cross]; ring
  · rw [impl_interPlanePlane_sqrt3]; congr 1
    simp only [RVec.normSq, RVec.dot, RVec.cross]; ring

theorem interPlanePlane_sqrts_pos (h1 : n1 ≠ RVec.zero) (h2 : n2 ≠ RVec.zero) (hc : RVec.cross n1 n2 ≠ RVec.zero) :
    0 < impl_interPlanePlane_sqrt0 p1 n1 p2 n2 ∧ 0 < impl_interPlanePlane_sqrt1 p1 n1 p2 n2 ∧
    0 < impl_interPlanePlane_sqrt2 p1 n1 p2 n2 ∧ 0 < impl_interPlanePlane_sqrt3 p1 n1 p2 n2 := by
  obtain ⟨e0, e1, e2, e3⟩ := interPlanePlane_sqrts p1 n1 p2 n2
  have s0 : 0 < impl_interPlanePlane_sqrt0 p1 n1 p2 n2 := by rw [e0]; exact Real.sqrt_pos.mpr (nsq_pos h1)
  have s1 : 0 < impl_interPlanePlane_sqrt1 p1 n1 p2 n2 := by rw [e1]; exact Real.sqrt_pos.mpr (nsq_pos h2)
  have s2 : 0 < impl_interPlanePlane_sqrt2 p1 n1 p2 n2 := by
    rw [e2]; apply Real.sqrt_pos.mpr; have := nsq_pos hc; positivity
  have hd : 0 < RVec.normSq (RVec.cross (RVec.cross n1 n2) n1) := by
    have : RVec.normSq (RVec.cross (RVec.cross n1 n2) n1) = RVec.normSq (RVec.cross n1 n2) * RVec.normSq n1 := by
      simp only [RVec.normSq, RVec.dot, RVec.cross]; ring
    rw [this]; exact mul_pos (nsq_pos hc) (nsq_pos h1)
  refine ⟨s0, s1, s2, ?_⟩
  rw [e3]; apply Real.sqrt_pos.mpr; positivity

/-- the direction of the returned line is a positive multiple of `n1 × n2` (the model's direction) -/
theorem interPlanePlane_dv_real :
    impl_interPlanePlane_dv p1 n1 p2 n2 =
      RVec.smul (1 / impl_interPlanePlane_sqrt0 p1 n1 p2 n2 * (1 / impl_interPlanePlane_sqrt1 p1 n1 p2 n2) *
        (1 / impl_interPlanePlane_sqrt2 p1 n1 p2 n2)) (RVec.cross n1 n2) := by
  apply RVec.ext' <;> simp only [impl_interPlanePlane_dv, RVec.smul, RVec.cross] <;> ring

theorem ipp_key (px dx N0 D0 k1 K : ℝ) (hk1 : k1 ≠ 0) (hK : K ≠ 0) (hD : D0 ≠ 0) :
    px + (K * dx) * ((k1 * N0) / (k1 * (K * D0))) = px + (N0 / D0) * dx := by
  field_simp

/-- the support point of the returned line is the model's: all four normalisation factors cancel -/
theorem interPlanePlane_sv_real (h1 : n1 ≠ RVec.zero) (h2 : n2 ≠ RVec.zero) (hc : RVec.cross n1 n2 ≠ RVec.zero) :
    impl_interPlanePlane_sv p1 n1 p2 n2 =
      RVec.add p1 (RVec.smul ((RVec.dot n2 p2 - RVec.dot n2 p1) / RVec.dot n2 (RVec.cross (RVec.cross n1 n2) n1))
        (RVec.cross (RVec.cross n1 n2) n1)) := by
  obtain ⟨s0, s1, s2, s3⟩ := interPlanePlane_sqrts_pos p1 n1 p2 n2 h1 h2 hc
  have hD : RVec.dot n2 (RVec.cross (RVec.cross n1 n2) n1) ≠ 0 := by
    have : RVec.dot n2 (RVec.cross (RVec.cross n1 n2) n1) = RVec.normSq (RVec.cross n1 n2) := by
      simp only [RVec.normSq, RVec.dot, RVec.cross]; ring
    rw [this]; exact (nsq_pos hc).ne'
  rw [impl_interPlanePlane_sv]
  generalize impl_interPlanePlane_sqrt0 p1 n1 p2 n2 = t0 at s0 ⊢
  generalize impl_interPlanePlane_sqrt1 p1 n1 p2 n2 = t1 at s1 ⊢
  generalize impl_interPlanePlane_sqrt2 p1 n1 p2 n2 = t2 at s2 ⊢
  generalize impl_interPlanePlane_sqrt3 p1 n1 p2 n2 = t3 at s3 ⊢
  have hk1 : (1 / t1) ≠ 0 := (one_div_pos.mpr s1).ne'
  have hK : (1 / t0 * (1 / t1) * (1 / t2) * (1 / t0) * (1 / t3)) ≠ 0 := by positivity
  apply RVec.ext'
  · have := ipp_key p1.x (RVec.cross (RVec.cross n1 n2) n1).x (RVec.dot n2 p2 - RVec.dot n2 p1)
      (RVec.dot n2 (RVec.cross (RVec.cross n1 n2) n1)) _ _ hk1 hK hD
    simp only [RVec.add, RVec.smul]; rw [← this]
    simp only [RVec.dot, RVec.cross, zero_add]; ring
  · have := ipp_key p1.y (RVec.cross (RVec.cross n1 n2) n1).y (RVec.dot n2 p2 - RVec.dot n2 p1)
      (RVec.dot n2 (RVec.cross (RVec.cross n1 n2) n1)) _ _ hk1 hK hD
    simp only [RVec.add, RVec.smul]; rw [← this]
    simp only [RVec.dot, RVec.cross, zero_add]; ring
  · have := ipp_key p1.z (RVec.cross (RVec.cross n1 n2) n1).z (RVec.dot n2 p2 - RVec.dot n2 p1)
      (RVec.dot n2 (RVec.cross (RVec.cross n1 n2) n1)) _ _ hk1 hK hD
    simp only [RVec.add, RVec.smul]; rw [← this]
    simp only [RVec.dot, RVec.cross, zero_add]; ring
end interPlanePlane


/-- for rational planes, on the path walked (different, not parallel): the model returns the line `⟨q, n1 × n2⟩`; the
    extracted support point IS `q`, the extracted direction is a positive multiple of `n1 × n2` -/
theorem interPlanePlane_tie (a b : Plane) (ha : a.WF) (hb : b.WF) (hne : a.eqv b = false)
    (hpar : V3.parallel a.n b.n = false) :
    ∃ q : V3, interPlanePlane a b = .ok (some (.line ⟨q, V3.cross a.n b.n⟩)) ∧
      impl_interPlanePlane_sv a.p.toR a.n.toR b.p.toR b.n.toR = q.toR ∧
      ∃ k : ℝ, 0 < k ∧
        impl_interPlanePlane_dv a.p.toR a.n.toR b.p.toR b.n.toR = RVec.smul k (V3.cross a.n b.n).toR := by
  have hcr : V3.cross a.n b.n ≠ V3.zero := by
    intro h; rw [(G3D.parallel_iff_cross a.n b.n).mpr h] at hpar; exact Bool.noConfusion hpar
  have hD : V3.dot b.n (V3.cross (V3.cross a.n b.n) a.n) ≠ 0 := by
    have : V3.dot b.n (V3.cross (V3.cross a.n b.n) a.n) = V3.normSq (V3.cross a.n b.n) := by
      simp only [V3.normSq, V3.dot, V3.cross]; ring
    rw [this]; exact (G3D.normSq_pos hcr).ne'
  have h1 : a.n.toR ≠ RVec.zero := fun h => ha (toR_inj.mp (h.trans toR_zero.symm))
  have h2 : b.n.toR ≠ RVec.zero := fun h => hb (toR_inj.mp (h.trans toR_zero.symm))
  have hc : RVec.cross a.n.toR b.n.toR ≠ RVec.zero := by
    rw [toR_cross]; exact fun h => hcr (toR_inj.mp (h.trans toR_zero.symm))
  have hi := KernelsTie.interLinePlane_tie' ⟨a.p, V3.cross (V3.cross a.n b.n) a.n⟩ b hD
  refine ⟨impl_interLinePlane_point a.p (V3.cross (V3.cross a.n b.n) a.n) b.p b.n, ?_, ?_, ?_⟩
  · simp only [interPlanePlane, hne, hpar, Bool.false_eq_true, if_false, hi]
  · have e : impl_interLinePlane_point a.p (V3.cross (V3.cross a.n b.n) a.n) b.p b.n
        = V3.add a.p (V3.smul (impl_interLinePlane_mu a.p (V3.cross (V3.cross a.n b.n) a.n) b.p b.n)
            (V3.cross (V3.cross a.n b.n) a.n)) :=
      KernelsTie.interLinePlane_point_tie ⟨a.p, V3.cross (V3.cross a.n b.n) a.n⟩ b
    have m : impl_interLinePlane_mu a.p (V3.cross (V3.cross a.n b.n) a.n) b.p b.n
        = (V3.dot b.n b.p - V3.dot b.n a.p) / V3.dot b.n (V3.cross (V3.cross a.n b.n) a.n) :=
      KernelsTie.interLinePlane_mu_tie ⟨a.p, V3.cross (V3.cross a.n b.n) a.n⟩ b
    rw [interPlanePlane_sv_real _ _ _ _ h1 h2 hc, e, m, ← toR_add, ← toR_smul, toR_cross, toR_cross, toR_dot, toR_dot, toR_dot]
    push_cast; rfl
  · obtain ⟨s0, s1, s2, _⟩ := interPlanePlane_sqrts_pos a.p.toR a.n.toR b.p.toR b.n.toR h1 h2 hc
    refine ⟨_, ?_, by rw [interPlanePlane_dv_real, toR_cross]⟩
    positivity

theorem interPlanePlane_path :
    impl_interPlanePlane_path = [("abs(R) < eps", false), ("abs(R) < eps", false), ("abs(R) < eps", false),
      ("abs(R) < eps", false), ("abs(R) < (eps * S)", false), ("abs(R) < eps", false), ("abs(R) < eps", false),
      ("abs(R) < eps", false), ("abs(R) < eps", false)] := by decide


/-! ### C05  calc/aux_calc.py projections (used by `get_segment_from_point_list`) -/
theorem projection_tie (a b : RVec) :
    impl_projectionLength a b = RVec.dot a b / √(RVec.normSq b) ∧
    impl_relativeProjectionLength a b = RVec.dot a b / RVec.normSq b := by
  have e : (0 : ℝ) + a.x * b.x + a.y * b.y + a.z * b.z = RVec.dot a b := by simp only [RVec.dot]; ring
  constructor
  · simp only [impl_projectionLength, sum0, e]
  · simp only [impl_relativeProjectionLength, sum0, e]
    rw [div_div, Real.mul_self_sqrt (nsq_nonneg b)]

end G3D.KernelsTieReal
