import G3D.Model.Flat
import G3D.Proofs.Vec
import Mathlib.Tactic.Ring
import Mathlib.Tactic.Linarith
import Mathlib.Tactic.LinearCombination
import Mathlib.Tactic.FieldSimp
import Mathlib.Tactic.Positivity
import Mathlib.Algebra.Order.Field.Rat

namespace G3D
open V3

/-! ### denotations -/
def Line.den (l : Line) (x : V3) : Prop := ∃ t : Rat, x = add l.sv (smul t l.dv)
def Plane.den (pl : Plane) (x : V3) : Prop := dot pl.n (sub x pl.p) = 0
def Seg.den (s : Seg) (x : V3) : Prop := ∃ t : Rat, 0 ≤ t ∧ t ≤ 1 ∧ x = add s.a (smul t (sub s.b s.a))
def HalfLine.den (h : HalfLine) (x : V3) : Prop := ∃ t : Rat, 0 ≤ t ∧ x = add h.p (smul t h.v)

theorem normSq_nonneg (v : V3) : 0 ≤ normSq v := by
  simp only [normSq, dot]; nlinarith [sq_nonneg v.x, sq_nonneg v.y, sq_nonneg v.z]

theorem normSq_eq_zero {v : V3} : normSq v = 0 ↔ v = zero := by
  constructor
  · intro h
    simp only [normSq, dot] at h
    apply V3.ext' <;> simp [zero] <;> nlinarith [sq_nonneg v.x, sq_nonneg v.y, sq_nonneg v.z]
  · rintro rfl; simp [normSq, dot, zero]

theorem normSq_pos {v : V3} (h : v ≠ zero) : 0 < normSq v :=
  lt_of_le_of_ne (normSq_nonneg v) (fun e => h (normSq_eq_zero.mp e.symm))

theorem sub_eq_zero_iff {a b : V3} : sub a b = zero ↔ a = b := by
  constructor
  · intro h
    have hx := congrArg V3.x h; have hy := congrArg V3.y h; have hz := congrArg V3.z h
    simp [sub, zero] at hx hy hz
    apply V3.ext' <;> linarith
  · rintro rfl; apply V3.ext' <;> simp [sub, zero]

theorem Plane.contains_iff (pl : Plane) (x : V3) : pl.contains x = true ↔ pl.den x := by
  simp only [Plane.contains, Plane.den, beq_iff_eq, dot, sub]
  constructor <;> intro h <;> linarith

theorem Seg.contains_iff (s : Seg) (hw : s.WF) (x : V3) : s.contains x = true ↔ s.den x := by
  obtain ⟨hab, hline⟩ := hw
  have hd : sub s.b s.a ≠ zero := fun h => hab (sub_eq_zero_iff.mp h).symm
  have hN := normSq_pos hd
  unfold Seg.contains Seg.den
  simp only
  by_cases h0 : normSq (sub x s.a) = 0
  · have hx : x = s.a := sub_eq_zero_iff.mp (normSq_eq_zero.mp h0)
    simp only [h0, beq_self_eq_true, if_true, true_iff]
    exact ⟨0, le_refl _, by norm_num, by rw [hx]; apply V3.ext' <;> simp [add, smul]⟩
  · have hb : (normSq (sub x s.a) == 0) = false := by simpa using h0
    simp only [hb, Bool.false_eq_true, if_false, Bool.and_eq_true, decide_eq_true_eq]
    rw [hline, Line.contains_iff ⟨s.a, sub s.b s.a⟩ hd x]
    constructor
    · rintro ⟨⟨⟨t, ht⟩, h1⟩, h2⟩
      have hrel : dot (sub x s.a) (sub s.b s.a) / normSq (sub s.b s.a) = t := by
        rw [div_eq_iff (ne_of_gt hN)]
        rw [ht]; simp only [dot, sub, add, smul, normSq]; ring
      rw [hrel] at h1 h2
      exact ⟨t, h1, h2, ht⟩
    · rintro ⟨t, h1, h2, ht⟩
      have hrel : dot (sub x s.a) (sub s.b s.a) / normSq (sub s.b s.a) = t := by
        rw [div_eq_iff (ne_of_gt hN)]
        rw [ht]; simp only [dot, sub, add, smul, normSq]; ring
      rw [hrel]
      exact ⟨⟨⟨t, ht⟩, h1⟩, h2⟩

theorem HalfLine.contains_iff (h : HalfLine) (hw : h.WF) (x : V3) : h.contains x = true ↔ h.den x := by
  obtain ⟨hv, hline⟩ := hw
  have hN := normSq_pos hv
  unfold HalfLine.contains HalfLine.den
  rw [hline]
  by_cases hc : (⟨h.p, h.v⟩ : Line).contains x = true
  · simp only [hc, if_true, decide_eq_true_eq]
    obtain ⟨t, ht⟩ := (Line.contains_iff ⟨h.p, h.v⟩ hv x).mp hc
    have hdot : dot (sub x h.p) h.v = t * normSq h.v := by
      rw [ht]; simp only [dot, sub, add, smul, normSq]; ring
    constructor
    · intro h0
      rw [hdot] at h0
      exact ⟨t, by by_contra hneg; push_neg at hneg; nlinarith, ht⟩
    · rintro ⟨t', ht', hx'⟩
      have hdot' : dot (sub x h.p) h.v = t' * normSq h.v := by
        rw [hx']; simp only [dot, sub, add, smul, normSq]; ring
      rw [hdot']; positivity
  · simp only [hc, Bool.false_eq_true, if_false, false_iff]
    rintro ⟨t, _, ht⟩
    exact hc ((Line.contains_iff ⟨h.p, h.v⟩ hv x).mpr ⟨t, ht⟩)

#print axioms Seg.contains_iff
#print axioms HalfLine.contains_iff
end G3D
