import G3D.Extracted.Kernels
import G3D.Model.InterFlat
import G3D.Model.PlaneForms
import G3D.Proofs.Vec
import G3D.Proofs.Flat
/-! # The extracted arithmetic kernels ARE the model's quantities (rational part)
    `G3D.Extracted.impl_*` (G3D/Extracted/Kernels.lean) are regenerated on every run by tools/extract_kernels.py: the
    REAL predicates / constructions of the library are run on symbolic numbers, every comparison against the tolerance
    is recorded (operands and shape) and answered from a scripted path.  The theorems below tie each recorded operand
    to the quantity the Lean model tests or returns, and pin the recorded comparison shapes, i.e. the places where the
    exact reading (`abs(R) < eps` read as `R = 0`, `R > -eps` as `0 ≤ R`) is applied.  If a formula or a comparison
    of the library changes, the regenerated file changes and these proofs stop compiling. -/
namespace G3D.KernelsTie
open G3D V3 G3D.Extracted

/-! ### C05 / C19  `Plane.__contains__` -/
theorem planeContains_tie (pl : Plane) (x : V3) :
    impl_planeContains_residual pl.p pl.n x = dot (sub x pl.p) pl.n := by
  simp only [impl_planeContains_residual, dot, sub]; ring

/-- the model's membership test is the exact reading `R = 0` of the recorded `abs(R) < eps` -/
theorem planeContains_iff (pl : Plane) (x : V3) :
    pl.contains x = true ↔ impl_planeContains_residual pl.p pl.n x = 0 := by
  simp only [Plane.contains, beq_iff_eq, impl_planeContains_residual, dot]
  constructor <;> intro h <;> linarith

theorem planeContains_shape : impl_planeContains_shape = "abs(R) < eps" := by decide
theorem planeContains_path : impl_planeContains_path = [("abs(R) < eps", true)] ∧ impl_planeCtor_path = [] := by decide

theorem planeContainsLine_tie (pl : Plane) (l : Line) :
    impl_planeContainsLine_residual0 pl.p pl.n l.sv l.dv = dot (sub l.sv pl.p) pl.n ∧
    impl_planeContainsLine_residual1 pl.p pl.n l.sv l.dv = dot l.dv pl.n := by
  constructor
  · simp only [impl_planeContainsLine_residual0, dot, sub]; ring
  · simp only [impl_planeContainsLine_residual1, dot]; ring

theorem planeContainsLine_iff (pl : Plane) (l : Line) :
    pl.containsLine l = true ↔
      impl_planeContainsLine_residual0 pl.p pl.n l.sv l.dv = 0 ∧ impl_planeContainsLine_residual1 pl.p pl.n l.sv l.dv = 0 := by
  simp only [Plane.containsLine, Plane.contains, V3.orthogonal, Bool.and_eq_true, beq_iff_eq,
    impl_planeContainsLine_residual0, impl_planeContainsLine_residual1, dot]
  constructor <;> rintro ⟨h1, h2⟩ <;> constructor <;> linarith

theorem planeContainsLine_path :
    impl_planeContainsLine_path = [("abs(R) < eps", true), ("abs(R) < eps", true)] := by decide

/-! ### C11 / C19  `Vector.orthogonal` -/
theorem orthogonal_tie (a b : V3) : impl_orthogonal_residual a b = dot a b := by
  simp only [impl_orthogonal_residual, dot]; ring

theorem orthogonal_iff (a b : V3) : V3.orthogonal a b = true ↔ impl_orthogonal_residual a b = 0 := by
  rw [orthogonal_tie]; simp only [V3.orthogonal, beq_iff_eq]

theorem orthogonal_shape : impl_orthogonal_shape = "abs(R) < eps" ∧ impl_orthogonal_path = [("abs(R) < eps", true)] := by
  decide

/-! ### C08 / C19  `Vector.__eq__`, `Point.__eq__` -/
theorem vectorEq_tie (a b : V3) :
    impl_vectorEq_residual0 a b = a.x - b.x ∧ impl_vectorEq_residual1 a b = a.y - b.y ∧
    impl_vectorEq_residual2 a b = a.z - b.z := ⟨rfl, rfl, rfl⟩

/-- exact reading of the three recorded tests = structural equality of the model -/
theorem vectorEq_iff (a b : V3) :
    a = b ↔ impl_vectorEq_residual0 a b = 0 ∧ impl_vectorEq_residual1 a b = 0 ∧ impl_vectorEq_residual2 a b = 0 := by
  simp only [impl_vectorEq_residual0, impl_vectorEq_residual1, impl_vectorEq_residual2]
  constructor
  · rintro rfl; simp
  · rintro ⟨h1, h2, h3⟩; apply V3.ext' <;> linarith

theorem pointEq_tie (p q : V3) :
    impl_pointEq_residual0 p q = p.x - q.x ∧ impl_pointEq_residual1 p q = p.y - q.y ∧
    impl_pointEq_residual2 p q = p.z - q.z := ⟨rfl, rfl, rfl⟩

theorem pointEq_iff (p q : V3) :
    p = q ↔ impl_pointEq_residual0 p q = 0 ∧ impl_pointEq_residual1 p q = 0 ∧ impl_pointEq_residual2 p q = 0 := by
  simp only [impl_pointEq_residual0, impl_pointEq_residual1, impl_pointEq_residual2]
  constructor
  · rintro rfl; simp
  · rintro ⟨h1, h2, h3⟩; apply V3.ext' <;> linarith

theorem eq_paths :
    impl_vectorEq_path = [("abs(R) < eps", true), ("abs(R) < eps", true), ("abs(R) < eps", true)] ∧
    impl_pointEq_path = [("abs(R) < eps", true), ("abs(R) < eps", true), ("abs(R) < eps", true)] := by decide

/-! ### C17  plane and line forms -/
theorem generalForm_tie (P : Plane) :
    (impl_generalForm_a P.p P.n, impl_generalForm_b P.p P.n, impl_generalForm_c P.p P.n, impl_generalForm_d P.p P.n)
      = P.generalForm := by
  simp only [Plane.generalForm, impl_generalForm_a, impl_generalForm_b, impl_generalForm_c, impl_generalForm_d,
    Prod.mk.injEq, true_and, dot]
  ring

theorem pointNormal_tie (P : Plane) : impl_pointNormal_p P.p P.n = P.p ∧ impl_pointNormal_n P.p P.n = P.n := ⟨rfl, rfl⟩

theorem lineParametric_tie (p v : V3) : impl_lineParametric_sv p v = p ∧ impl_lineParametric_dv p v = v := ⟨rfl, rfl⟩

theorem linePP_tie (p q : V3) : impl_linePP_sv p q = p ∧ impl_linePP_dv p q = sub q p := ⟨rfl, rfl⟩

/-- the constructor's rejection test, read exactly, is `dv = 0`, the negation of the model's `Line.WF` -/
theorem lineCtorReject_iff (p v : V3) :
    (impl_lineCtorReject_residual0 p v = 0 ∧ impl_lineCtorReject_residual1 p v = 0 ∧ impl_lineCtorReject_residual2 p v = 0)
      ↔ ¬ (⟨p, v⟩ : Line).WF := by
  simp only [impl_lineCtorReject_residual0, impl_lineCtorReject_residual1, impl_lineCtorReject_residual2, Line.WF,
    ne_eq, not_not, sub_zero]
  constructor
  · rintro ⟨h1, h2, h3⟩; apply V3.ext' <;> simp [zero, h1, h2, h3]
  · rintro rfl; simp [zero]

theorem lineCtor_tie (p v : V3) : impl_lineCtor_residual0 p v = v.x := by simp [impl_lineCtor_residual0]

theorem lineCtor_paths :
    impl_lineCtor_path = [("abs(R) < eps", false)] ∧
    impl_lineCtorReject_path = [("abs(R) < eps", true), ("abs(R) < eps", true), ("abs(R) < eps", true)] := by decide

/-! ### C01  `inter_line_plane` -/
theorem interLinePlane_tests_tie (l : Line) (pl : Plane) :
    impl_interLinePlane_containsResidual0 l.sv l.dv pl.p pl.n = dot l.sv pl.n - dot pl.p pl.n ∧
    impl_interLinePlane_parallelResidual0 l.sv l.dv pl.p pl.n = dot l.dv pl.n := by
  constructor
  · simp only [impl_interLinePlane_containsResidual0, dot]; ring
  · simp only [impl_interLinePlane_parallelResidual0, dot]; ring

theorem interLinePlane_mu_tie (l : Line) (pl : Plane) :
    impl_interLinePlane_mu l.sv l.dv pl.p pl.n = (dot pl.n pl.p - dot pl.n l.sv) / dot pl.n l.dv := by
  simp only [impl_interLinePlane_mu, dot, Rat.zero_add]

theorem interLinePlane_point_tie (l : Line) (pl : Plane) :
    impl_interLinePlane_point l.sv l.dv pl.p pl.n
      = add l.sv (smul (impl_interLinePlane_mu l.sv l.dv pl.p pl.n) l.dv) := by
  apply V3.ext' <;> simp only [impl_interLinePlane_point, impl_interLinePlane_mu, add, smul] <;> ring

/-- on the path walked by the extractor (`l` not contained, not parallel) the model returns the extracted point -/
theorem interLinePlane_tie (l : Line) (pl : Plane) (hc : pl.containsLine l = false)
    (hp : V3.orthogonal l.dv pl.n = false) :
    interLinePlane l pl = .ok (some (.point (impl_interLinePlane_point l.sv l.dv pl.p pl.n))) := by
  rw [interLinePlane_point_tie, interLinePlane_mu_tie]
  simp [interLinePlane, hc, hp]

/-- in particular whenever `n . dv ≠ 0` -/
theorem interLinePlane_tie' (l : Line) (pl : Plane) (h : dot pl.n l.dv ≠ 0) :
    interLinePlane l pl = .ok (some (.point (impl_interLinePlane_point l.sv l.dv pl.p pl.n))) := by
  have hp : V3.orthogonal l.dv pl.n = false := by
    simp only [V3.orthogonal, beq_eq_false_iff_ne, ne_eq]
    intro h0; apply h; simp only [dot] at h0 ⊢; linarith
  have hc : pl.containsLine l = false := by simp [Plane.containsLine, hp]
  exact interLinePlane_tie l pl hc hp

/-- the two recorded tests, read exactly, are the model's two guards -/
theorem interLinePlane_guards (l : Line) (pl : Plane) :
    (pl.containsLine l = true ↔ impl_interLinePlane_containsResidual0 l.sv l.dv pl.p pl.n = 0 ∧
        impl_interLinePlane_parallelResidual0 l.sv l.dv pl.p pl.n = 0) ∧
    (V3.orthogonal l.dv pl.n = true ↔ impl_interLinePlane_parallelResidual0 l.sv l.dv pl.p pl.n = 0) := by
  obtain ⟨h1, h2⟩ := interLinePlane_tests_tie l pl
  rw [h1, h2]
  simp only [Plane.containsLine, Plane.contains, V3.orthogonal, Bool.and_eq_true, beq_iff_eq, and_self]

theorem interLinePlane_paths :
    impl_interLinePlane_path = [("abs(R) < eps", false), ("abs(R) < eps", false)] ∧
    impl_interLinePlaneContained_path = [("abs(R) < eps", true), ("abs(R) < eps", true)] ∧
    impl_interLinePlaneParallel_path = [("abs(R) < eps", false), ("abs(R) < eps", true)] ∧
    impl_interLinePlaneSvInPlane_path = [("abs(R) < eps", true), ("abs(R) < eps", false), ("abs(R) < eps", false)] := by
  decide

/-! ### C05 / C19  `HalfLine.__contains__` -/
theorem halfLineContains_tie (h : HalfLine) (x : V3) :
    impl_halfLineContains_proj h.p h.v x = dot (sub x h.p) h.v := by
  simp only [impl_halfLineContains_proj, dot, sub]; ring

/-- the model's test = carrier line ∧ exact reading `0 ≤ R` of the recorded `R > -eps` -/
theorem halfLineContains_iff (h : HalfLine) (x : V3) :
    h.contains x = true ↔ h.line.contains x = true ∧ 0 ≤ impl_halfLineContains_proj h.p h.v x := by
  rw [halfLineContains_tie]
  unfold HalfLine.contains
  by_cases hc : h.line.contains x = true <;> simp [hc]

theorem halfLineContains_shape :
    impl_halfLineContains_shape = "R > -eps" ∧
    impl_halfLineContains_path = [("abs(R) < eps", false), ("abs(R) < eps", false), ("abs(R) < eps", false),
      ("abs(R) < (eps * S)", true), ("R > -eps", true)] ∧
    impl_halfLineContainsOffLine_path = [("abs(R) < eps", false), ("abs(R) < eps", false), ("abs(R) < eps", false),
      ("abs(R) < (eps * S)", false)] ∧
    impl_halfLineCtor_path = [("R < eps", false), ("abs(R) < eps", false)] := by decide

end G3D.KernelsTie

