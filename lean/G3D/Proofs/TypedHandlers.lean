import G3D.Model.InterBody

/-! # Result typing of the handlers of calc/intersection.py — for ALL inputs (no well-formedness assumed)

    Every handler, whenever it returns a value at all, returns an object whose constructor is one of a fixed list of
    result types (`allowed` for the flat pairs, explicit lists for the body handlers).  Nothing here refers to the
    dispatcher or to the documentation table extracted from the source: `Proofs/Typed.lean` compares these lists with
    the extracted table and lifts the statements to `inter`. -/
namespace G3D
open G3D.Dispatch

/-- result type of a flat result -/
def flatResTy : Option Geo → ResTy
  | none => .none
  | some (.point _) => .point
  | some (.line _) => .line
  | some (.plane _) => .plane
  | some (.seg _) => .seg
  | some (.halfline _) => .halfline

/-- the documented result types for a pair of flat operands (symmetric in the operands) -/
def allowed : Geo → Geo → List ResTy
  | .point _, _ => [.none, .point]
  | _, .point _ => [.none, .point]
  | .line _, .line _ => [.none, .point, .line]
  | .line _, .plane _ => [.none, .point, .line]
  | .plane _, .line _ => [.none, .point, .line]
  | .line _, .seg _ => [.none, .point, .seg]
  | .seg _, .line _ => [.none, .point, .seg]
  | .plane _, .seg _ => [.none, .point, .seg]
  | .seg _, .plane _ => [.none, .point, .seg]
  | .seg _, .seg _ => [.none, .point, .seg]
  | .seg _, .halfline _ => [.none, .point, .seg]
  | .halfline _, .seg _ => [.none, .point, .seg]
  | .line _, .halfline _ => [.none, .point, .halfline]
  | .halfline _, .line _ => [.none, .point, .halfline]
  | .plane _, .halfline _ => [.none, .point, .halfline]
  | .halfline _, .plane _ => [.none, .point, .halfline]
  | .plane _, .plane _ => [.none, .line, .plane]
  | .halfline _, .halfline _ => [.none, .point, .seg, .halfline]

theorem allowed_symm (a b : Geo) : allowed a b = allowed b a := by
  cases a <;> cases b <;> rfl

/-- every value a flat computation returns has its type in `l` -/
def FTyIn (l : List ResTy) (r : Res) : Prop := ∀ o, r = .ok o → flatResTy o ∈ l

theorem FTyIn.mono {l l' : List ResTy} {r : Res} (h : FTyIn l r) (hs : l ⊆ l') : FTyIn l' r :=
  fun o ho => hs (h o ho)

theorem FTyIn.error (l : List ResTy) (e : IErr) : FTyIn l (.error e) := fun _ h => by cases h

theorem FTyIn.ok {l : List ResTy} {o : Option Geo} (h : flatResTy o ∈ l) : FTyIn l (.ok o) :=
  fun o' h' => by cases h'; exact h

/-- a membership test on a point: `None` or the point -/
theorem pointIf_typed (c : Bool) (p : V3) : FTyIn [.none, .point] (.ok (if c then some (.point p) else none)) := by
  apply FTyIn.ok; cases c <;> simp [flatResTy]

theorem interPointPoint_typed (p q : V3) : FTyIn [.none, .point] (interPointPoint p q) := by
  unfold interPointPoint; apply FTyIn.ok; split <;> simp [flatResTy]
theorem interPointLine_typed (p : V3) (l : Line) : FTyIn [.none, .point] (interPointLine p l) := pointIf_typed _ p
theorem interPointPlane_typed (p : V3) (pl : Plane) : FTyIn [.none, .point] (interPointPlane p pl) := pointIf_typed _ p
theorem interPointSeg_typed (p : V3) (s : Seg) : FTyIn [.none, .point] (interPointSeg p s) := pointIf_typed _ p
theorem interPointHalfLine_typed (p : V3) (h : HalfLine) : FTyIn [.none, .point] (interPointHalfLine p h) :=
  pointIf_typed _ p

/-- shape of `inter_line_line`: `None`, a Point, or the first line itself -/
theorem interLineLine_cases (l1 l2 : Line) (o : Option Geo) (h : interLineLine l1 l2 = .ok o) :
    o = none ∨ (∃ q, o = some (.point q)) ∨ o = some (.line l1) := by
  unfold interLineLine at h
  by_cases heq : l1.eqv l2 = true
  · rw [if_pos heq] at h; cases h; exact Or.inr (Or.inr rfl)
  · rw [if_neg heq] at h
    simp only at h
    split at h
    · cases h; exact Or.inl rfl
    · split at h
      · cases h; exact Or.inr (Or.inl ⟨_, rfl⟩)
      · cases h

/-- shape of `inter_line_plane`: `None`, a Point, or the line itself -/
theorem interLinePlane_cases (l : Line) (p : Plane) (o : Option Geo) (h : interLinePlane l p = .ok o) :
    o = none ∨ (∃ q, o = some (.point q)) ∨ o = some (.line l) := by
  unfold interLinePlane at h
  by_cases hc : p.containsLine l = true
  · rw [if_pos hc] at h; cases h; exact Or.inr (Or.inr rfl)
  · rw [if_neg hc] at h
    by_cases ho : V3.orthogonal l.dv p.n = true
    · rw [if_pos ho] at h; cases h; exact Or.inl rfl
    · rw [if_neg ho] at h; cases h; exact Or.inr (Or.inl ⟨_, rfl⟩)

/-- shape of `inter_plane_plane`: `None`, a Line, or the first plane itself -/
theorem interPlanePlane_cases (a b : Plane) (o : Option Geo) (h : interPlanePlane a b = .ok o) :
    o = none ∨ (∃ L, o = some (.line L)) ∨ o = some (.plane a) := by
  unfold interPlanePlane at h
  by_cases heq : a.eqv b = true
  · rw [if_pos heq] at h; cases h; exact Or.inr (Or.inr rfl)
  · rw [if_neg heq] at h
    by_cases hpar : V3.parallel a.n b.n = true
    · rw [if_pos hpar] at h; cases h; exact Or.inl rfl
    · rw [if_neg hpar] at h
      simp only at h
      split at h
      · cases h; exact Or.inr (Or.inl ⟨_, rfl⟩)
      · cases h

theorem interLineLine_typed (l1 l2 : Line) : FTyIn [.none, .point, .line] (interLineLine l1 l2) := by
  intro o h
  rcases interLineLine_cases l1 l2 o h with rfl | ⟨q, rfl⟩ | rfl <;> simp [flatResTy]

theorem interLinePlane_typed (l : Line) (p : Plane) : FTyIn [.none, .point, .line] (interLinePlane l p) := by
  intro o h
  rcases interLinePlane_cases l p o h with rfl | ⟨q, rfl⟩ | rfl <;> simp [flatResTy]

theorem interPlanePlane_typed (a b : Plane) : FTyIn [.none, .line, .plane] (interPlanePlane a b) := by
  intro o h
  rcases interPlanePlane_cases a b o h with rfl | ⟨q, rfl⟩ | rfl <;> simp [flatResTy]

/-- the common pattern of the four carrier handlers: `None` ↦ `None`, a Point ↦ a membership test,
    a Line ↦ the operand itself -/
theorem carrier_typed (r : Res) (whole : Geo) (withPoint : V3 → Res) (t : ResTy)
    (ht : flatResTy (some whole) = t) (hp : ∀ q, FTyIn [.none, .point] (withPoint q)) :
    FTyIn [.none, .point, t]
      (match r with
        | .ok none => .ok none
        | .ok (some (.line _)) => .ok (some whole)
        | .ok (some (.point q)) => withPoint q
        | .ok _ => .error .bug
        | .error e => .error e) := by
  split
  · exact FTyIn.ok (by simp [flatResTy])
  · exact FTyIn.ok (by simp [ht])
  · exact (hp _).mono (by simp)
  · exact FTyIn.error _ _
  · exact FTyIn.error _ _

theorem interLineSeg_typed (l : Line) (s : Seg) : FTyIn [.none, .point, .seg] (interLineSeg l s) := by
  unfold interLineSeg
  exact carrier_typed _ (.seg s) (fun q => interPointSeg q s) .seg rfl (fun q => interPointSeg_typed q s)

theorem interLineHalfLine_typed (l : Line) (h : HalfLine) :
    FTyIn [.none, .point, .halfline] (interLineHalfLine l h) := by
  unfold interLineHalfLine
  exact carrier_typed _ (.halfline h) (fun q => interPointHalfLine q h) .halfline rfl
    (fun q => interPointHalfLine_typed q h)

theorem interPlaneSeg_typed (a : Plane) (s : Seg) : FTyIn [.none, .point, .seg] (interPlaneSeg a s) := by
  unfold interPlaneSeg
  intro o h
  split at h
  · cases h; simp [flatResTy]
  · exact (interPointSeg_typed _ s).mono (by simp) o h
  · cases h; simp [flatResTy]
  · cases h
  · cases h

theorem interPlaneHalfLine_typed (a : Plane) (h : HalfLine) :
    FTyIn [.none, .point, .halfline] (interPlaneHalfLine a h) := by
  unfold interPlaneHalfLine
  intro o ho
  split at ho
  · cases ho; simp [flatResTy]
  · exact (interPointHalfLine_typed _ h).mono (by simp) o ho
  · cases ho; simp [flatResTy]
  · cases ho
  · cases ho

/-- 0 / 1 / 2 collected points: `None`, a Point or a Segment (3 or more: "Bug detected") -/
theorem ofPointSet_typed (ps : List V3) : FTyIn [.none, .point, .seg] (ofPointSet ps) := by
  intro o h
  match ps, h with
  | [], h => cases h; simp [flatResTy]
  | [p], h => cases h; simp [flatResTy]
  | [p, q], h =>
    simp only [ofPointSet, mkSeg] at h
    by_cases hpq : p = q
    · rw [if_pos hpq] at h; cases h
    · rw [if_neg hpq] at h; cases h; simp [flatResTy]
  | _ :: _ :: _ :: _, h => cases h

/-- the non-collinear branch shared by Segment×Segment, Segment×HalfLine, HalfLine×HalfLine -/
theorem crossing_typed (r : Res) (c : V3 → Bool) :
    FTyIn [.none, .point]
      (match r with
        | .ok none => .ok none
        | .ok (some (.point q)) => .ok (if c q then some (.point q) else none)
        | .ok _ => .error .bug
        | .error e => .error e) := by
  split
  · exact FTyIn.ok (by simp [flatResTy])
  · exact pointIf_typed _ _
  · exact FTyIn.error _ _
  · exact FTyIn.error _ _

theorem interSegSeg_typed (a b : Seg) : FTyIn [.none, .point, .seg] (interSegSeg a b) := by
  unfold interSegSeg
  split
  · exact ofPointSet_typed _
  · exact (crossing_typed _ (fun q => a.contains q && b.contains q)).mono (by simp)

theorem interSegHalfLine_typed (a : Seg) (b : HalfLine) : FTyIn [.none, .point, .seg] (interSegHalfLine a b) := by
  unfold interSegHalfLine
  split
  · exact ofPointSet_typed _
  · exact (crossing_typed _ (fun q => a.contains q && b.contains q)).mono (by simp)

theorem interHalfLineHalfLine_typed (a b : HalfLine) :
    FTyIn [.none, .point, .seg, .halfline] (interHalfLineHalfLine a b) := by
  unfold interHalfLineHalfLine
  split
  · split
    · exact FTyIn.ok (by simp [flatResTy])
    · split
      · exact FTyIn.ok (by simp [flatResTy])
      · exact (ofPointSet_typed _).mono (by simp)
  · exact (crossing_typed _ (fun q => a.contains q && b.contains q)).mono (by simp)

/-- **result typing of the 15 flat handlers, all inputs**: whenever `intersection(a, b)` of two flat
    primitives returns, the result is `None` or an object of a type documented for the operand types
    (no assumption on the operands: degenerate lines, zero normals, … included). -/
theorem interFlat_typed (a b : Geo) (o : Option Geo) (h : interFlat a b = .ok o) : flatResTy o ∈ allowed a b := by
  cases a with
  | point p => cases b with
    | point q => exact interPointPoint_typed p q o h
    | line l => exact interPointLine_typed p l o h
    | plane pl => exact interPointPlane_typed p pl o h
    | seg s => exact interPointSeg_typed p s o h
    | halfline hl => exact interPointHalfLine_typed p hl o h
  | line l => cases b with
    | point q => exact interPointLine_typed q l o h
    | line l2 => exact interLineLine_typed l l2 o h
    | plane pl => exact interLinePlane_typed l pl o h
    | seg s => exact interLineSeg_typed l s o h
    | halfline hl => exact interLineHalfLine_typed l hl o h
  | plane pl => cases b with
    | point q => exact interPointPlane_typed q pl o h
    | line l => exact interLinePlane_typed l pl o h
    | plane pl2 => exact interPlanePlane_typed pl pl2 o h
    | seg s => exact interPlaneSeg_typed pl s o h
    | halfline hl => exact interPlaneHalfLine_typed pl hl o h
  | seg s => cases b with
    | point q => exact interPointSeg_typed q s o h
    | line l => exact interLineSeg_typed l s o h
    | plane pl => exact interPlaneSeg_typed pl s o h
    | seg s2 => exact interSegSeg_typed s s2 o h
    | halfline hl => exact interSegHalfLine_typed s hl o h
  | halfline hl => cases b with
    | point q => exact interPointHalfLine_typed q hl o h
    | line l => exact interLineHalfLine_typed l hl o h
    | plane pl => exact interPlaneHalfLine_typed pl hl o h
    | seg s => exact interSegHalfLine_typed s hl o h
    | halfline h2 => exact interHalfLineHalfLine_typed hl h2 o h
#print axioms interFlat_typed

theorem resTyOf_flat (o : Option Geo) : resTyOf (o.map Obj.flat) = flatResTy o := by
  cases o with
  | none => rfl
  | some g => cases g <;> rfl

theorem liftFlat_ok (r : Res) (o : Option Obj) (h : liftFlat r = .ok o) :
    ∃ o', r = .ok o' ∧ o = o'.map Obj.flat := by
  unfold liftFlat at h
  split at h
  · cases h; exact ⟨none, rfl, rfl⟩
  · cases h; exact ⟨some _, rfl, rfl⟩
  all_goals cases h

/-! ## body handlers -/

/-- every value a computation returns has its type in `l` -/
def TyIn (l : List ResTy) (r : ResB) : Prop := ∀ o, r = .ok o → resTyOf o ∈ l

theorem TyIn.mono {l l' : List ResTy} {r : ResB} (h : TyIn l r) (hs : l ⊆ l') : TyIn l' r :=
  fun o ho => hs (h o ho)

theorem TyIn.error (l : List ResTy) (e : BErr) : TyIn l (.error e) := fun _ h => by cases h

theorem TyIn.ok {l : List ResTy} {o : Option Obj} (h : resTyOf o ∈ l) : TyIn l (.ok o) :=
  fun o' h' => by cases h'; exact h

theorem TyIn.bind {α : Type} {l : List ResTy} (x : Except BErr α) (f : α → ResB) (hf : ∀ a, TyIn l (f a)) :
    TyIn l (x >>= f) := by
  cases x with
  | error e => intro o h; cases h
  | ok a => exact hf a

theorem TyIn.liftFlat {l : List ResTy} {r : Res} (h : FTyIn l r) : TyIn l (liftFlat r) := by
  intro o ho
  obtain ⟨o', ho', rfl⟩ := liftFlat_ok r o ho
  rw [resTyOf_flat]; exact h o' ho'

theorem pt?_typed (p : V3) : TyIn [.none, .point] (pt? p) := TyIn.ok (by simp [resTyOf])
theorem seg?_typed (s : Seg) : TyIn [.none, .point, .seg] (seg? s) := TyIn.ok (by simp [resTyOf])
theorem none_typed {l : List ResTy} (h : ResTy.none ∈ l) : TyIn l (.ok none) := TyIn.ok h
theorem ofPoints_typed (ps : List V3) : TyIn [.none, .point, .seg] (ofPoints ps) :=
  TyIn.liftFlat (ofPointSet_typed ps)

theorem interPointPolygon_typed (p : V3) (P : Polygon) : TyIn [.none, .point] (interPointPolygon p P) := by
  unfold interPointPolygon
  split
  · exact pt?_typed p
  · exact none_typed (by simp)

theorem lineEdgesLoop_typed (l : Line) (ss : List Seg) (acc : List V3) :
    TyIn [.none, .point, .seg] (lineEdgesLoop l ss acc) := by
  induction ss generalizing acc with
  | nil => exact ofPoints_typed acc
  | cons s ss ih =>
    unfold lineEdgesLoop
    split
    · exact ih _
    · exact ih _
    · exact seg?_typed _
    · exact TyIn.error _ _
    · exact TyIn.error _ _

theorem interLinePolygon_typed (l : Line) (P : Polygon) : TyIn [.none, .point, .seg] (interLinePolygon l P) := by
  unfold interLinePolygon
  split
  · exact none_typed (by simp)
  · exact TyIn.bind _ _ (fun ss => lineEdgesLoop_typed l ss [])
  · exact (interPointPolygon_typed _ P).mono (by simp)
  · exact TyIn.error _ _

theorem interPlanePolygon_typed (a : Plane) (P : Polygon) :
    TyIn [.none, .point, .seg, .polygon] (interPlanePolygon a P) := by
  unfold interPlanePolygon
  split
  · exact none_typed (by simp)
  · exact TyIn.ok (by simp [resTyOf])
  · exact (interLinePolygon_typed _ P).mono (by simp)
  · exact TyIn.error _ _

theorem interCarrierPolygon_typed (ln : Line) (mem : V3 → Bool) (withPoint : V3 → Res) (withSeg : Seg → Res)
    (hp : ∀ q, FTyIn [.none, .point, .seg] (withPoint q)) (hs : ∀ s, FTyIn [.none, .point, .seg] (withSeg s))
    (P : Polygon) : TyIn [.none, .point, .seg] (interCarrierPolygon ln mem withPoint withSeg P) := by
  unfold interCarrierPolygon
  split
  · exact none_typed (by simp)
  · split
    · exact (pt?_typed _).mono (by simp)
    · exact none_typed (by simp)
  · split
    · exact none_typed (by simp)
    · exact TyIn.liftFlat (hp _)
    · exact TyIn.liftFlat (hs _)
    · exact TyIn.error _ _
    · exact TyIn.error _ _
  · exact TyIn.error _ _

theorem interSegPolygon_typed (a : Seg) (P : Polygon) : TyIn [.none, .point, .seg] (interSegPolygon a P) :=
  interCarrierPolygon_typed _ _ _ _ (fun q => (interPointSeg_typed q a).mono (by simp))
    (fun s => interSegSeg_typed s a) P

theorem interPolygonHalfLine_typed (P : Polygon) (h : HalfLine) :
    TyIn [.none, .point, .seg] (interPolygonHalfLine P h) :=
  interCarrierPolygon_typed _ _ _ _ (fun q => (interPointHalfLine_typed q h).mono (by simp))
    (fun s => interSegHalfLine_typed s h) P

/-! ## the remaining handlers (ConvexPolyhedron operands, polygon × polygon) -/

theorem interPointPolyhedron_typed (p : V3) (B : Polyhedron) : TyIn [.none, .point] (interPointPolyhedron p B) := by
  unfold interPointPolyhedron
  split
  · exact pt?_typed p
  · exact none_typed (by simp)

theorem interLinePolyhedron_loop_typed (l : Line) (fs : List Polygon) (acc : List V3) :
    TyIn [.none, .point, .seg] (interLinePolyhedron.loop l fs acc) := by
  induction fs generalizing acc with
  | nil =>
    unfold interLinePolyhedron.loop
    split
    · exact none_typed (by simp)
    · exact (pt?_typed _).mono (by simp)
    · exact TyIn.bind _ _ (fun s => seg?_typed s)
  | cons f fs ih =>
    unfold interLinePolyhedron.loop
    split
    · exact seg?_typed _
    · exact ih _
    · exact ih _
    · exact TyIn.error _ _
    · exact TyIn.error _ _

theorem interLinePolyhedron_typed (l : Line) (B : Polyhedron) :
    TyIn [.none, .point, .seg] (interLinePolyhedron l B) :=
  interLinePolyhedron_loop_typed l B.faces []

theorem interPlanePolyhedron_typed (a : Plane) (B : Polyhedron) :
    TyIn [.none, .point, .seg, .polygon] (interPlanePolyhedron a B) := by
  unfold interPlanePolyhedron
  split
  · exact TyIn.ok (by simp [resTyOf])
  · split
    · exact TyIn.error _ _
    · exact none_typed (by simp)
    · exact (pt?_typed _).mono (by simp)
    · exact TyIn.bind _ _ (fun s => (seg?_typed s).mono (by simp))
    · exact TyIn.bind _ _ (fun P => TyIn.ok (by simp [resTyOf]))

theorem interSegPolyhedron_typed (a : Seg) (B : Polyhedron) :
    TyIn [.none, .point, .seg] (interSegPolyhedron a B) := by
  unfold interSegPolyhedron
  split
  · exact seg?_typed a
  · exact TyIn.bind _ _ (fun acc => ofPoints_typed _)

theorem interPolyhedronHalfLine_typed (B : Polyhedron) (h : HalfLine) :
    TyIn [.none, .point, .seg] (interPolyhedronHalfLine B h) := by
  unfold interPolyhedronHalfLine
  exact TyIn.bind _ _ (fun acc => ofPoints_typed _)

/-- two results of `inter_line_convexpolygon` intersected with each other -/
theorem interFlatPair_typed_of_PS (x y : Geo) (hx : resTyOf (some (.flat x)) ∈ [ResTy.none, .point, .seg])
    (hy : resTyOf (some (.flat y)) ∈ [ResTy.none, .point, .seg]) :
    TyIn [.none, .point, .seg] (interFlatPair x y) := by
  apply TyIn.liftFlat
  intro o ho
  have := interFlat_typed x y o ho
  cases x <;> cases y <;> simp [resTyOf] at hx hy <;> simp only [allowed] at this <;>
    (revert this; cases flatResTy o <;> simp)

theorem interPolygonPolygon_typed (a b : Polygon) :
    TyIn [.none, .point, .seg, .polygon] (interPolygonPolygon a b) := by
  unfold interPolygonPolygon
  split
  · exact none_typed (by simp)
  · split
    · exact none_typed (by simp)
    · exact none_typed (by simp)
    · rename_i x y hx hy
      exact (interFlatPair_typed_of_PS x y (interLinePolygon_typed _ a _ hx) (interLinePolygon_typed _ b _ hy)).mono
        (by simp)
    · exact TyIn.error _ _
    · exact TyIn.error _ _
    · exact TyIn.error _ _
  · split
    · exact TyIn.error _ _
    · refine TyIn.bind _ _ (fun sa => TyIn.bind _ _ (fun sb => TyIn.bind _ _ (fun acc => ?_)))
      split
      · exact TyIn.ok (by simp [resTyOf])
      · exact (pt?_typed _).mono (by simp)
      · exact TyIn.bind _ _ (fun s => (seg?_typed s).mono (by simp))
      · refine TyIn.bind _ _ (fun c => ?_)
        have hjp : ∀ _ : PUnit, TyIn [.none, .point, .seg, .polygon]
            (liftC (Polygon.mk? acc) >>= fun P => pure (some (Obj.polygon P))) :=
          fun _ => TyIn.bind _ _ (fun P => TyIn.ok (by simp [resTyOf]))
        cases c
        · exact hjp ()
        · exact TyIn.bind _ _ hjp
  · exact TyIn.error _ _

theorem interPolygonPolyhedron_typed (B : Polyhedron) (P : Polygon) :
    TyIn [.none, .point, .seg, .polygon] (interPolygonPolyhedron B P) := by
  unfold interPolygonPolyhedron
  split
  · exact none_typed (by simp)
  · exact (interPointPolygon_typed _ P).mono (by simp)
  · exact (interSegPolygon_typed _ P).mono (by simp)
  · exact interPolygonPolygon_typed _ P
  · exact TyIn.error _ _
  · exact TyIn.error _ _

theorem interPolyhedronPolyhedron_typed (A B : Polyhedron) :
    TyIn [.none, .point, .seg, .polygon, .polyhedron] (interPolyhedronPolyhedron A B) := by
  unfold interPolyhedronPolyhedron
  refine TyIn.bind _ _ (fun p1 => TyIn.bind _ _ (fun p2 => ?_))
  split
  · exact TyIn.bind _ _ (fun R => TyIn.ok (by simp [resTyOf]))
  · exact TyIn.ok (by simp [resTyOf])
  · exact TyIn.error _ _
  · exact (seg?_typed _).mono (by simp)
  · exact TyIn.error _ _
  · exact (pt?_typed _).mono (by simp)
  · exact TyIn.ok (by simp [resTyOf])

end G3D
