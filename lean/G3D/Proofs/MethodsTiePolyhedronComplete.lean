import G3D.Extracted.Mpolyhedron
/-! # group `mpolyhedron`: every method was translated (couples all methods; not registered per property) -/
namespace G3D.Tie
open V3 PyRt Extracted

theorem mpolyhedron_complete : mpolyhedronFailed = [] := rfl

end G3D.Tie
