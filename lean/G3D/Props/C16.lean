import G3D.Proofs.Solver2
/-! # C16 — `solve` returns genuine solutions of the linear system  (full, general m × n)
    `m` is an augmented matrix with `n` unknowns (every row has `n+1` entries, at least one row).
    `Sat m x` : the tuple `x` satisfies every equation.  `solve`, `solvable` (truthiness), `varargs`
    (expected number of free parameters) and `call` (`Solution.__call__`) model utils/solver.py. -/
namespace G3D.Props.C16
open G3D.Solver2

/-- truthy exactly when the system is consistent -/
theorem truthy_iff_consistent (n : Nat) (m : Mat) (hu : Uniform (n+1) m) (hne : m ≠ []) :
    solvable (solve m) = true ↔ ∃ x : List Rat, x.length = n ∧ Sat m x :=
  solvable_iff_consistent n m hu hne

/-- calling a consistent solution with ANY values for the expected number of parameters returns a tuple of
    `n` numbers (no `None`) that satisfies every equation of the ORIGINAL system -/
theorem call_returns_solution (n : Nat) (m : Mat) (hu : Uniform (n+1) m) (hne : m ≠ [])
    (hs : solvable (solve m) = true) (v : List Rat) (hv : v.length = varargs n (solve m)) :
    ∃ vals, call n (solve m) v = .ok vals ∧ vals.length = n ∧
      (∀ i, i < n → vals.getD i none ≠ none) ∧ Sat m (tot vals) :=
  call_satisfies n m hu hne hs v hv

/-- the parameters are read back unchanged at the free columns: different parameter tuples give
    different solutions (injectivity of the parametrisation) -/
theorem parameters_read_back (n : Nat) (m : Mat) (hu : Uniform (n+1) m) (hne : m ≠ [])
    (hs : solvable (solve m) = true) (v : List Rat) (hv : v.length = varargs n (solve m))
    (vals : List (Option Rat)) (hcall : call n (solve m) v = .ok vals) :
    ∀ t, t < v.length →
      (vals.getD ((freeCols (pivotCols (solve m)) n).getD t 0) none) = some (v.getD t 0) :=
  call_readback n m hu hne hs v hv vals hcall

/-- every solution of the system is obtained from some parameter tuple (surjectivity): together with
    `parameters_read_back` the solution set is parametrised bijectively by `varargs` free values, i.e.
    `varargs` = number of unknowns − rank of the coefficient matrix (dimension of the solution space) -/
theorem every_solution_reached (n : Nat) (m : Mat) (hu : Uniform (n+1) m) (hne : m ≠ [])
    (x : List Rat) (hx : x.length = n) (hsat : Sat m x) :
    ∃ v vals, v.length = varargs n (solve m) ∧ call n (solve m) v = .ok vals ∧ tot vals = x :=
  call_surjective n m hu hne x hx hsat

/-- elimination does not change the solution set -/
theorem elimination_preserves_solutions (m : Mat) (x : List Rat)
    (hu : Uniform (m.headD []).length m) : Sat (solve m) x ↔ Sat m x := gauss_preserves_solutions m x hu

/-- non-vacuity and the D4 witnesses (zero leading column): `0x + y + 2z = 3` is solvable with two free
    parameters, and `y = 1 ∧ y = 2` is not solvable -/
example : solvable (solve [[0, 1, 2, 3]]) = true ∧ varargs 3 (solve [[0, 1, 2, 3]]) = 2 ∧
    call 3 (solve [[0, 1, 2, 3]]) [1, 1] = .ok [some 1, some 1, some 1] := by decide +kernel
example : solvable (solve [[0, 1, 1], [0, 1, 2]]) = false := by decide +kernel
end G3D.Props.C16
