import G3D.Extracted.Dispvol
/-! # C15 — unsupported operands raise: `volume` (table extracted from calc/volume.py)

One small module per extracted table, proved by evaluation of the table alone, so that a change in one dispatch chain
breaks this statement only if it changes what the statement is about. -/
namespace G3D.Props.C15
open G3D G3D.Dispatch G3D.Extracted

/-- `volume(x)`: Pyramid and ConvexPolyhedron compute, everything else raises ValueError -/
theorem volume_dispatch : volumeCell .pyramid = .compute ∧ volumeCell .polyhedron = .compute ∧
    ∀ t ∈ allTypes, t ≠ .pyramid → t ≠ .polyhedron → volumeCell t = .raise "ValueError" := by decide
end G3D.Props.C15
