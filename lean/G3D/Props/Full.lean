import G3D.Props.C12
import G3D.Props.C04b
import G3D.Proofs.EulerAllProof
/-! # Full-strength statements, and what they now reduce to

The statements below are the properties C02 / C03 / C04 / C12 at full strength in the vocabulary of the model.  They are
`def … : Prop`; the theorems after them show that each FOLLOWS from Euler's polyhedron formula for the face complex assembled
by polyhedron × polyhedron (`EulerAll`, the check `ConvexPolyhedron.__init__` performs at run time) and from nothing else —
and `eulerAll` proves that formula, so all of them hold (`*_holds`).

Operand validity is `OpOK`: well-formed flats, Valid polygons, polyhedra meeting `ExactHyp` (Valid faces, closed surface, vertices
inside, NO coplanar neighbouring faces, edge list = face edges).  The exclusion of coplanar neighbours is necessary:
`not_exact_with_coplanar_neighbours` (observation O1). -/
namespace G3D.Props.Full
open G3D V3

/-- **C02 / C03 / C04 at full strength**: for admissible operands of any of the 49 type pairs `intersection` returns, without
    error, None or an admissible operand denoting EXACTLY the common points -/
def inter_exact_all : Prop :=
  ∀ a b : Obj, OpOK a → OpOK b →
    ∃ o, inter a b = .ok o ∧ ResOK' o ∧ ∀ x, denOptB o x ↔ (ObjDen a x ∧ ObjDen b x)

/-- **C04 at full strength** (totality part): no exception on admissible operands -/
def inter_total_all : Prop :=
  ∀ a b : Obj, OpOK a → OpOK b → ∀ e, inter a b ≠ .error e

/-- **C12 at full strength**: associativity on denotations for all 343 type triples -/
def inter_assoc_all : Prop :=
  ∀ a b c : Obj, OpOK a → OpOK b → OpOK c →
    ∃ ab bc l r, inter a b = .ok ab ∧ inter b c = .ok bc ∧ interOpt ab (some c) = .ok l ∧ interOpt (some a) bc = .ok r ∧
      (∀ x, denOptB l x ↔ (ObjDen a x ∧ ObjDen b x ∧ ObjDen c x)) ∧ (∀ x, denOptB r x ↔ (ObjDen a x ∧ ObjDen b x ∧ ObjDen c x))

/-- the single open fact -/
def euler_formula_for_assembled_complexes : Prop := EulerAll

theorem exact_of_euler (hE : EulerAll) : inter_exact_all := by
  intro a b ha hb
  obtain ⟨o, ho, hw, hd⟩ := interRef_exact_all hE a b ha hb
  exact ⟨o, by rw [Props.C04.inter_eq_ref]; exact ho, hw, hd⟩

theorem total_of_exact (h : inter_exact_all) : inter_total_all := by
  intro a b ha hb e he
  obtain ⟨o, ho, _⟩ := h a b ha hb
  rw [ho] at he; cases he

theorem assoc_of_euler (hE : EulerAll) : inter_assoc_all := by
  intro a b c ha hb hc
  obtain ⟨ab, bc, l, r, h1, h2, h3, h4, _, _, h5, h6⟩ := Props.C12.assoc_all_types_of_euler hE a b c ha hb hc
  exact ⟨ab, bc, l, r, h1, h2, h3, h4, h5, h6⟩

/-- … and that fact is proved (`Proofs/Euler1–6.lean`): the full-strength statements hold -/
theorem inter_exact_all_holds : inter_exact_all := exact_of_euler eulerAll
theorem inter_total_all_holds : inter_total_all := total_of_exact inter_exact_all_holds
theorem inter_assoc_all_holds : inter_assoc_all := assoc_of_euler eulerAll

/-- everything that does not pass through a polyhedron × polyhedron call needs no hypothesis at all -/
theorem exact_unconditional (a b : Obj) (ha : OpOK a) (hb : OpOK b) (hnb : NotBothBodies a b) :
    ∃ o, inter a b = .ok o ∧ ResOK o ∧ ∀ x, denOptB o x ↔ (ObjDen a x ∧ ObjDen b x) :=
  Props.C12.inter_exact_admissible a b ha hb hnb

/-- with coplanar neighbouring faces allowed the statement is FALSE (split cube: the Line handler misses part of the
    intersection; the implementation behaves identically) — why `OpOK` asks for `FaceLocal` -/
theorem not_exact_with_coplanar_neighbours :
    ¬ ExactB (interLinePolyhedron lineTop splitCubeE) lineTop.den (BodyDen splitCubeE) := splitCubeE_line_not_exact
end G3D.Props.Full
