import G3D.Proofs.BodySoundSets
import G3D.Proofs.K5
/-! # Full-strength statements of the properties whose proofs are partial
    These are `def … : Prop` — statements, NOT theorems: they record, in the vocabulary of the model, exactly what remains to be
    proved, so that a partial proof is never mistaken for the whole property.  What IS proved about each is in `Props/Cxx.lean`;
    the correspondence decides them on every run against the exact vertex-enumeration oracle. -/
namespace G3D.Props.Full
open G3D V3

/-- denotation of an operand with polyhedra as hulls of their vertices -/
def HullDen : Obj → V3 → Prop
  | .flat g => g.den
  | .polygon P => InHull P.pts
  | .polyhedron B => InHull B.verts

/-- operand validity -/
def OperandValid : Obj → Prop
  | .flat g => g.WF
  | .polygon P => P.Valid
  | .polyhedron B => B.Valid ∧ B.Good

/-- **C02 / C03 / C04 at full strength**: for valid operands of any of the 49 type pairs `intersection` returns, without
    error, an object denoting EXACTLY the common points (proved: all flat pairs, flat × polygon, polygon × polygon with
    different carrier planes; soundness for every pair; open: completeness K2, K3, K4) -/
def inter_exact_all : Prop :=
  ∀ a b : Obj, OperandValid a → OperandValid b →
    ∃ o, inter a b = .ok o ∧ ∀ x, denOptB o x ↔ (HullDen a x ∧ HullDen b x)

/-- **C04 at full strength** (totality part): no internal error on valid operands -/
def inter_total_all : Prop :=
  ∀ a b : Obj, OperandValid a → OperandValid b → ∀ e, inter a b ≠ .error e

/-- **C12 at full strength**: associativity on denotations for all 343 type triples -/
def inter_assoc_all : Prop :=
  ∀ a b c : Obj, OperandValid a → OperandValid b → OperandValid c →
    ∃ ab bc l r, inter a b = .ok ab ∧ inter b c = .ok bc ∧ interOpt ab (some c) = .ok l ∧ interOpt (some a) bc = .ok r ∧
      ∀ x, denOptB l x ↔ denOptB r x

/-- **C09 at full strength** (polyhedron part): the constructor applied to the faces of a Valid body, in any order and
    orientation, returns a Valid body with the same vertices -/
def polyhedron_ctor_canonical : Prop :=
  ∀ (B0 : Polyhedron) (input : List Polygon), B0.Valid →
    (∀ g ∈ input, g.Valid ∧ ∃ f ∈ B0.faces, ∀ p, p ∈ g.pts ↔ p ∈ f.pts) →
    (∀ f ∈ B0.faces, ∃ g ∈ input, ∀ p, p ∈ g.pts ↔ p ∈ f.pts) → input.length = B0.faces.length →
    ∃ B, Polyhedron.mk? input = .ok B ∧ B.Valid ∧ ∀ p, p ∈ B.verts ↔ p ∈ B0.verts

/-- the full statements follow from each other where expected: exactness implies totality -/
theorem total_of_exact (h : inter_exact_all) : inter_total_all := by
  intro a b ha hb e he
  obtain ⟨o, ho, _⟩ := h a b ha hb
  rw [ho] at he; cases he
end G3D.Props.Full
