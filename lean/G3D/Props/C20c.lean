import G3D.Props.C20b
/-! kept in its own module (see the doc comment): not registered for any property -/
namespace G3D.Props.C20
open G3D Extracted

/-- (not registered under C20: an edit that makes a `move` body untranslatable removes its effects list and would raise a C20
    alarm for a C07 matter)  **`move` captures nothing of its argument**: no attribute set by a `move`, and nothing it returns, refers to the Vector passed in -/
theorem moves_do_not_capture_argument_extracted :
    (m_Line_move_effects ++ m_Plane_move_effects ++ m_Segment_move_effects ++ m_HalfLine_move_effects ++
      m_ConvexPolygon_move_effects ++ m_ConvexPolyhedron_move_effects).all (fun e => !mentions "param:" e) = true := by
  decide +kernel
end G3D.Props.C20
