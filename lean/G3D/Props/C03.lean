import G3D.Proofs.PolyPoly
import G3D.Props.C04
import G3D.Proofs.BodySoundSets
/-! # C03 — ConvexPolygon / ConvexPolyhedron × ConvexPolygon / ConvexPolyhedron  (partial)
    Proved: polygon × polygon whenever the carrier planes differ (crossing or parallel) — the result
    denotes exactly the common points of the two hulls.  The coplanar case (kernel K2), polygon ×
    polyhedron (K3) and polyhedron × polyhedron (K3, K4, K6) are not proved; they are decided on every
    run by the correspondence against exact vertex enumeration. -/
namespace G3D.Props.C03
open G3D V3

theorem inter_polygon_polygon_noncoplanar_exact (a b : Polygon) (ha : a.Valid) (hb : b.Valid)
    (hne : a.plane.eqv b.plane = false) :
    ExactB (inter (.polygon a) (.polygon b)) (InHull a.pts) (InHull b.pts) := by
  rw [Props.C04.inter_eq_ref]; exact interPolygonPolygon_noncoplanar_exact a b ha hb hne

/-- corollary: crossing polygons never produce the internal "Bug detected" error -/
theorem inter_polygon_polygon_noncoplanar_total (a b : Polygon) (ha : a.Valid) (hb : b.Valid)
    (hne : a.plane.eqv b.plane = false) : ∀ e, inter (.polygon a) (.polygon b) ≠ .error e := by
  obtain ⟨o, ho, _⟩ := inter_polygon_polygon_noncoplanar_exact a b ha hb hne
  intro e h; rw [ho] at h; cases h

/-! ### soundness of every polygon / polyhedron pair (incl. the coplanar polygon case) -/
/-- result ⊆ a ∩ b for polygon × polygon, polygon × polyhedron, polyhedron × polyhedron (both orders): every point of
    the returned Point / Segment / ConvexPolygon / ConvexPolyhedron lies in both operands -/
theorem inter_body_sound (a b : Obj) (ha : OpWF a) (hb : OpWF b) (o : Option Obj) (h : inter a b = .ok o) :
    ∀ x, denOptB o x → OpDen a x ∧ OpDen b x := inter_result_subset a b ha hb o h

theorem inter_polygon_polygon_sound (a b : Polygon) (ha : a.Valid) (hb : b.Valid) :
    Sound (interPolygonPolygon a b) (InHull a.pts) (InHull b.pts) := interPolygonPolygon_sound a b ha hb

end G3D.Props.C03
