import G3D.Proofs.PolyPoly
import G3D.Props.C04
import G3D.Proofs.BodySoundInter
import G3D.Proofs.K2
import G3D.Proofs.K4a
import G3D.Proofs.K4f
import G3D.Proofs.K4l
import G3D.Proofs.EulerAllProof
import G3D.Proofs.Euler7
/-! # C03 — ConvexPolygon / ConvexPolyhedron × ConvexPolygon / ConvexPolyhedron  (full)
    polygon × polygon EXACT in every relative position (K0, K1, K2, K6); polygon × polyhedron EXACT (K3 plane section ∘ K0/K1/K2);
    polyhedron × polyhedron EXACT and TOTAL (K4 + Euler's polyhedron formula, `Proofs/K4*.lean`, `Euler*.lean`): the result is
    again an admissible operand.  Hypothesis on polyhedra: `ExactHyp` (no coplanar neighbouring faces). -/
namespace G3D.Props.C03
open G3D V3

theorem inter_polygon_polygon_noncoplanar_exact (a b : Polygon) (ha : a.Valid) (hb : b.Valid)
    (hne : a.plane.eqv b.plane = false) :
    ExactB (inter (.polygon a) (.polygon b)) (InHull a.pts) (InHull b.pts) := by
  rw [Props.C04.inter_eq_ref]; exact interPolygonPolygon_noncoplanar_exact a b ha hb hne

/-- corollary: crossing polygons never produce the internal "Bug detected" error -/
theorem inter_polygon_polygon_noncoplanar_total (a b : Polygon) (ha : a.Valid) (hb : b.Valid)
    (hne : a.plane.eqv b.plane = false) : ∀ e, inter (.polygon a) (.polygon b) ≠ .error e := by
  obtain ⟨o, ho, _⟩ := inter_polygon_polygon_noncoplanar_exact a b ha hb hne
  intro e h; rw [ho] at h; cases h

/-! ### soundness of every polygon / polyhedron pair (incl. the coplanar polygon case) -/
/-- result ⊆ a ∩ b for polygon × polygon, polygon × polyhedron, polyhedron × polyhedron (both orders): every point of
    the returned Point / Segment / ConvexPolygon / ConvexPolyhedron lies in both operands -/
theorem inter_body_sound (a b : Obj) (ha : OpWF a) (hb : OpWF b) (o : Option Obj) (h : inter a b = .ok o) :
    ∀ x, denOptB o x → OpDen a x ∧ OpDen b x := inter_result_subset a b ha hb o h

theorem inter_polygon_polygon_sound (a b : Polygon) (ha : a.Valid) (hb : b.Valid) :
    Sound (interPolygonPolygon a b) (InHull a.pts) (InHull b.pts) := interPolygonPolygon_sound a b ha hb

/-! ### kernel K2 — polygon × polygon is EXACT in every relative position -/
/-- **ConvexPolygon × ConvexPolygon, full**: for two Valid polygons — crossing planes, parallel planes or the SAME plane
    (overlapping, nested, touching in a point or along an edge, disjoint) — `intersection` returns without error None, a Point,
    a proper Segment or a polygon, whose points are exactly the common points of the two hulls -/
theorem inter_polygon_polygon_exact (a b : Polygon) (ha : a.Valid) (hb : b.Valid) :
    ExactW (inter (.polygon a) (.polygon b)) (InHull a.pts) (InHull b.pts) := by
  rw [Props.C04.inter_eq_ref]; exact interPolygonPolygon_exact a b ha hb

/-- a polygon returned in the coplanar case is Valid (so it has the true vertex set of the intersection: dimension and
    vertex set, hence length and area, are those of the exact intersection) -/
theorem inter_polygon_polygon_result_valid (a b : Polygon) (ha : a.Valid) (hb : b.Valid)
    (hco : a.plane.eqv b.plane = true) (P : Polygon) (h : interPolygonPolygon a b = .ok (some (.polygon P))) :
    P.Valid ∧ ∃ out, coplanarCollect a b = .ok out ∧ List.Perm P.pts out :=
  interPolygonPolygon_coplanar_polygon_valid a b ha hb hco P h

/-- no "Bug detected" for any two Valid polygons -/
theorem inter_polygon_polygon_total (a b : Polygon) (ha : a.Valid) (hb : b.Valid) :
    ∀ e, inter (.polygon a) (.polygon b) ≠ .error e := by
  obtain ⟨o, ho, _⟩ := inter_polygon_polygon_exact a b ha hb
  intro e h; rw [ho] at h; cases h

/-! ### ConvexPolygon × ConvexPolyhedron is EXACT (K3 plane section ∘ K0/K1/K2) -/
/-- for every Valid polygon and every polyhedron meeting `ExactHyp`, in either argument order, `intersection` returns without
    error None, a Point, a proper Segment or a polygon denoting exactly hull(P) ∩ hull(vertices of B) -/
theorem inter_polygon_polyhedron_exact (P : Polygon) (hv : P.Valid) (B : Polyhedron) (hH : B.ExactHyp) :
    ExactW (inter (.polygon P) (.polyhedron B)) (InHull P.pts) (InHull B.verts) ∧
    ExactW (inter (.polyhedron B) (.polygon P)) (InHull P.pts) (InHull B.verts) := by
  rw [Props.C04.inter_eq_ref, Props.C04.inter_eq_ref]
  exact ⟨interPolygonPolyhedron_exact B hH P hv, interPolygonPolyhedron_exact B hH P hv⟩

/-- no "Bug detected" for polygon × polyhedron -/
theorem inter_polygon_polyhedron_total (P : Polygon) (hv : P.Valid) (B : Polyhedron) (hH : B.ExactHyp) :
    (∀ e, inter (.polygon P) (.polyhedron B) ≠ .error e) ∧ (∀ e, inter (.polyhedron B) (.polygon P) ≠ .error e) := by
  obtain ⟨⟨o, ho, _⟩, ⟨o', ho', _⟩⟩ := inter_polygon_polyhedron_exact P hv B hH
  refine ⟨fun e h => ?_, fun e h => ?_⟩
  · rw [ho] at h; cases h
  · rw [ho'] at h; cases h

/-! ### kernel K4 — ConvexPolyhedron × ConvexPolyhedron: whatever is returned is EXACTLY A ∩ B; the only possible failure is the
    constructor's own check on the collected faces -/
/-- for two polyhedra meeting `ExactHyp`: if `intersection` returns, the result (None, Point, proper Segment, polygon or
    polyhedron) denotes exactly hull(A) ∩ hull(B); if it raises, the exception comes from `ConvexPolyhedron(collected faces)`
    (Euler / orientation check) on ≥ 2 Valid collected face polygons — never from a "Bug detected" branch -/
theorem inter_polyhedron_polyhedron_exact_of_ok (A B : Polyhedron) (hA : A.ExactHyp) (hB : B.ExactHyp) :
    (∀ o, inter (.polyhedron A) (.polyhedron B) = .ok o →
      ResSegWF o ∧ ∀ x, denOptB o x ↔ (InHull A.verts x ∧ InHull B.verts x)) ∧
    (∀ e, inter (.polyhedron A) (.polyhedron B) = .error e →
      ∃ p, K4.Parts2 A B p ∧ 2 ≤ p.gons.length ∧ (∀ g ∈ p.gons, g.Valid) ∧
        ∃ ce, Polyhedron.mk? p.gons = .error ce ∧ e = .ctor ce) := by
  rw [Props.C04.inter_eq_ref]; exact interPolyhedronPolyhedron_exact_of_ok A B hA hB

theorem inter_polyhedron_polyhedron_no_bug (A B : Polyhedron) (hA : A.ExactHyp) (hB : B.ExactHyp) :
    inter (.polyhedron A) (.polyhedron B) ≠ .error .bug := by
  rw [Props.C04.inter_eq_ref]; exact interPolyhedronPolyhedron_no_bug A B hA hB

/-- None is returned exactly when the bodies are disjoint -/
theorem inter_polyhedron_polyhedron_none_iff (A B : Polyhedron) (hA : A.ExactHyp) (hB : B.ExactHyp) :
    inter (.polyhedron A) (.polyhedron B) = .ok none ↔ ∀ x, ¬ (InHull A.verts x ∧ InHull B.verts x) := by
  rw [Props.C04.inter_eq_ref]; exact interPolyhedronPolyhedron_none_iff A B hA hB

/-- the lower-dimensional results (touching bodies: common face, edge, vertex; disjoint) are returned without any error -/
theorem inter_polyhedron_polyhedron_total_or_ctor (A B : Polyhedron) (hA : A.ExactHyp) (hB : B.ExactHyp) :
    ∃ p, K4.Parts2 A B p ∧
      ((p.gons.length < 2 ∧ ∃ o, inter (.polyhedron A) (.polyhedron B) = .ok o ∧ K4.Shape o ∧
          ∀ x, denOptB o x ↔ (InHull A.verts x ∧ InHull B.verts x)) ∨
       (2 ≤ p.gons.length ∧ (∀ g ∈ p.gons, g.Valid) ∧
          inter (.polyhedron A) (.polyhedron B) = (do let R ← liftC (Polyhedron.mk? p.gons); pure (some (.polyhedron R))) ∧
          ∀ R, Polyhedron.mk? p.gons = .ok R → ∀ x, InHull R.verts x ↔ (InHull A.verts x ∧ InHull B.verts x))) := by
  rw [Props.C04.inter_eq_ref]; exact interPolyhedronPolyhedron_total A B hA hB


/-! ### polyhedron × polyhedron: the only possible failure is Euler's check; a returned body is a valid operand again -/
/-- `K4.eulerOf gons` = V − E + F of the collected face complex (what the constructor computes).  For two polyhedra meeting
    `ExactHyp` exactly one of three things happens: (i) fewer than 2 polygon clips (touching / disjoint bodies): the result is
    returned without error and exact; (ii) the Euler number of the collected complex is 2: a ConvexPolyhedron R is returned,
    exact; (iii) it is not 2: `ValueError` from the constructor — no other failure is possible -/
theorem inter_polyhedron_polyhedron_ok_or_euler (A B : Polyhedron) (hA : A.ExactHyp) (hB : B.ExactHyp) :
    ∃ p, K4.Parts2 A B p ∧
      ((p.gons.length < 2 ∧ ∃ o, inter (.polyhedron A) (.polyhedron B) = .ok o ∧ K4.Shape o ∧
          ∀ x, denOptB o x ↔ (InHull A.verts x ∧ InHull B.verts x)) ∨
       (2 ≤ p.gons.length ∧ K4.eulerOf p.gons = 2 ∧ ∃ R, Polyhedron.mk? p.gons = .ok R ∧
          inter (.polyhedron A) (.polyhedron B) = .ok (some (.polyhedron R)) ∧
          ∀ x, InHull R.verts x ↔ (InHull A.verts x ∧ InHull B.verts x)) ∨
       (2 ≤ p.gons.length ∧ K4.eulerOf p.gons ≠ 2 ∧ Polyhedron.mk? p.gons = .error .value ∧
          inter (.polyhedron A) (.polyhedron B) = .error (.ctor .value))) := by
  rw [Props.C04.inter_eq_ref]; exact interPolyhedronPolyhedron_ok_or_euler A B hA hB

/-- a returned ConvexPolyhedron is a closed convex body again: Valid (closed surface, vertices inside, interior point), without
    coplanar neighbouring faces, edge list = face edges — it meets `ExactHyp`, and both its membership test and the hull of its
    vertices are exactly A ∩ B -/
theorem inter_polyhedron_polyhedron_result_valid (A B : Polyhedron) (hA : A.ExactHyp) (hB : B.ExactHyp)
    (R : Polyhedron) (h : inter (.polyhedron A) (.polyhedron B) = .ok (some (.polyhedron R))) :
    R.Valid ∧ R.ExactHyp ∧
      (∀ x, R.contains x = true ↔ (InHull A.verts x ∧ InHull B.verts x)) ∧
      (∀ x, InHull R.verts x ↔ (InHull A.verts x ∧ InHull B.verts x)) := by
  rw [Props.C04.inter_eq_ref] at h; exact interPolyhedronPolyhedron_result_exactHyp A B hA hB R h

/-- **C03 for every composite pair, given Euler's formula for the assembled complex**: the call returns without error an
    admissible operand (None, well-formed flat, Valid polygon, polyhedron meeting `ExactHyp`) denoting exactly A ∩ B -/
theorem inter_polyhedron_polyhedron_exact_of_euler (A B : Polyhedron) (hA : A.ExactHyp) (hB : B.ExactHyp)
    (heul : ∀ p, K4.Parts2 A B p → 2 ≤ p.gons.length → K4.eulerOf p.gons = 2) :
    ∃ o, inter (.polyhedron A) (.polyhedron B) = .ok o ∧ (∀ ob, o = some ob → OpOK ob) ∧
      ∀ x, denOptB o x ↔ (InHull A.verts x ∧ InHull B.verts x) := by
  rw [Props.C04.inter_eq_ref]; exact interPolyhedronPolyhedron_exactOK_of_euler A B hA hB heul


/-! ### C03 at full strength — no hypothesis left -/
/-- **ConvexPolyhedron × ConvexPolyhedron is EXACT and total**: for two polyhedra meeting `ExactHyp`, `intersection` returns
    without any error None, a Point, a proper Segment, a Valid polygon or a polyhedron meeting `ExactHyp` again, denoting
    exactly hull(A) ∩ hull(B).  (K4 + Euler's polyhedron formula for the assembled complex, both proved.) -/
theorem inter_polyhedron_polyhedron_exact (A B : Polyhedron) (hA : A.ExactHyp) (hB : B.ExactHyp) :
    ∃ o, inter (.polyhedron A) (.polyhedron B) = .ok o ∧ (∀ ob, o = some ob → OpOK ob) ∧
      ∀ x, denOptB o x ↔ (InHull A.verts x ∧ InHull B.verts x) := by
  rw [Props.C04.inter_eq_ref]; exact interPolyhedronPolyhedron_exactOK A B hA hB

/-- **every pair of composite operands, and every other of the 49 pairs**: exact, total, result admissible -/
theorem inter_exact_every_pair (a b : Obj) (ha : OpOK a) (hb : OpOK b) :
    ∃ o, inter a b = .ok o ∧ ResOK' o ∧ ∀ x, denOptB o x ↔ (ObjDen a x ∧ ObjDen b x) := by
  rw [Props.C04.inter_eq_ref]; exact interRef_exact_all eulerAll a b ha hb

/-- **Euler's polyhedron formula** V − E + F = 2 for a Valid body without coplanar neighbouring faces whose directed edges are
    pairwise distinct (necessary: a face list repeated twice is still closed) — the check `ConvexPolyhedron.__init__` makes
    can never fail on such a body -/
theorem euler_formula (B : Polyhedron) (hV : B.Valid) (hloc : B.FaceLocal)
    (hnd : (dirEdges (B.faces.map (·.pts))).Nodup) :
    ((collectVerts B.faces).length : Int) - (edgesOf B.faces []).length + B.faces.length = 2 :=
  Polyhedron.euler B hV hloc hnd

end G3D.Props.C03
