import G3D.Proofs.PolyPoly
import G3D.Props.C04
import G3D.Proofs.BodySoundSets
import G3D.Proofs.K2
import G3D.Proofs.K4a
/-! # C03 — ConvexPolygon / ConvexPolyhedron × ConvexPolygon / ConvexPolyhedron  (partial)
    Proved: polygon × polygon EXACT in every relative position (kernels K0, K1, K2, K6); soundness of every pair.
    Completeness of polygon × polyhedron (K3) and polyhedron × polyhedron (K3, K4) is not proved; decided on every
    run by the correspondence against exact vertex enumeration. -/
namespace G3D.Props.C03
open G3D V3

theorem inter_polygon_polygon_noncoplanar_exact (a b : Polygon) (ha : a.Valid) (hb : b.Valid)
    (hne : a.plane.eqv b.plane = false) :
    ExactB (inter (.polygon a) (.polygon b)) (InHull a.pts) (InHull b.pts) := by
  rw [Props.C04.inter_eq_ref]; exact interPolygonPolygon_noncoplanar_exact a b ha hb hne

/-- corollary: crossing polygons never produce the internal "Bug detected" error -/
theorem inter_polygon_polygon_noncoplanar_total (a b : Polygon) (ha : a.Valid) (hb : b.Valid)
    (hne : a.plane.eqv b.plane = false) : ∀ e, inter (.polygon a) (.polygon b) ≠ .error e := by
  obtain ⟨o, ho, _⟩ := inter_polygon_polygon_noncoplanar_exact a b ha hb hne
  intro e h; rw [ho] at h; cases h

/-! ### soundness of every polygon / polyhedron pair (incl. the coplanar polygon case) -/
/-- result ⊆ a ∩ b for polygon × polygon, polygon × polyhedron, polyhedron × polyhedron (both orders): every point of
    the returned Point / Segment / ConvexPolygon / ConvexPolyhedron lies in both operands -/
theorem inter_body_sound (a b : Obj) (ha : OpWF a) (hb : OpWF b) (o : Option Obj) (h : inter a b = .ok o) :
    ∀ x, denOptB o x → OpDen a x ∧ OpDen b x := inter_result_subset a b ha hb o h

theorem inter_polygon_polygon_sound (a b : Polygon) (ha : a.Valid) (hb : b.Valid) :
    Sound (interPolygonPolygon a b) (InHull a.pts) (InHull b.pts) := interPolygonPolygon_sound a b ha hb

/-! ### kernel K2 — polygon × polygon is EXACT in every relative position -/
/-- **ConvexPolygon × ConvexPolygon, full**: for two Valid polygons — crossing planes, parallel planes or the SAME plane
    (overlapping, nested, touching in a point or along an edge, disjoint) — `intersection` returns without error None, a Point,
    a proper Segment or a polygon, whose points are exactly the common points of the two hulls -/
theorem inter_polygon_polygon_exact (a b : Polygon) (ha : a.Valid) (hb : b.Valid) :
    ExactW (inter (.polygon a) (.polygon b)) (InHull a.pts) (InHull b.pts) := by
  rw [Props.C04.inter_eq_ref]; exact interPolygonPolygon_exact a b ha hb

/-- a polygon returned in the coplanar case is Valid (so it has the true vertex set of the intersection: dimension and
    vertex set, hence length and area, are those of the exact intersection) -/
theorem inter_polygon_polygon_result_valid (a b : Polygon) (ha : a.Valid) (hb : b.Valid)
    (hco : a.plane.eqv b.plane = true) (P : Polygon) (h : interPolygonPolygon a b = .ok (some (.polygon P))) :
    P.Valid ∧ ∃ out, coplanarCollect a b = .ok out ∧ List.Perm P.pts out :=
  interPolygonPolygon_coplanar_polygon_valid a b ha hb hco P h

/-- no "Bug detected" for any two Valid polygons -/
theorem inter_polygon_polygon_total (a b : Polygon) (ha : a.Valid) (hb : b.Valid) :
    ∀ e, inter (.polygon a) (.polygon b) ≠ .error e := by
  obtain ⟨o, ho, _⟩ := inter_polygon_polygon_exact a b ha hb
  intro e h; rw [ho] at h; cases h

/-! ### ConvexPolygon × ConvexPolyhedron is EXACT (K3 plane section ∘ K0/K1/K2) -/
/-- for every Valid polygon and every polyhedron meeting `ExactHyp`, in either argument order, `intersection` returns without
    error None, a Point, a proper Segment or a polygon denoting exactly hull(P) ∩ hull(vertices of B) -/
theorem inter_polygon_polyhedron_exact (P : Polygon) (hv : P.Valid) (B : Polyhedron) (hH : B.ExactHyp) :
    ExactW (inter (.polygon P) (.polyhedron B)) (InHull P.pts) (InHull B.verts) ∧
    ExactW (inter (.polyhedron B) (.polygon P)) (InHull P.pts) (InHull B.verts) := by
  rw [Props.C04.inter_eq_ref, Props.C04.inter_eq_ref]
  exact ⟨interPolygonPolyhedron_exact B hH P hv, interPolygonPolyhedron_exact B hH P hv⟩

/-- no "Bug detected" for polygon × polyhedron -/
theorem inter_polygon_polyhedron_total (P : Polygon) (hv : P.Valid) (B : Polyhedron) (hH : B.ExactHyp) :
    (∀ e, inter (.polygon P) (.polyhedron B) ≠ .error e) ∧ (∀ e, inter (.polyhedron B) (.polygon P) ≠ .error e) := by
  obtain ⟨⟨o, ho, _⟩, ⟨o', ho', _⟩⟩ := inter_polygon_polyhedron_exact P hv B hH
  refine ⟨fun e h => ?_, fun e h => ?_⟩
  · rw [ho] at h; cases h
  · rw [ho'] at h; cases h
end G3D.Props.C03
