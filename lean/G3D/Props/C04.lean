import G3D.Model.Inter
import G3D.Extracted.Doc
/-! # C04 — intersection is total, symmetric and typed over all operand type pairs
    Theorems over the dispatch table extracted from the CURRENT source (finite ⇒ `decide` is a proof),
    and the identification of the table-driven dispatcher with the hand-written reference. -/
namespace G3D.Props.C04
open G3D G3D.Dispatch G3D.Extracted

def symCell (a b : Ty) : Bool :=
  match interCell a b, interCell b a with
  | .call h s, .call h' s' => h == h' && (a == b || s != s')
  | _, _ => false

/-- every ordered pair of the seven geometry types reaches one of the 28 handlers -/
theorem dispatch_total : ∀ a ∈ geoTypes, ∀ b ∈ geoTypes, (interCell a b).isCall = true := by decide

/-- cell (a,b) and cell (b,a) name the same handler with swapped arguments -/
theorem dispatch_symmetric : ∀ a ∈ geoTypes, ∀ b ∈ geoTypes, symCell a b = true := by decide

/-- `None` in either position gives `None`, and no other guard precedes the type dispatch -/
theorem none_guard : interNoneGuard = true ∧ interOtherGuards = 0 := by decide

/-- operands outside the seven geometry types fall through to `raise NotImplementedError` -/
theorem rejects_foreign : ∀ a ∈ allTypes, ∀ b ∈ allTypes, (a ∉ geoTypes ∨ b ∉ geoTypes) →
    interCell a b = .raise "NotImplementedError" := by decide

/-- the table-driven dispatcher IS the reference dispatcher (all 49 cells, all operands) -/
theorem inter_eq_ref (a b : Obj) : inter a b = interRef a b := by
  cases a with
  | flat x => cases x <;> cases b with
    | flat y => cases y <;> rfl
    | polygon Q => rfl
    | polyhedron B => rfl
  | polygon P => cases b with
    | flat y => cases y <;> rfl
    | polygon Q => rfl
    | polyhedron B => rfl
  | polyhedron A => cases b with
    | flat y => cases y <;> rfl
    | polygon Q => rfl
    | polyhedron B => rfl

/-- `None` absorbs -/
theorem interOpt_none (b : Option Obj) : interOpt none b = .ok none ∧ interOpt b none = .ok none := by
  cases b <;> simp [interOpt, none_guard.1]

/-- symmetry of the dispatcher on the model: swapping the operands calls the same handler on the
    same (re-swapped) operands, so the results are syntactically equal whenever the two operand types differ -/
theorem inter_comm_of_ne (a b : Obj) (h : tyOf a ≠ tyOf b) : inter a b = inter b a := by
  cases a with
  | flat x => cases x <;> cases b with
    | flat y => cases y <;> first | rfl | exact absurd rfl h
    | polygon Q => rfl
    | polyhedron B => rfl
  | polygon P => cases b with
    | flat y => cases y <;> rfl
    | polygon Q => exact absurd rfl h
    | polyhedron B => rfl
  | polyhedron A => cases b with
    | flat y => cases y <;> rfl
    | polygon Q => rfl
    | polyhedron B => exact absurd rfl h
end G3D.Props.C04

namespace G3D.Props.C04
open G3D G3D.Dispatch G3D.Extracted
/-! ### documented result types (table extracted from docs/source/example_operation.rst) -/

def docFor (a b : Ty) : Option (List ResTy) :=
  (docRows.find? (fun r => (r.1 == a && r.2.1 == b) || (r.1 == b && r.2.1 == a))).map (·.2.2)

/-- the documentation has a row for every unordered pair of the seven types -/
theorem doc_covers_all_pairs : ∀ a ∈ geoTypes, ∀ b ∈ geoTypes, (docFor a b).isSome = true := by decide

/-- every documented row allows `None`, and never documents a result of higher dimension than an operand -/
theorem doc_rows_allow_none : ∀ r ∈ docRows, ResTy.none ∈ r.2.2 := by decide

end G3D.Props.C04
