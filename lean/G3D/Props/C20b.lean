import G3D.Extracted.Mflat
import G3D.Extracted.Mpolygon
import G3D.Extracted.Mpolyhedron
/-! # C20 (continued) — ownership and purity read off the method bodies EXTRACTED from the source

The methods translator records, for every method, the provenance of each reference it stores or returns
(`store: self.x = copy | new | param:a | self.y …`, `return: …`, `inplace: …`).  The exact lists are pinned in
`Proofs/MethodsTie*Effects.lean`; here only what property C20 needs is stated, as predicates that do not change when a
method is edited in a way that does not concern ownership (so an unrelated edit of `move` does not raise a C20 alarm). -/
namespace G3D.Props.C20
open G3D Extracted

/-- does the list of characters `pat` occur in `s`? (structural, kernel-evaluable) -/
def isPrefixC : List Char → List Char → Bool
  | [], _ => true
  | _ :: _, [] => false
  | p :: ps, c :: cs => p == c && isPrefixC ps cs
def hasInfixC (pat : List Char) : List Char → Bool
  | [] => pat.isEmpty
  | c :: cs => isPrefixC pat (c :: cs) || hasInfixC pat cs
def mentions (pat : String) (e : String) : Bool := hasInfixC pat.toList e.toList

/-- **the four owning constructors store no reference to a caller's argument**: every attribute they set is a deep copy or a
    freshly built object (no `param:` provenance) -/
theorem owning_constructors_copy_extracted :
    (m_Segment___init___effects ++ m_HalfLine___init___effects ++ m_ConvexPolygon___init___effects ++
      m_ConvexPolyhedron___init___effects).all (fun e => !mentions "param:" e) = true := by decide +kernel

/-- … whereas Line and Plane keep references (documented aliasing, outside the owners of C20): the extraction does see them -/
theorem line_plane_alias_extracted :
    (m_Line___init___effects.any (mentions "param:")) = true ∧ (m_Plane__init_pn_effects.any (mentions "param:")) = true := by
  decide +kernel

/-- **queries are pure**: membership, `in_`, equality, `segments`, `length` store nothing and mutate nothing in place -/
theorem queries_store_nothing_extracted :
    (m_Line___contains___effects ++ m_Line___eq___effects ++ m_Plane___contains___effects ++ m_Plane___eq___effects ++
      m_Segment___contains___effects ++ m_Segment___eq___effects ++ m_Segment_in__effects ++
      m_HalfLine___contains___effects ++ m_HalfLine___eq___effects ++ m_HalfLine_in__effects ++
      m_ConvexPolygon___contains___effects ++ m_ConvexPolygon_in__effects ++ m_ConvexPolygon___eq___effects ++
      m_ConvexPolygon_segments_effects ++ m_ConvexPolygon_length_effects ++
      m_ConvexPolyhedron___contains___effects).all (fun e => !mentions "store:" e && !mentions "inplace:" e) = true := by
  decide +kernel

end G3D.Props.C20
