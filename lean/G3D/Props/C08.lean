import G3D.Proofs.HashKey
import G3D.Props.Classes
import G3D.Proofs.SameSet
import G3D.Proofs.HashSum
/-! # C08 — equality is representation-independent and consistent with hashing
    `eqv` models `__eq__` (exact reading), `hashKey` models the tuple the CURRENT `__hash__` rounds and hashes,
    with every rounded float replaced by an exact injective representative (unit vectors as
    (sign, component²/normSq), the foot point of the origin for a Line, the signed offset for a Plane).
    Full for Point/Vector, Line, Plane, Segment, HalfLine.  For ConvexPolygon / ConvexPolyhedron `==` IS equality of hash SUMS in
    the code; the model compares vertex sets and planes / face sets, which is proved ⇔ same point set (`Proofs/SameSet.lean`);
    that equal sums stand for equal sets is the modelling idealisation, decided per run.
    Trusted: equal keys ⇒ equal Python hash (deterministic tuple hash); the converse is probabilistic, not claimed. -/
namespace G3D.Props.C08
open G3D V3 G3D.Dispatch

/-! same point set ⇔ `==` (both directions: "same set ⇒ equal" and "different sets ⇒ unequal") -/
theorem line_eq_iff_same_set (l o : Line) (hl : l.WF) (ho : o.WF) : l.eqv o = true ↔ ∀ x, l.den x ↔ o.den x :=
  Line.eqv_iff l o hl ho
theorem plane_eq_iff_same_set (a b : Plane) (ha : a.WF) (hb : b.WF) : a.eqv b = true ↔ ∀ x, a.den x ↔ b.den x :=
  Plane.eqv_iff a b ha hb
theorem segment_eq_iff_same_set (s o : Seg) (hs : s.WF) (ho : o.WF) : s.eqv o = true ↔ ∀ x, s.den x ↔ o.den x :=
  Seg.eqv_iff s o hs ho
theorem halfline_eq_iff_same_set (h o : HalfLine) (hh : h.WF) (ho : o.WF) : h.eqv o = true ↔ ∀ x, h.den x ↔ o.den x :=
  HalfLine.eqv_iff h o hh ho

/-! `a == b ⇔ same hash key`  (⇒ is the property "whenever a == b, hash(a) == hash(b)") -/
theorem point_eq_iff_key (p q : V3) : p = q ↔ Point.hashTuple p = Point.hashTuple q := by
  rw [Point.hashTuple_eq_iff]; exact Point.hashKey_eq_iff p q
theorem line_eq_iff_key (l o : Line) (hl : l.WF) (ho : o.WF) : l.eqv o = true ↔ Line.hashKey l = Line.hashKey o :=
  Line.eqv_iff_hashKey l o hl ho
theorem plane_eq_iff_key (a b : Plane) (ha : a.WF) (hb : b.WF) : a.eqv b = true ↔ Plane.hashKey a = Plane.hashKey b :=
  Plane.eqv_iff_hashKey a b ha hb
theorem segment_eq_iff_key (s o : Seg) : s.eqv o = true ↔ Seg.hashKey s = Seg.hashKey o := Seg.eqv_iff_hashKey s o
theorem halfline_eq_iff_key (h o : HalfLine) (hh : h.WF) (ho : o.WF) :
    h.eqv o = true ↔ HalfLine.hashKey h = HalfLine.hashKey o := HalfLine.eqv_iff_hashKey h o hh ho

/-! reflexive and symmetric -/
theorem eq_refl_symm_line (l o : Line) (hl : l.WF) (ho : o.WF) : l.eqv l = true ∧ l.eqv o = o.eqv l :=
  ⟨Line.eqv_refl l hl, Line.eqv_comm l o hl ho⟩
theorem eq_refl_symm_plane (a b : Plane) (ha : a.WF) (hb : b.WF) : a.eqv a = true ∧ a.eqv b = b.eqv a :=
  ⟨Plane.eqv_refl a ha, Plane.eqv_comm a b ha hb⟩
theorem eq_refl_symm_segment (s o : Seg) : s.same s = true ∧ s.same o = o.same s := ⟨Seg.same_refl s, Seg.same_comm s o⟩
theorem eq_refl_symm_halfline (h o : HalfLine) (hh : h.WF) (ho : o.WF) : h.eqv h = true ∧ h.eqv o = o.eqv h :=
  ⟨HalfLine.eqv_refl h hh, HalfLine.eqv_comm h o hh ho⟩

/-- `==` against a foreign type is `False` for Point, Line, Plane, ConvexPolygon, ConvexPolyhedron (isinstance guard
    extracted from the current source) -/
theorem eq_foreign_false : ∀ t ∈ [Ty.point, .line, .plane, .polygon, .polyhedron],
    ∃ c, Props.Classes.info t = some c ∧ c.eqShape = "guarded:retFalse" := Props.Classes.eq_foreign_false

/-- non-vacuity / the D9 witnesses: equal lines and planes in different representations have equal keys -/
example : Line.hashKey ⟨⟨0,0,0⟩, ⟨1,2,3⟩⟩ = Line.hashKey ⟨⟨1,2,3⟩, ⟨2,4,6⟩⟩ := by decide +kernel
example : Plane.hashKey ⟨⟨0,0,1⟩, ⟨0,0,1⟩⟩ = Plane.hashKey ⟨⟨3,4,1⟩, ⟨0,0,-2⟩⟩ := by decide +kernel

/-! ### ConvexPolygon / ConvexPolyhedron: equality ⇔ same point set
    In the code `==` is equality of hashes built from the SUM of the vertex (and face) hashes and the carrier plane up to
    sign.  The model compares the vertex sets and planes (`Polygon.same`), resp. vertex sets and face sets
    (`Polyhedron.sameB`); that equal sums stand for equal sets is the modelling assumption, checked per run. -/
theorem polygon_eq_iff_same_set (P Q : Polygon) (hP : P.Valid) (hQ : Q.Valid) :
    P.same Q = true ↔ ∀ x, InHull P.pts x ↔ InHull Q.pts x := Polygon.same_iff_same_hull P Q hP hQ
theorem polygon_eq_refl_symm_trans (P Q R : Polygon) (hP : P.Valid) (hQ : Q.Valid) (hR : R.Valid) :
    P.same P = true ∧ P.same Q = Q.same P ∧ (P.same Q = true → Q.same R = true → P.same R = true) :=
  ⟨Polygon.same_refl P hP, Polygon.same_comm P Q hP hQ, Polygon.same_trans P Q R hP hQ hR⟩
/-- polyhedra (faces Valid, closed, vertices inside, no coplanar neighbours; every listed vertex on a face — true of every
    constructed and every moved body) -/
theorem polyhedron_eq_iff_same_set (A B : Polyhedron) (hA : A.Proper) (hB : B.Proper)
    (hAv : A.VertsOnFaces) (hBv : B.VertsOnFaces) :
    A.sameB B = true ↔ ∀ x, InHull A.verts x ↔ InHull B.verts x := Polyhedron.sameB_iff_same_hull A B hA hB hAv hBv
/-- two constructions from the same faces in different order / orientation / start vertex compare equal -/
theorem polyhedron_eq_of_reordered (B0 : Polyhedron) (hV : B0.Valid) (hloc : B0.FaceLocal)
    (F1 F2 input1 input2 : List Polygon) (hperm1 : List.Perm F1 B0.faces) (hrel1 : List.Forall₂ Reoriented F1 input1)
    (hperm2 : List.Perm F2 B0.faces) (hrel2 : List.Forall₂ Reoriented F2 input2)
    (B1 B2 : Polyhedron) (h1 : Polyhedron.mk? input1 = .ok B1) (h2 : Polyhedron.mk? input2 = .ok B2) :
    B1.sameB B2 = true :=
  Polyhedron.mk?_reoriented_sameB B0 hV hloc F1 F2 input1 input2 hperm1 hrel1 hperm2 hrel2 B1 B2 h1 h2


/-! ### the hash SUMS of the code, for an arbitrary point / plane / face hash -/
/-- ConvexPolygon: the code hashes (Σ_points hash(p), a function of hash(plane)); whatever `hash(Point)` is, two Valid polygons
    denoting the same point set get the same tuple — so `a == b` holds in the code and `hash(a) == hash(b)` -/
theorem polygon_same_set_same_hash {κ : Type} (h : V3 → Int)
    (hp : ((Int × Rat) × (Int × Rat) × (Int × Rat)) × (Int × Rat) → κ) (P Q : Polygon) (hP : P.Valid) (hQ : Q.Valid)
    (hd : ∀ x, InHull P.pts x ↔ InHull Q.pts x) : P.hashTupleAbs h hp = Q.hashTupleAbs h hp :=
  Polygon.hashTupleAbs_eq_of_same_hull h hp hP hQ hd
/-- ConvexPolyhedron: (Σ_faces hash(face), Σ_vertices hash(vertex)) agree for equal bodies -/
theorem polyhedron_equal_same_hash {κ : Type} (h : V3 → Int)
    (hp : ((Int × Rat) × (Int × Rat) × (Int × Rat)) × (Int × Rat) → κ) (hf : Int × κ → Int) (A B : Polyhedron)
    (hAf : ∀ f ∈ A.faces, f.Valid) (hBf : ∀ f ∈ B.faces, f.Valid)
    (hAd : A.faces.Pairwise (fun f g => ¬ f.same g = true)) (hBd : B.faces.Pairwise (fun f g => ¬ f.same g = true))
    (hAv : A.verts.Nodup) (hBv : B.verts.Nodup) (hs : A.sameB B = true) :
    A.hashTupleAbs h hp hf = B.hashTupleAbs h hp hf :=
  Polyhedron.hashTupleAbs_eq_of_sameB h hp hf hAf hBf hAd hBd hAv hBv hs
end G3D.Props.C08
