import G3D.Extracted.Poly
import G3D.Proofs.Vec
/-! # C18 — Vector arithmetic is exact component algebra
    `G3D.Extracted.impl_*` are regenerated on every run by pushing polynomial indeterminates through the REAL
    `Vector` / `Point` methods; the theorems below say that what the code computes NOW is the textbook
    component formula, for all inputs (they are re-checked by `ring` against the regenerated terms). -/
namespace G3D.Props.C18
open G3D V3 G3D.Extracted

theorem add_formula (a b : V3) : impl_add a b = V3.add a b := by
  apply V3.ext' <;> simp only [impl_add, V3.add] <;> ring
theorem sub_formula (a b : V3) : impl_sub a b = V3.sub a b := by
  apply V3.ext' <;> simp only [impl_sub, V3.sub] <;> ring
theorem smul_formula (a : V3) (k : Rat) : impl_smul a k = V3.smul k a ∧ impl_rsmul a k = V3.smul k a := by
  constructor <;> apply V3.ext' <;> simp only [impl_smul, impl_rsmul, V3.smul] <;> ring
theorem neg_formula (a : V3) : impl_neg a = V3.neg a := by
  apply V3.ext' <;> simp only [impl_neg, V3.neg] <;> ring
theorem dot_formula (a b : V3) : impl_dot a b = V3.dot a b := by
  simp only [impl_dot, V3.dot]; ring
theorem cross_formula (a b : V3) : impl_cross a b = V3.cross a b := by
  apply V3.ext' <;> simp only [impl_cross, V3.cross] <;> ring
theorem from_points_formula (p q : V3) : impl_fromPoints p q = V3.sub q p := by
  apply V3.ext' <;> simp only [impl_fromPoints, V3.sub] <;> ring
theorem constructors_keep_components (a : V3) :
    impl_fromList a = a ∧ impl_pointFromVector a = a ∧ impl_pointFromList a = a ∧ impl_pv a = a := by
  refine ⟨?_, ?_, ?_, ?_⟩ <;> apply V3.ext' <;> simp only [impl_fromList, impl_pointFromVector, impl_pointFromList, impl_pv]
theorem point_move_formula (p a : V3) : impl_pointMoveReceiver p a = V3.add p a ∧ impl_pointMoveReturned p a = V3.add p a := by
  constructor <;> apply V3.ext' <;> simp only [impl_pointMoveReceiver, impl_pointMoveReturned, V3.add] <;> ring
theorem named_vectors : impl_zero = V3.zero ∧ impl_xUnit = ⟨1,0,0⟩ ∧ impl_yUnit = ⟨0,1,0⟩ ∧ impl_zUnit = ⟨0,0,1⟩ := by
  refine ⟨rfl, rfl, rfl, rfl⟩

/-- consequences, exact for every exact coordinate type: a·(a×b) = 0, a×b = −(b×a), |a×b|² = |a|²|b|² − (a·b)² -/
theorem triple_zero (a b : V3) : impl_dot a (impl_cross a b) = 0 := by
  rw [dot_formula, cross_formula]; exact dot_cross_self a b
theorem cross_anticommutes (a b : V3) : impl_cross a b = impl_neg (impl_cross b a) := by
  rw [cross_formula, neg_formula, cross_formula]; exact cross_anticomm a b
theorem lagrange_identity (a b : V3) :
    impl_dot (impl_cross a b) (impl_cross a b) = impl_dot a a * impl_dot b b - (impl_dot a b)^2 := by
  simp only [dot_formula, cross_formula]; exact lagrange a b

/-- promotion order of `unify_types`: user type, then Fraction, Decimal, float, int (the smallest rank wins;
    `isinstance` is tried in table order and the four built-in types are pairwise non-subclasses) -/
theorem promotion_order :
    typeValues = [("Fraction", 1), ("Decimal", 2), ("float", 3), ("int", 4)] ∧ userTypeValue = 0 ∧ selectsMin = true := by
  decide
end G3D.Props.C18
