import G3D.Proofs.FlatPolygon
import G3D.Proofs.Polyhedron
import G3D.Props.C04
import G3D.Proofs.BodySoundInter
import G3D.Proofs.K5
import G3D.Proofs.K3
import G3D.Proofs.BridgeExact
/-! # C02 — flat primitive × ConvexPolygon / ConvexPolyhedron  (full)
    All five flat × polygon pairs (kernels K0, K1; every Valid polygon) and all five flat × polyhedron pairs (kernels K3, K5;
    every polyhedron meeting `ExactHyp`) are exact in both argument orders: the result denotes exactly f ∩ hull(vertices).
    `ExactHyp` is met by what the constructor stores (bridge theorem) and cannot be weakened to allow coplanar neighbouring
    faces (counterexample).  The theorems named `…_partial` / `…_sound` are the earlier one-directional statements, kept because
    they need weaker hypotheses. -/
namespace G3D.Props.C02
open G3D V3

/-- **C02, polygons**: for every well-formed flat `f` and every Valid polygon `P` (any number of
    vertices, any pose, rational coordinates) `intersection(f, P)` and `intersection(P, f)` return,
    without error, an object whose points are exactly the points of `f` that are convex combinations
    of the polygon's vertices. -/
theorem inter_flat_polygon_exact (f : Geo) (hf : f.WF) (P : Polygon) (hv : P.Valid) :
    ExactB (inter (.flat f) (.polygon P)) f.den (InHull P.pts) ∧
    ExactB (inter (.polygon P) (.flat f)) f.den (InHull P.pts) := by
  rw [Props.C04.inter_eq_ref, Props.C04.inter_eq_ref]
  cases f with
  | point p => exact ⟨(interPointPolygon_exact p P hv).toExactB, (interPointPolygon_exact p P hv).toExactB⟩
  | line l => exact ⟨(interLinePolygon_exact l hf P hv).toExactB, (interLinePolygon_exact l hf P hv).toExactB⟩
  | plane a => exact ⟨interPlanePolygon_exact a hf P hv, interPlanePolygon_exact a hf P hv⟩
  | seg s => exact ⟨interSegPolygon_exact s hf P hv, interSegPolygon_exact s hf P hv⟩
  | halfline h => exact ⟨interPolygonHalfLine_exact P hv h hf, interPolygonHalfLine_exact P hv h hf⟩

/-- Point and Line against a polygon give `None`, a Point or a proper Segment (result typing) -/
theorem inter_line_polygon_typed (l : Line) (hl : l.WF) (P : Polygon) (hv : P.Valid) :
    ExactPS (inter (.flat (.line l)) (.polygon P)) l.den (InHull P.pts) := by
  rw [Props.C04.inter_eq_ref]; exact interLinePolygon_exact l hl P hv

/-- membership in a polygon is membership in the hull of its vertices (K0, both directions) -/
theorem polygon_contains_iff_hull (P : Polygon) (hv : P.Valid) (x : V3) :
    P.contains x = true ↔ InHull P.pts x := Polygon.contains_iff P hv x

/-- partial (polyhedra): every convex combination of the vertices passes the face tests -/
theorem polyhedron_hull_subset_contains_partial (B : Polyhedron) (hv : B.VertsInside) (x : V3)
    (hx : InHull B.verts x) : B.contains x = true := Polyhedron.hull_subset_contains B hv x hx

/-! ### flat × ConvexPolyhedron: soundness (result ⊆ f ∩ K), both argument orders -/
/-- for a well-formed flat and a Good polyhedron, whatever `intersection` returns lies in both operands: every point of
    the result is a point of the flat and passes the membership test of the polyhedron; a returned Segment is proper -/
theorem inter_flat_polyhedron_sound (f : Geo) (hf : f.WF) (B : Polyhedron) (hB : B.Good) (o : Option Obj) :
    (inter (.flat f) (.polyhedron B) = .ok o → ∀ x, denOptB o x → f.den x ∧ B.contains x = true) ∧
    (inter (.polyhedron B) (.flat f) = .ok o → ∀ x, denOptB o x → f.den x ∧ B.contains x = true) := by
  constructor
  · intro h x hx; exact inter_result_subset (.flat f) (.polyhedron B) hf hB o h x hx
  · intro h x hx; exact (inter_result_subset (.polyhedron B) (.flat f) hB hf o h x hx).symm

/-- kernel K5: for a Valid polyhedron the membership test IS the hull of the vertices, so the statement above is about the
    convex body itself -/
theorem polyhedron_contains_iff_hull (B : Polyhedron) (hV : B.Valid) (x : V3) : B.contains x = true ↔ InHull B.verts x :=
  Polyhedron.contains_iff_hull B hV x


/-! ### kernel K3 — flat × ConvexPolyhedron is EXACT -/
/-- **C02, polyhedra**: for a polyhedron satisfying `ExactHyp` (faces Valid, vertices on the inner side of every face, closed
    surface, NO two neighbouring faces coplanar, edge list = the face edges) and every well-formed Point, Line, Segment,
    HalfLine, Plane: `intersection` in either argument order returns without error an object denoting exactly f ∩ K, with K
    the convex hull of the vertices; a returned Segment is proper.  `exactHypB` decides the hypothesis per instance. -/
theorem inter_flat_polyhedron_exact (f : Geo) (hf : f.WF) (B : Polyhedron) (hH : B.ExactHyp) :
    ExactW (inter (.flat f) (.polyhedron B)) f.den (InHull B.verts) ∧
    ExactW (inter (.polyhedron B) (.flat f)) f.den (InHull B.verts) := by
  obtain ⟨hp, hl, hs, hh, ha⟩ := flat_polyhedron_exact_hull B hH
  rw [Props.C04.inter_eq_ref, Props.C04.inter_eq_ref]
  cases f with
  | point p => exact ⟨hp p, hp p⟩
  | line l => exact ⟨hl l hf, hl l hf⟩
  | plane a => exact ⟨ha a hf, ha a hf⟩
  | seg s => exact ⟨hs s hf, hs s hf⟩
  | halfline h => exact ⟨hh h hf, hh h hf⟩

theorem exact_hypothesis_decidable (B : Polyhedron) (h : B.exactHypB = true) : B.ExactHyp := Polyhedron.exactHyp_of_B B h

/-- the hypothesis "no coplanar neighbouring faces" cannot be dropped: on the unit cube whose top face is split into two
    coplanar triangles the Line handler returns only part of the intersection (the real library behaves identically) -/
theorem coplanar_neighbours_break_exactness :
    ¬ ExactB (interLinePolyhedron lineTop splitCubeE) lineTop.den (BodyDen splitCubeE) := splitCubeE_line_not_exact


/-! ### the hypothesis is met by what the constructor stores -/
/-- **bridge**: take a Valid body `B0` without coplanar neighbouring faces (a convex polyhedron given by its maximal faces) and
    feed its faces to the constructor in ANY order, with ANY start vertex and EITHER orientation: whenever the constructor
    accepts, the stored body is Valid and meets `ExactHyp` — so all five flat × polyhedron handlers are exact on it -/
theorem constructed_polyhedron_meets_hypothesis (B0 : Polyhedron) (hV : B0.Valid) (hloc : B0.FaceLocal)
    (F input : List Polygon) (hperm : List.Perm F B0.faces) (hrel : List.Forall₂ Reoriented F input)
    (B : Polyhedron) (h : Polyhedron.mk? input = .ok B) : B.Valid ∧ B.ExactHyp :=
  Polyhedron.mk?_reoriented_exactHyp_of_ok B0 hV hloc F input hperm hrel B h

/-- … hence exactness for every constructed body, stated without `ExactHyp` -/
theorem inter_flat_constructed_polyhedron_exact (B0 : Polyhedron) (hV : B0.Valid) (hloc : B0.FaceLocal)
    (F input : List Polygon) (hperm : List.Perm F B0.faces) (hrel : List.Forall₂ Reoriented F input)
    (B : Polyhedron) (h : Polyhedron.mk? input = .ok B) (f : Geo) (hf : f.WF) :
    ExactW (inter (.flat f) (.polyhedron B)) f.den (InHull B.verts) ∧
    ExactW (inter (.polyhedron B) (.flat f)) f.den (InHull B.verts) :=
  inter_flat_polyhedron_exact f hf B (constructed_polyhedron_meets_hypothesis B0 hV hloc F input hperm hrel B h).2

end G3D.Props.C02
