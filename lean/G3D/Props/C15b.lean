import G3D.Extracted.Mflat
import G3D.Extracted.Mpolygon
import G3D.Extracted.Mpolyhedron
import G3D.Proofs.MethodsTieBase
/-! # C15 (continued) — `move` with a non-Vector argument raises, stated about the method bodies EXTRACTED from the source

Kept apart from the full `move` ties (`Proofs/MethodsTie*Move.lean`, property C07) on purpose: these statements depend only
on the type guard at the top of each `move`, so a change elsewhere in a `move` body (a C07 matter) does not touch them.
    NOT registered under C15 in theorems.json: when an edit makes a `move` body untranslatable the definition disappears and this
    statement would raise a C15 alarm for a C07 matter; C15 relies on the guard table of the `classes` translator instead
    (`Props.C15.move_nonvector_raises`), which reads the guards syntactically. -/
set_option linter.unusedSimpArgs false
namespace G3D.Props.C15
open G3D V3 PyRt Extracted

/-- every geometry type: `x.move(o)` with `o` any geometry object (not a Vector) raises NotImplementedError — whatever the state
    of the receiver -/
theorem move_nonvector_raises_extracted (self : Self) (o : Obj) :
    m_Line_move self (.obj o) = .error .notImpl ∧ m_Plane_move self (.obj o) = .error .notImpl ∧
    m_Segment_move self (.obj o) = .error .notImpl ∧ m_HalfLine_move self (.obj o) = .error .notImpl ∧
    m_ConvexPolygon_move self (.obj o) = .error .notImpl ∧ m_ConvexPolyhedron_move self (.obj o) = .error .notImpl := by
  refine ⟨?_, ?_, ?_, ?_, ?_, ?_⟩
  · unfold m_Line_move; simp [pyrt]
  · unfold m_Plane_move; simp [pyrt]
  · unfold m_Segment_move; simp [pyrt]
  · unfold m_HalfLine_move; simp [pyrt]
  · unfold m_ConvexPolygon_move; simp [pyrt]
  · unfold m_ConvexPolyhedron_move; simp [pyrt]
end G3D.Props.C15
