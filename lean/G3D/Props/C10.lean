import G3D.Proofs.Distance
import G3D.Proofs.Collinear
import G3D.Extracted.Dispdist
/-! # C10 — distance is the exact Euclidean distance, symmetric and total on the documented pairs
    `distSqGeo` is the square of what `distance` returns (through the same auxiliary plane / line
    constructions as the code); `IsMinDistSq d2 A B` says that `d2` is attained and is a lower bound of
    the squared distance between points of `A` and of `B`. -/
namespace G3D.Props.C10
open G3D V3 G3D.Dispatch G3D.Extracted

/-- the documented pairs, in either order -/
def documented : Geo → Geo → Bool
  | .point _, .point _ | .point _, .line _ | .line _, .point _ | .line _, .line _
  | .point _, .plane _ | .plane _, .point _ | .line _, .plane _ | .plane _, .line _ => true
  | _, _ => false

/-- **C10**: on every documented pair (all rational operands, including parallel / intersecting / skew lines
    and a line parallel to, inside or crossing a plane) `distance` returns, without raising, the minimum
    Euclidean distance between the two point sets. -/
theorem distance_is_minimum (a b : Geo) (ha : a.WF) (hb : b.WF) (hd : documented a b = true) :
    ∃ d2, distSqGeo a b = some (.ok d2) ∧ IsMinDistSq d2 a.den b.den := by
  cases a <;> cases b <;> simp only [documented, Bool.false_eq_true] at hd <;> simp only [Geo.WF] at ha hb <;>
    simp only [distSqGeo, Geo.den, Option.some.injEq]
  · exact ⟨_, rfl, fun x y hx hy => by rw [hx, hy]; exact le_refl _, _, _, rfl, rfl, rfl⟩
  · exact distSqPointLine_spec _ _ hb
  · exact distSqPointPlane_spec _ _ hb
  · obtain ⟨d2, h1, h2⟩ := distSqPointLine_spec _ _ ha; exact ⟨d2, h1, h2.symm⟩
  · exact distSqLineLine_spec _ _ ha hb
  · exact distSqLinePlane_spec _ _ ha hb
  · obtain ⟨d2, h1, h2⟩ := distSqPointPlane_spec _ _ ha; exact ⟨d2, h1, h2.symm⟩
  · obtain ⟨d2, h1, h2⟩ := distSqLinePlane_spec _ _ hb ha; exact ⟨d2, h1, h2.symm⟩

/-- symmetric in its arguments -/
theorem distance_symm (a b : Geo) (ha : a.WF) (hb : b.WF) (hd : documented a b = true) :
    distSqGeo a b = distSqGeo b a := by
  obtain ⟨d, h1, m1⟩ := distance_is_minimum a b ha hb hd
  have hd' : documented b a = true := by cases a <;> cases b <;> simp_all [documented]
  obtain ⟨d', h2, m2⟩ := distance_is_minimum b a hb ha hd'
  rw [h1, h2]
  have : d = d' := by
    obtain ⟨lb1, x, y, hx, hy, e1⟩ := m1
    obtain ⟨lb2, y', x', hy', hx', e2⟩ := m2
    have a1 := lb1 x' y' hx' hy'
    have a2 := lb2 y x hy hx
    rw [normSq_sub_comm] at a2
    rw [normSq_sub_comm] at e2
    linarith [e1, e2]
  rw [this]

/-- non-negative, and zero exactly when the two sets have a common point, i.e. exactly when
    `intersection(a, b)` is not `None` (by C01) -/
theorem distance_zero_iff_meet (a b : Geo) (ha : a.WF) (hb : b.WF) (hd : documented a b = true) :
    ∃ d2, distSqGeo a b = some (.ok d2) ∧ 0 ≤ d2 ∧ (d2 = 0 ↔ interFlat a b ≠ .ok none) := by
  obtain ⟨d2, h1, hm⟩ := distance_is_minimum a b ha hb hd
  refine ⟨d2, h1, hm.nonneg, ?_⟩
  rw [hm.zero_iff]
  obtain ⟨o, ho, _, hden⟩ := interFlat_exact a b ha hb
  rw [ho]
  constructor
  · rintro ⟨x, hx⟩ h
    cases o with
    | none => exact (hden x).mpr hx
    | some g => cases h
  · intro hne
    cases o with
    | none => exact absurd rfl hne
    | some g =>
      have hw := ‹∀ g', some g = some g' → g'.WF› g rfl
      have : ∃ x, g.den x := by
        cases g with
        | point p => exact ⟨p, rfl⟩
        | line l => exact ⟨l.sv, 0, by apply V3.ext' <;> simp [add, smul]⟩
        | plane pl => exact ⟨pl.p, by show dot pl.n (sub pl.p pl.p) = 0; simp only [dot, sub]; ring⟩
        | seg s => exact ⟨s.a, 0, le_refl _, by decide, by apply V3.ext' <;> simp [add, smul]⟩
        | halfline h => exact ⟨h.p, 0, le_refl _, by apply V3.ext' <;> simp [add, smul]⟩
      obtain ⟨x, hx⟩ := this
      exact ⟨x, (hden x).mp hx⟩

/-! ### the dispatch chain of calc/distance.py, extracted from the current source -/
def tyG : Geo → Ty
  | .point _ => .point | .line _ => .line | .plane _ => .plane | .seg _ => .seg | .halfline _ => .halfline

/-- the eight documented ordered pairs reach a computing branch (directly or by the swap branch) -/
theorem distance_dispatch_documented :
    ∀ p ∈ [(Ty.point, Ty.point), (.point, .line), (.line, .point), (.line, .line), (.point, .plane),
           (.plane, .point), (.line, .plane), (.plane, .line)], Cell.handles distanceCell p.1 p.2 = true := by decide

/-- every other pair of the nine operand classes raises -/
theorem distance_dispatch_rest_raises : ∀ a ∈ allTypes, ∀ b ∈ allTypes,
    Cell.handles distanceCell a b = false → distanceCell a b = .raise "NotImplementedError" := by decide
end G3D.Props.C10
