import G3D.Extracted.Classes
/-! Theorems over the class table extracted from the current source (finite ⇒ `decide` is a proof). Used by C04
    (method form), C08 (`==` against foreign types), C10/C11 (method forms), C15 (`move` with a non-Vector). -/
namespace G3D.Props.Classes
open G3D.Dispatch G3D.Extracted

def info (t : Ty) : Option ClassInfo := classTable.find? (fun c => c.ty == t)

/-- `GeoBody.intersection/distance/parallel/angle/orthogonal(self, other)` forward unchanged to the functions -/
theorem geobody_forwards : ∀ p ∈ geoBodyForwards, p.2 = true := by decide
theorem geobody_methods_listed : geoBodyForwards.map (·.1) = ["intersection", "distance", "parallel", "angle", "orthogonal"] := by decide

/-- the six non-Point geometry classes inherit GeoBody and redefine none of its query methods, so the method
    form IS the function form; Point is not a GeoBody (it only has its own `distance`) -/
theorem method_form_is_function_form :
    ∀ t ∈ [Ty.line, .plane, .seg, .halfline, .polygon, .polyhedron],
      ∃ c, info t = some c ∧ c.isGeoBody = true ∧ c.overrides = [] := by decide
theorem point_not_geobody : ∃ c, info .point = some c ∧ c.isGeoBody = false ∧ c.overrides = ["distance"] := by decide

/-- `==` of Point, Line, Plane, ConvexPolygon, ConvexPolyhedron tests `isinstance(other, <own class>)` and returns
    `False` otherwise -/
theorem eq_foreign_false : ∀ t ∈ [Ty.point, .line, .plane, .polygon, .polyhedron],
    ∃ c, info t = some c ∧ c.eqShape = "guarded:retFalse" := by decide

/-- every geometry type's `move` raises (does not return) when the argument is not a Vector -/
theorem move_nonvector_raises : ∀ t ∈ geoTypes, ∃ c, info t = some c ∧ c.moveNonVector = "raise:NotImplementedError" := by decide

/-- no `__contains__` ends by returning an exception object -/
theorem contains_never_returns_exception : ∀ c ∈ classTable,
    c.containsElse ∈ ["nocontains", "raise:NotImplementedError", "retFalse"] := by decide
end G3D.Props.Classes
