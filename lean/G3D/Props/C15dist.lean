import G3D.Extracted.Dispdist
/-! # C15 — unsupported operands raise: `distance` (table extracted from calc/distance.py)

One small module per extracted table, proved by evaluation of the table alone, so that a change in one dispatch chain
breaks this statement only if it changes what the statement is about. -/
namespace G3D.Props.C15
open G3D G3D.Dispatch G3D.Extracted

theorem distance_rejects_undocumented : ∀ a ∈ allTypes, ∀ b ∈ allTypes,
    Cell.handles distanceCell a b = false → distanceCell a b = .raise "NotImplementedError" := by decide
end G3D.Props.C15
