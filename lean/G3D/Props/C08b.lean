import G3D.Props.C08
import G3D.Proofs.MethodsTiePolygonEq
import G3D.Proofs.MethodsTiePolyhedronEq
/-! # C08, end to end for the composites: the `__eq__` BODIES of the current source decide equality of point sets

`Props/C08.lean` proves that the model equality (`Polygon.same`, `Polyhedron.sameB`) holds iff the two objects denote the same
point set; `Proofs/MethodsTie*Eq.lean` prove that the bodies of `ConvexPolygon.__eq__` / `ConvexPolyhedron.__eq__`, translated
statement by statement from the source on every run, ARE those functions.  Composed: the method as written returns `True`
exactly for equal point sets (and never raises) — the statement that was false of the pinned tree (defect D12: `==` compared
hashes, and CPython hashes −1 and −2 alike).  Own module: a change of either body breaks exactly these theorems. -/
namespace G3D.Props.C08
open G3D V3 PyRt Extracted G3D.Tie

/-- `ConvexPolygon.__eq__` as extracted: `True` iff the two Valid polygons are the same set of points -/
theorem polygon_eq_method_iff_same_set (P Q : Polygon) (hP : P.Valid) (hQ : Q.Valid) :
    m_ConvexPolygon___eq__ (Self.ofPolygon P) (.obj (.polygon Q)) = .ok (.bool true) ↔ ∀ x, InHull P.pts x ↔ InHull Q.pts x := by
  rw [m_ConvexPolygon___eq___eq, ← polygon_eq_iff_same_set P Q hP hQ]
  constructor
  · intro h; cases hs : P.same Q <;> simp_all
  · intro h; rw [h]

/-- … and it always returns a Boolean (no exception) -/
theorem polygon_eq_method_total (P Q : Polygon) :
    ∃ b, m_ConvexPolygon___eq__ (Self.ofPolygon P) (.obj (.polygon Q)) = .ok (.bool b) := ⟨_, m_ConvexPolygon___eq___eq P Q⟩

/-- `ConvexPolyhedron.__eq__` as extracted: `True` iff the two bodies are the same set of points -/
theorem polyhedron_eq_method_iff_same_set (A B : Polyhedron) (hA : A.Proper) (hB : B.Proper)
    (hAv : A.VertsOnFaces) (hBv : B.VertsOnFaces) :
    m_ConvexPolyhedron___eq__ (Self.ofPolyhedron A) (.obj (.polyhedron B)) = .ok (.bool true) ↔ ∀ x, InHull A.verts x ↔ InHull B.verts x := by
  rw [m_ConvexPolyhedron___eq___eq, ← polyhedron_eq_iff_same_set A B hA hB hAv hBv]
  constructor
  · intro h; cases hs : A.sameB B <;> simp_all
  · intro h; rw [h]

theorem polyhedron_eq_method_total (A B : Polyhedron) :
    ∃ b, m_ConvexPolyhedron___eq__ (Self.ofPolyhedron A) (.obj (.polyhedron B)) = .ok (.bool b) := ⟨_, m_ConvexPolyhedron___eq___eq A B⟩

/-- the witness of D12 in the model: the unit squares in the planes x = −2 and x = −1 are different sets, so the method says `False` -/
example : m_ConvexPolygon___eq__ (Self.ofPolygon { pts := [⟨-2,0,0⟩, ⟨-2,0,1⟩, ⟨-2,1,1⟩, ⟨-2,1,0⟩], plane := ⟨⟨-2,0,0⟩, ⟨1,0,0⟩⟩, center := ⟨-2,1/2,1/2⟩ })
    (.obj (.polygon { pts := [⟨-1,0,0⟩, ⟨-1,0,1⟩, ⟨-1,1,1⟩, ⟨-1,1,0⟩], plane := ⟨⟨-1,0,0⟩, ⟨1,0,0⟩⟩, center := ⟨-1,1/2,1/2⟩ })) = .ok (.bool false) := by
  rw [m_ConvexPolygon___eq___eq]; congr 2

#print axioms polygon_eq_method_iff_same_set
#print axioms polyhedron_eq_method_iff_same_set
end G3D.Props.C08
