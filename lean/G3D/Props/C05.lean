import G3D.Proofs.Move
import G3D.Proofs.Polyhedron
import G3D.Proofs.Equality
import G3D.Proofs.Composite
import G3D.Proofs.K5
/-! # C05 — membership (`in`) agrees with exact containment  (full under the stated validity hypotheses)
    `den` is the point set denoted (parametric definition for flats, convex hull of the vertices for polygons / polyhedra).
    Point in Line/HalfLine/Segment/Plane/ConvexPolygon/ConvexPolyhedron, Segment / HalfLine / Line / ConvexPolygon in their
    containers: iff "every point contained" (kernel K5 for polyhedra: face tests = hull, both directions).  The theorems named
    `…_partial` are the one-directional statements that need only `VertsInside`. -/
namespace G3D.Props.C05
open G3D V3

theorem point_in_line (l : Line) (hl : l.WF) (p : V3) : l.contains p = true ↔ l.den p :=
  Line.contains_iff l hl p
theorem point_in_plane (pl : Plane) (p : V3) : pl.contains p = true ↔ pl.den p := Plane.contains_iff pl p
theorem point_in_segment (s : Seg) (hs : s.WF) (p : V3) : s.contains p = true ↔ s.den p := Seg.contains_iff s hs p
theorem point_in_halfline (h : HalfLine) (hh : h.WF) (p : V3) : h.contains p = true ↔ h.den p :=
  HalfLine.contains_iff h hh p
/-- boundary points (edges, vertices) count: the hull is closed -/
theorem point_in_polygon (P : Polygon) (hv : P.Valid) (p : V3) : P.contains p = true ↔ InHull P.pts p :=
  Polygon.contains_iff P hv p
theorem point_in_polyhedron_partial (B : Polyhedron) (hv : B.VertsInside) (p : V3) (hp : InHull B.verts p) :
    B.contains p = true := Polyhedron.hull_subset_contains B hv p hp

/-! composite cases: `x in S` ⇔ every point of x is a point of S -/
theorem segment_in_line (l : Line) (hl : l.WF) (s : Seg) : l.containsSeg s = true ↔ ∀ x, s.den x → l.den x :=
  Line.containsSeg_iff l hl s
theorem segment_in_plane (p : Plane) (s : Seg) : p.containsSeg s = true ↔ ∀ x, s.den x → p.den x :=
  Plane.containsSeg_iff p s
theorem segment_in_polygon (P : Polygon) (hv : P.Valid) (s : Seg) :
    P.containsSeg s = true ↔ ∀ x, s.den x → InHull P.pts x := Polygon.containsSeg_iff P hv s
theorem line_in_plane (pl : Plane) (l : Line) : pl.containsLine l = true ↔ ∀ x, l.den x → pl.den x :=
  Plane.containsLine_iff pl l

theorem Seg.den_convex (s : Seg) (x y : V3) (t : Rat) (h0 : 0 ≤ t) (h1 : t ≤ 1) (hx : s.den x) (hy : s.den y) :
    s.den (add x (smul t (sub y x))) := by
  obtain ⟨a, ha0, ha1, rfl⟩ := hx; obtain ⟨b, hb0, hb1, rfl⟩ := hy
  refine ⟨a + t * (b - a), ?_, ?_, by apply V3.ext' <;> simp only [add, smul, sub] <;> ring⟩
  · nlinarith
  · nlinarith

theorem HalfLine.den_convex (h : HalfLine) (x y : V3) (t : Rat) (h0 : 0 ≤ t) (h1 : t ≤ 1) (hx : h.den x) (hy : h.den y) :
    h.den (add x (smul t (sub y x))) := by
  obtain ⟨a, ha0, rfl⟩ := hx; obtain ⟨b, hb0, rfl⟩ := hy
  refine ⟨a + t * (b - a), ?_, by apply V3.ext' <;> simp only [add, smul, sub] <;> ring⟩
  nlinarith

theorem segment_in_segment (c : Seg) (hc : c.WF) (s : Seg) : c.containsSeg s = true ↔ ∀ x, s.den x → c.den x := by
  unfold Seg.containsSeg
  rw [Bool.and_eq_true, Seg.contains_iff c hc, Seg.contains_iff c hc]
  constructor
  · rintro ⟨ha, hb⟩ x ⟨t, h0, h1, rfl⟩; exact Seg.den_convex c _ _ t h0 h1 ha hb
  · intro h; exact ⟨h _ s.den_endpoints.1, h _ s.den_endpoints.2⟩

theorem segment_in_halfline (c : HalfLine) (hc : c.WF) (s : Seg) : c.containsSeg s = true ↔ ∀ x, s.den x → c.den x := by
  unfold HalfLine.containsSeg
  rw [Bool.and_eq_true, HalfLine.contains_iff c hc, HalfLine.contains_iff c hc]
  constructor
  · rintro ⟨ha, hb⟩ x ⟨t, h0, h1, rfl⟩; exact HalfLine.den_convex c _ _ t h0 h1 ha hb
  · intro h; exact ⟨h _ s.den_endpoints.1, h _ s.den_endpoints.2⟩

/-- partial (polyhedron): a segment with both end points in the hull is accepted -/
theorem segment_in_polyhedron_partial (B : Polyhedron) (hv : B.VertsInside) (s : Seg)
    (h : ∀ x, s.den x → InHull B.verts x) : B.containsSeg s = true := by
  unfold Polyhedron.containsSeg
  rw [Bool.and_eq_true]
  exact ⟨Polyhedron.hull_subset_contains B hv _ (h _ s.den_endpoints.1),
         Polyhedron.hull_subset_contains B hv _ (h _ s.den_endpoints.2)⟩
theorem halfline_in_line (l : Line) (hl : l.WF) (h : HalfLine) (hh : h.WF) :
    l.containsHalfLine h = true ↔ ∀ x, h.den x → l.den x := Line.containsHalfLine_iff l hl h hh
theorem halfline_in_plane (p : Plane) (h : HalfLine) (hh : h.WF) :
    p.containsHalfLine h = true ↔ ∀ x, h.den x → p.den x := Plane.containsHalfLine_iff p h hh
theorem halfline_in_halfline (c h : HalfLine) (hc : c.WF) (hh : h.WF) :
    c.containsHL h = true ↔ ∀ x, h.den x → c.den x := HalfLine.containsHL_iff c h hc hh
theorem polygon_in_plane (P : Polygon) (hv : P.Valid) (pl : Plane) (hpl : pl.WF) :
    P.inPlane pl = true ↔ ∀ x, InHull P.pts x → pl.den x := Polygon.inPlane_iff P hv pl hpl
theorem polygon_in_polyhedron_partial (B : Polyhedron) (hv : B.VertsInside) (P : Polygon)
    (h : ∀ x, InHull P.pts x → InHull B.verts x) : B.containsPolygon P = true :=
  Polyhedron.containsPolygon_of_hull B hv P h

/-! ### kernel K5 — membership in a polyhedron is membership in the hull of its vertices (both directions) -/
/-- for a Valid closed convex polyhedron (faces Valid, vertices on the inner side of every face, closed surface, an
    interior point) the face tests accept exactly the convex combinations of the vertices; faces / edges / vertices count -/
theorem point_in_polyhedron (B : Polyhedron) (hV : B.Valid) (x : V3) : B.contains x = true ↔ InHull B.verts x :=
  Polyhedron.contains_iff_hull B hV x
/-- the decidable judge implies `Valid` (evaluated on implementation-built bodies) -/
theorem polyhedron_judge_sound (B : Polyhedron) (h : B.validB = true) : B.Valid := Polyhedron.valid_of_validB B h
theorem segment_in_polyhedron (B : Polyhedron) (hV : B.Valid) (s : Seg) :
    B.containsSeg s = true ↔ ∀ x, s.den x → InHull B.verts x := by
  unfold Polyhedron.containsSeg
  rw [Bool.and_eq_true, Polyhedron.contains_iff_hull B hV, Polyhedron.contains_iff_hull B hV]
  constructor
  · rintro ⟨ha, hb⟩ x ⟨t, h0, h1, rfl⟩; exact ha.convex hb t h0 h1
  · intro h; exact ⟨h _ s.den_endpoints.1, h _ s.den_endpoints.2⟩


/-- `ConvexPolygon in ConvexPolyhedron` (all vertices pass the face tests) ⇔ the whole polygon lies in the body -/
theorem polygon_in_polyhedron (B : Polyhedron) (hV : B.Valid) (P : Polygon) :
    B.containsPolygon P = true ↔ ∀ x, InHull P.pts x → InHull B.verts x := by
  constructor
  · intro h x hx
    unfold Polyhedron.containsPolygon at h
    rw [List.all_eq_true] at h
    -- the face tests are linear: a convex combination of accepted points is accepted
    let B' : Polyhedron := { B with verts := P.pts }
    have hv' : B'.VertsInside := by
      intro f hf p hp
      have := h p hp
      unfold Polyhedron.contains at this
      rw [List.all_eq_true] at this
      simpa using this f hf
    have := Polyhedron.hull_subset_contains B' hv' x hx
    exact (Polyhedron.contains_iff_hull B hV x).mp this
  · exact polygon_in_polyhedron_partial B hV.verts_inside P

end G3D.Props.C05
