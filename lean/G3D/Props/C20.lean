import G3D.Proofs.Heap
import G3D.Extracted.Effects
/-! # C20 — queries are pure; composite objects own their data
    `Heap` is an object-graph model: the only mutable cells are coordinate triples (Points, Vectors); every other object
    is the list of cells it reaches.  Constructors gather cells of their arguments by deep copy or by alias (as coded:
    Segment, HalfLine, ConvexPolygon, ConvexPolyhedron deep-copy everything; Plane keeps its point; Line keeps Vector
    arguments) and add derived fresh cells.  The frame theorem is an induction over ARBITRARY operation histories. -/
namespace G3D.Props.C20
open G3D.Heap G3D.Extracted

/-- one step: an owning composite keeps its identity and its observation under every operation that does not mutate
    THROUGH it (new objects, constructions, writes to / moves of other roots, deep copies, queries) -/
theorem owner_unaffected_by_step (st : State) (op : Op) (hB : Bound st) (hS : Sep st) (c : Nat) (o : Ob)
    (hc : st.env[c]? = some o) (ho : o.owning = true) (ht : op.target ≠ some c) :
    (step st op).env[c]? = some o ∧ obs (step st op) o = obs st o := step_frame st op hB hS c o hc ho ht

/-- the separation invariants are preserved by every disciplined operation -/
theorem invariants_preserved (st : State) (op : Op) (hB : Bound st) (hS : Sep st)
    (hd : op.disciplined = true) (hok : op.okAlias st) : Bound (step st op) ∧ Sep (step st op) :=
  step_inv st op hB hS hd hok

/-- **histories**: after any history (of any length) of disciplined operations none of which mutates through the owning
    composite `c`, its observation is exactly what it was — whatever happened to the Points, Vectors and polygons it was
    constructed from -/
theorem owner_unaffected_by_history (c : Nat) (o : Ob) (ho : o.owning = true) (ops : List Op) (st : State)
    (hB : Bound st) (hS : Sep st) (hc : st.env[c]? = some o) (hg : GoodRun c st ops) :
    (run st ops).env[c]? = some o ∧ obs (run st ops) o = obs st o := run_frame c o ho ops st hB hS hc hg

/-- queries do not change the state at all (so the answer of a later query cannot depend on earlier queries) -/
theorem query_is_pure (st : State) : step st .query = st := rfl
theorem queries_are_pure (st : State) (n : Nat) : run st (List.replicate n .query) = st := by
  induction n with
  | zero => rfl
  | succ n ih =>
    show (List.replicate n Op.query).foldl step (step st .query) = st
    exact ih

/-! ### the write-effect sites of the CURRENT source (extracted) -/
/-- outside the mutators (`move`, `__setitem__`, constructors and their helpers) every `.move(...)` call, attribute store
    and item store in the package acts on a deep copy or on a freshly built local — with the single exception of the
    in-place elimination of `gaussian_elimination`, whose every caller passes a freshly built matrix -/
theorem query_sites_fresh : ∀ s ∈ effectSites,
    s.receiver = "deepcopy" ∨ s.receiver = "local" ∨ (s.fn = "gaussian_elimination" ∧ solveArgsFresh = true) := by decide
/-- the four owning constructors deep-copy every data argument before any other use -/
theorem owners_deep_copy : ownerCopies = [("Segment", true), ("HalfLine", true), ("ConvexPolygon", true), ("ConvexPolyhedron", true)] := by decide
theorem ctor_helpers_known : ctorHelpers = ["_check_and_sort_points", "_init_gf", "_init_pn"] := by decide

/-- non-vacuity: a Segment built from two Points is unaffected by a later write to one of them (evaluated) -/
example :
    let st := run ⟨[], []⟩ [.new 0 (0,0,0), .new 0 (1,0,0), .build 3 true [(0, true), (1, true)] (fun _ => [])]
    obs (step st (.write 0 0 (fun _ => (9,9,9)))) ⟨3, [2, 3], true⟩ = [(0,0,0), (1,0,0)] := by decide +kernel
end G3D.Props.C20
