import G3D.Extracted.Dispatch
/-! # C15 — unsupported operands raise: `intersection` (table extracted from calc/intersection.py)

One small module per extracted table, proved by evaluation of the table alone, so that a change in one dispatch chain
breaks this statement only if it changes what the statement is about. -/
namespace G3D.Props.C15
open G3D G3D.Dispatch G3D.Extracted

theorem intersection_rejects_foreign : ∀ a ∈ allTypes, ∀ b ∈ allTypes, (a ∉ geoTypes ∨ b ∉ geoTypes) →
    interCell a b = .raise "NotImplementedError" := by decide
end G3D.Props.C15
