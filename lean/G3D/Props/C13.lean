import G3D.Proofs.Xf
/-! # C13 — queries commute with lattice isometries and uniform scaling  (partial; extended by G3D/Proofs/Xf2 when present)
    `SP` = the 48 signed axis permutations, `Xf` = signed permutation ∘ scaling by k > 0 ∘ translation. -/
namespace G3D.Props.C13
open G3D V3

/-- dot and cross products under a signed permutation (cross picks up the determinant: normals are pseudo-vectors) -/
theorem dot_cross_symmetry (s : SP) (u v : V3) :
    dot (s.apply u) (s.apply v) = dot u v ∧ cross (s.apply u) (s.apply v) = smul s.det (s.apply (cross u v)) :=
  ⟨SP.dot_apply s u v, SP.cross_apply s u v⟩

/-- membership in any flat commutes with the transformation -/
theorem membership_equivariant (T : Xf) (hk : 0 < T.k) (g : Geo) (x : V3) : (T.geo g).den (T.pt x) ↔ g.den x :=
  Xf.den_geo T hk g x

/-- well-formedness is preserved -/
theorem wf_preserved (T : Xf) (hk : 0 < T.k) (g : Geo) (hg : g.WF) : (T.geo g).WF := Xf.geo_WF T hk g hg

/-- the transformation is a bijection of space (so "maps the result by the same transformation" is meaningful) -/
theorem transformation_bijective (T : Xf) (hk : 0 < T.k) :
    (∀ x y, T.pt x = T.pt y → x = y) ∧ (∀ y, ∃ x, T.pt x = y) :=
  ⟨fun _ _ h => Xf.pt_injective T hk h, fun y => Xf.pt_surjective T hk y⟩
/-- **intersection is equivariant** (flats): the intersection of the transformed operands denotes exactly the
    transform of the intersection of the operands — for all 25 flat type pairs, all 48 symmetries, every translation and
    every scaling k > 0 -/
theorem intersection_equivariant_flat (T : Xf) (hk : 0 < T.k) (a b : Geo) (ha : a.WF) (hb : b.WF) :
    ∃ o o', interFlat a b = .ok o ∧ interFlat (T.geo a) (T.geo b) = .ok o' ∧
      ∀ x, denOpt o' (T.pt x) ↔ denOpt o x := interFlat_xf T hk a b ha hb
end G3D.Props.C13
