import G3D.Proofs.Xf
import G3D.Proofs.Xf2
import G3D.Proofs.XfAll
import G3D.Props.C04
import G3D.Proofs.XCBody
import G3D.Proofs.XCFlat
/-! # C13 — queries commute with lattice isometries and uniform scaling  (full; polyhedron operands under `ExactHyp` of the transformed body)
    `SP` = the 48 signed axis permutations, `Xf` = signed permutation ∘ scaling by k > 0 ∘ translation. -/
namespace G3D.Props.C13
open G3D V3

/-- dot and cross products under a signed permutation (cross picks up the determinant: normals are pseudo-vectors) -/
theorem dot_cross_symmetry (s : SP) (u v : V3) :
    dot (s.apply u) (s.apply v) = dot u v ∧ cross (s.apply u) (s.apply v) = smul s.det (s.apply (cross u v)) :=
  ⟨SP.dot_apply s u v, SP.cross_apply s u v⟩

/-- membership in any flat commutes with the transformation -/
theorem membership_equivariant (T : Xf) (hk : 0 < T.k) (g : Geo) (x : V3) : (T.geo g).den (T.pt x) ↔ g.den x :=
  Xf.den_geo T hk g x

/-- well-formedness is preserved -/
theorem wf_preserved (T : Xf) (hk : 0 < T.k) (g : Geo) (hg : g.WF) : (T.geo g).WF := Xf.geo_WF T hk g hg

/-- the transformation is a bijection of space (so "maps the result by the same transformation" is meaningful) -/
theorem transformation_bijective (T : Xf) (hk : 0 < T.k) :
    (∀ x y, T.pt x = T.pt y → x = y) ∧ (∀ y, ∃ x, T.pt x = y) :=
  ⟨fun _ _ h => Xf.pt_injective T hk h, fun y => Xf.pt_surjective T hk y⟩
/-- **intersection is equivariant** (flats): the intersection of the transformed operands denotes exactly the
    transform of the intersection of the operands — for all 25 flat type pairs, all 48 symmetries, every translation and
    every scaling k > 0 -/
theorem intersection_equivariant_flat (T : Xf) (hk : 0 < T.k) (a b : Geo) (ha : a.WF) (hb : b.WF) :
    ∃ o o', interFlat a b = .ok o ∧ interFlat (T.geo a) (T.geo b) = .ok o' ∧
      ∀ x, denOpt o' (T.pt x) ↔ denOpt o x := interFlat_xf T hk a b ha hb
/-! ### leaves angle, parallel, orthogonal and equality unchanged -/
theorem angle_parallel_orthogonal_invariant (T : Xf) (hk : 0 < T.k) (a b : AObj) :
    angleRep (T.aobj a) (T.aobj b) = angleRep a b ∧ parallelG (T.aobj a) (T.aobj b) = parallelG a b ∧
    orthogonalG (T.aobj a) (T.aobj b) = orthogonalG a b :=
  ⟨T.angleRep_aobj hk a b, T.parallelG_aobj hk a b, T.orthogonalG_aobj hk a b⟩

theorem equality_invariant (T : Xf) (hk : 0 < T.k) (a b : Geo) : geoEqv (T.geo a) (T.geo b) = geoEqv a b :=
  T.geoEqv_geo hk a b

/-- the membership TEST itself (Bool) commutes, not only the denoted sets -/
theorem membership_test_invariant (T : Xf) (hk : 0 < T.k) (g : Geo) (hg : g.WF) (x : V3) :
    geoContains (T.geo g) (T.pt x) = geoContains g x := T.geoContains_geo hk g hg x

/-! ### multiplies distance and length by k, area by k², volume by k³ (squared / numerator forms) -/
theorem distance_scales (T : Xf) (hk : 0 < T.k) (a b : Geo) (ha : a.WF) (hb : b.WF) :
    distSqGeo (T.geo a) (T.geo b) = (distSqGeo a b).map (Except.map (T.k^2 * ·)) := T.distSqGeo_geo hk a b ha hb

theorem length_scales (T : Xf) (s : Seg) (P : Polygon) :
    (T.seg s).lenSq = T.k^2 * s.lenSq ∧ (T.polygon P).edgeLenSqs = P.edgeLenSqs.map (T.k^2 * ·) :=
  ⟨T.seg_lenSq s, T.polygon_edgeLenSqs P⟩

/-- polygon (same vertex order, pseudo-vector normal): stays Valid, membership test commutes, area numerator × k² with
    the same normal length, i.e. area × k² -/
theorem polygon_symmetry (T : Xf) (hk : 0 < T.k) (P : Polygon) (hv : P.Valid) (x : V3) :
    (T.polygon P).Valid ∧ (T.polygon P).contains (T.pt x) = P.contains x ∧
    ((T.polygon P).areaNum = T.k^2 * P.areaNum ∧ normSq (T.polygon P).plane.n = normSq P.plane.n) ∧
    (InHull (T.pts P.pts) (T.pt x) ↔ InHull P.pts x) :=
  ⟨T.polygon_valid hk P hv, T.polygon_contains hk P x, T.polygon_areaNum hk P, T.InHull_pts hk P.pts x⟩

/-- polyhedron with outward normals (vertex cycles reversed under reflections): membership test commutes, volume × k³ -/
theorem polyhedron_symmetry (T : Xf) (hk : 0 < T.k) (B : Polyhedron) (hv : ∀ pa ∈ B.pyramids, pa.1.Valid) (x : V3) :
    (T.body B).contains (T.pt x) = B.contains x ∧ (T.body B).volume = T.k^3 * B.volume :=
  ⟨T.body_contains hk B x, T.body_volume hk B hv⟩

/-- the surface-integral volume of ANY closed surface scales by k³ (absolute value; det = ±1) -/
theorem closed_surface_volume_scales (T : Xf) (hk : 0 < T.k) (fs : List (List V3)) (hc : ClosedSurface fs) (q q' : V3) :
    absQ (vol6 (T.surface fs) q') = T.k^3 * absQ (vol6 fs q) := T.abs_vol6_closed hk fs hc q q'

/-! ### intersection with composite operands (from exactness: kernels K0–K3, K6) -/
/-- flats and Valid polygons, all 36 ordered type pairs: `intersection(T a, T b)` is the transform of `intersection(a, b)` -/
theorem intersection_equivariant_flat_polygon (T : Xf) (hk : 0 < T.k) (a b : Obj) (ha : OpOK a) (hb : OpOK b)
    (hna : NotBothBodies a a) (hnb : NotBothBodies b b) :
    ∃ o o', inter a b = .ok o ∧ inter (T.obj a) (T.obj b) = .ok o' ∧ ResOK o ∧ ResOK o' ∧
      ∀ x, denOptB o' (T.pt x) ↔ denOptB o x := by
  rw [Props.C04.inter_eq_ref, Props.C04.inter_eq_ref]; exact interRef_xf_flat_polygon T hk a b ha hb hna hnb

/-- … and with one polyhedron operand, provided the transformed body is again admissible (`ExactHyp`, decidable) -/
theorem intersection_equivariant_admissible (T : Xf) (hk : 0 < T.k) (a b : Obj) (ha : OpOK a) (hb : OpOK b)
    (ha' : OpOK (T.obj a)) (hb' : OpOK (T.obj b)) (hnb : NotBothBodies a b) :
    ∃ o o', inter a b = .ok o ∧ inter (T.obj a) (T.obj b) = .ok o' ∧ ResOK o ∧ ResOK o' ∧
      ∀ x, denOptB o' (T.pt x) ↔ denOptB o x := by
  rw [Props.C04.inter_eq_ref, Props.C04.inter_eq_ref]; exact interRef_xf T hk a b ha hb ha' hb' hnb

/-! ### the CONSTRUCTORS commute with the transformations -/
/-- **ConvexPolygon**: for every symmetry / translation / scaling k > 0, every input list and either `reverse` flag, the
    constructor on the transformed points returns EXACTLY the transformed record (same vertex order; normal × det·k²), and
    raises the same exception when it raises — no hypothesis on the input at all -/
theorem polygon_constructor_commutes (T : Xf) (hk : 0 < T.k) (i : List V3) (rev : Bool) :
    Polygon.mk? (T.pts i) rev = (Polygon.mk? i rev).map (XC.img T) := XC.mk?_xf T hk i rev

/-- … and what that record means: Valid, same membership, same hull, area × k², edge lengths × k -/
theorem polygon_constructor_commutes_queries (T : Xf) (hk : 0 < T.k) (i : List V3) (rev : Bool) (P : Polygon)
    (hx : StrictConvexPos (dedupV i)) (h : Polygon.mk? i rev = .ok P) :
    ∃ P', Polygon.mk? (T.pts i) rev = .ok P' ∧ P.Valid ∧ P'.Valid ∧
      P'.pts = T.pts P.pts ∧ (∀ p, p ∈ P'.pts ↔ p ∈ T.pts P.pts) ∧
      P'.center = T.pt P.center ∧ P'.plane.p = T.pt P.plane.p ∧
      P'.plane.n = smul (T.k^2) (T.pnrm P.plane.n) ∧ P'.same (T.polygon P) = true ∧
      (∀ x, InHull P'.pts (T.pt x) ↔ InHull P.pts x) ∧ (∀ x, P'.contains (T.pt x) = P.contains x) ∧
      P'.areaSq = T.k^4 * P.areaSq ∧ P'.edgeLenSqs = P.edgeLenSqs.map (T.k^2 * ·) :=
  XC.polygon_ctor_xf T hk i rev P hx h

/-- **ConvexPolyhedron** (relative to a Valid reference body whose faces are the input, in any order / orientation): the
    constructor on transformed faces succeeds iff it does on the original ones (Euler's number is invariant), and the stored
    bodies correspond: membership, hull, vertex set, centre, counts, edge lengths × k, face areas × k², volume × k³, and
    equality with the transformed body -/
theorem polyhedron_constructor_commutes (T : Xf) (hk : 0 < T.k) (B0 : Polyhedron) (hV : B0.Valid)
    (F input input' : List Polygon) (hperm : List.Perm F B0.faces) (hrel : List.Forall₂ Reoriented F input)
    (himg : List.Forall₂ (XC.ImgOf T) input input') :
    ((∃ B', Polyhedron.mk? input' = .ok B') ↔ (∃ B, Polyhedron.mk? input = .ok B)) ∧
    ∀ B B', Polyhedron.mk? input = .ok B → Polyhedron.mk? input' = .ok B' →
      B.Valid ∧ B'.Valid ∧
      (∀ x, B'.contains (T.pt x) = B.contains x) ∧
      (∀ x, InHull B'.verts (T.pt x) ↔ InHull B.verts x) ∧
      (∀ x, B'.contains (T.pt x) = true ↔ InHull B.verts x) ∧
      List.Perm B'.verts (T.pts B.verts) ∧ B'.center = T.pt B.center ∧
      B'.faces.length = B.faces.length ∧ B'.edges.length = B.edges.length ∧
      List.Perm B'.edgeLenSqs (B.edgeLenSqs.map (T.k^2 * ·)) ∧
      ((∀ g ∈ input, g.CentreInside) → (∀ g' ∈ input', g'.CentreInside) →
        B'.volume = T.k^3 * B.volume ∧
        List.Perm (B'.faces.map Polygon.areaSq) ((B.faces.map Polygon.areaSq).map (T.k^4 * ·))) ∧
      (B0.FaceLocal → B'.sameB (T.body B) = true) :=
  XC.polyhedron_ctor_xf T hk B0 hV F input input' hperm hrel himg

/-- the transformed reference body is again a Valid reference body -/
theorem body_symmetry_valid (T : Xf) (hk : 0 < T.k) (B : Polyhedron) (hV : B.Valid) : (T.body B).Valid :=
  XC.body_valid T hk B hV

/-- flat constructors: Line / Segment / HalfLine / Plane(point, normal) commute exactly (same exception when they raise) -/
theorem flat_constructors_commute (T : Xf) (hk : 0 < T.k) (p q v : V3) :
    Line.mk? (T.pt p) (T.dir v) = (Line.mk? p v).map T.line ∧
    Seg.mk? (T.pt p) (T.pt q) = (Seg.mk? p q).map T.seg ∧
    HalfLine.ofVec? (T.pt p) (T.dir v) = (HalfLine.ofVec? p v).map T.halfline :=
  ⟨XC.line_mk? T hk p v, XC.seg_mk? T hk p q, XC.halfline_ofVec? T hk p v⟩

end G3D.Props.C13
