import G3D.Proofs.Xf
import G3D.Proofs.Xf2
import G3D.Proofs.XfAll
import G3D.Props.C04
/-! # C13 — queries commute with lattice isometries and uniform scaling  (partial only for intersection results of polygons / polyhedra)
    `SP` = the 48 signed axis permutations, `Xf` = signed permutation ∘ scaling by k > 0 ∘ translation. -/
namespace G3D.Props.C13
open G3D V3

/-- dot and cross products under a signed permutation (cross picks up the determinant: normals are pseudo-vectors) -/
theorem dot_cross_symmetry (s : SP) (u v : V3) :
    dot (s.apply u) (s.apply v) = dot u v ∧ cross (s.apply u) (s.apply v) = smul s.det (s.apply (cross u v)) :=
  ⟨SP.dot_apply s u v, SP.cross_apply s u v⟩

/-- membership in any flat commutes with the transformation -/
theorem membership_equivariant (T : Xf) (hk : 0 < T.k) (g : Geo) (x : V3) : (T.geo g).den (T.pt x) ↔ g.den x :=
  Xf.den_geo T hk g x

/-- well-formedness is preserved -/
theorem wf_preserved (T : Xf) (hk : 0 < T.k) (g : Geo) (hg : g.WF) : (T.geo g).WF := Xf.geo_WF T hk g hg

/-- the transformation is a bijection of space (so "maps the result by the same transformation" is meaningful) -/
theorem transformation_bijective (T : Xf) (hk : 0 < T.k) :
    (∀ x y, T.pt x = T.pt y → x = y) ∧ (∀ y, ∃ x, T.pt x = y) :=
  ⟨fun _ _ h => Xf.pt_injective T hk h, fun y => Xf.pt_surjective T hk y⟩
/-- **intersection is equivariant** (flats): the intersection of the transformed operands denotes exactly the
    transform of the intersection of the operands — for all 25 flat type pairs, all 48 symmetries, every translation and
    every scaling k > 0 -/
theorem intersection_equivariant_flat (T : Xf) (hk : 0 < T.k) (a b : Geo) (ha : a.WF) (hb : b.WF) :
    ∃ o o', interFlat a b = .ok o ∧ interFlat (T.geo a) (T.geo b) = .ok o' ∧
      ∀ x, denOpt o' (T.pt x) ↔ denOpt o x := interFlat_xf T hk a b ha hb
/-! ### leaves angle, parallel, orthogonal and equality unchanged -/
theorem angle_parallel_orthogonal_invariant (T : Xf) (hk : 0 < T.k) (a b : AObj) :
    angleRep (T.aobj a) (T.aobj b) = angleRep a b ∧ parallelG (T.aobj a) (T.aobj b) = parallelG a b ∧
    orthogonalG (T.aobj a) (T.aobj b) = orthogonalG a b :=
  ⟨T.angleRep_aobj hk a b, T.parallelG_aobj hk a b, T.orthogonalG_aobj hk a b⟩

theorem equality_invariant (T : Xf) (hk : 0 < T.k) (a b : Geo) : geoEqv (T.geo a) (T.geo b) = geoEqv a b :=
  T.geoEqv_geo hk a b

/-- the membership TEST itself (Bool) commutes, not only the denoted sets -/
theorem membership_test_invariant (T : Xf) (hk : 0 < T.k) (g : Geo) (hg : g.WF) (x : V3) :
    geoContains (T.geo g) (T.pt x) = geoContains g x := T.geoContains_geo hk g hg x

/-! ### multiplies distance and length by k, area by k², volume by k³ (squared / numerator forms) -/
theorem distance_scales (T : Xf) (hk : 0 < T.k) (a b : Geo) (ha : a.WF) (hb : b.WF) :
    distSqGeo (T.geo a) (T.geo b) = (distSqGeo a b).map (Except.map (T.k^2 * ·)) := T.distSqGeo_geo hk a b ha hb

theorem length_scales (T : Xf) (s : Seg) (P : Polygon) :
    (T.seg s).lenSq = T.k^2 * s.lenSq ∧ (T.polygon P).edgeLenSqs = P.edgeLenSqs.map (T.k^2 * ·) :=
  ⟨T.seg_lenSq s, T.polygon_edgeLenSqs P⟩

/-- polygon (same vertex order, pseudo-vector normal): stays Valid, membership test commutes, area numerator × k² with
    the same normal length, i.e. area × k² -/
theorem polygon_symmetry (T : Xf) (hk : 0 < T.k) (P : Polygon) (hv : P.Valid) (x : V3) :
    (T.polygon P).Valid ∧ (T.polygon P).contains (T.pt x) = P.contains x ∧
    ((T.polygon P).areaNum = T.k^2 * P.areaNum ∧ normSq (T.polygon P).plane.n = normSq P.plane.n) ∧
    (InHull (T.pts P.pts) (T.pt x) ↔ InHull P.pts x) :=
  ⟨T.polygon_valid hk P hv, T.polygon_contains hk P x, T.polygon_areaNum hk P, T.InHull_pts hk P.pts x⟩

/-- polyhedron with outward normals (vertex cycles reversed under reflections): membership test commutes, volume × k³ -/
theorem polyhedron_symmetry (T : Xf) (hk : 0 < T.k) (B : Polyhedron) (hv : ∀ pa ∈ B.pyramids, pa.1.Valid) (x : V3) :
    (T.body B).contains (T.pt x) = B.contains x ∧ (T.body B).volume = T.k^3 * B.volume :=
  ⟨T.body_contains hk B x, T.body_volume hk B hv⟩

/-- the surface-integral volume of ANY closed surface scales by k³ (absolute value; det = ±1) -/
theorem closed_surface_volume_scales (T : Xf) (hk : 0 < T.k) (fs : List (List V3)) (hc : ClosedSurface fs) (q q' : V3) :
    absQ (vol6 (T.surface fs) q') = T.k^3 * absQ (vol6 fs q) := T.abs_vol6_closed hk fs hc q q'

/-! ### intersection with composite operands (from exactness: kernels K0–K3, K6) -/
/-- flats and Valid polygons, all 36 ordered type pairs: `intersection(T a, T b)` is the transform of `intersection(a, b)` -/
theorem intersection_equivariant_flat_polygon (T : Xf) (hk : 0 < T.k) (a b : Obj) (ha : OpOK a) (hb : OpOK b)
    (hna : NotBothBodies a a) (hnb : NotBothBodies b b) :
    ∃ o o', inter a b = .ok o ∧ inter (T.obj a) (T.obj b) = .ok o' ∧ ResOK o ∧ ResOK o' ∧
      ∀ x, denOptB o' (T.pt x) ↔ denOptB o x := by
  rw [Props.C04.inter_eq_ref, Props.C04.inter_eq_ref]; exact interRef_xf_flat_polygon T hk a b ha hb hna hnb

/-- … and with one polyhedron operand, provided the transformed body is again admissible (`ExactHyp`, decidable) -/
theorem intersection_equivariant_admissible (T : Xf) (hk : 0 < T.k) (a b : Obj) (ha : OpOK a) (hb : OpOK b)
    (ha' : OpOK (T.obj a)) (hb' : OpOK (T.obj b)) (hnb : NotBothBodies a b) :
    ∃ o o', inter a b = .ok o ∧ inter (T.obj a) (T.obj b) = .ok o' ∧ ResOK o ∧ ResOK o' ∧
      ∀ x, denOptB o' (T.pt x) ↔ denOptB o x := by
  rw [Props.C04.inter_eq_ref, Props.C04.inter_eq_ref]; exact interRef_xf T hk a b ha hb ha' hb' hnb
end G3D.Props.C13
