import G3D.Proofs.Typed
/-! # C04 (continued) — documented result types, for ALL operands of all 49 type pairs -/
namespace G3D.Props.C04
open G3D G3D.Dispatch G3D.Extracted

/-- whenever `intersection(a, b)` returns, the type of the result is one of those the documentation table
    (extracted from docs/source/example_operation.rst) lists for the operand types -/
theorem result_type_documented (a b : Obj) (o : Option Obj) (h : inter a b = .ok o) :
    ∃ l, docFor (tyOf a) (tyOf b) = some l ∧ resTyOf o ∈ l := inter_documented a b o h

theorem never_undocumented (a b : Obj) (l : List ResTy) (hl : docFor (tyOf a) (tyOf b) = some l)
    (o : Option Obj) (ho : resTyOf o ∉ l) : inter a b ≠ .ok o := inter_never_undocumented a b l hl o ho
end G3D.Props.C04
