import G3D.Proofs.Typed
import G3D.Proofs.ExactAll
import G3D.Proofs.AlgebraEuler
import G3D.Proofs.EulerAllProof
/-! # C04 (continued) — documented result types, for ALL operands of all 49 type pairs -/
namespace G3D.Props.C04
open G3D G3D.Dispatch G3D.Extracted

/-- whenever `intersection(a, b)` returns, the type of the result is one of those the documentation table
    (extracted from docs/source/example_operation.rst) lists for the operand types -/
theorem result_type_documented (a b : Obj) (o : Option Obj) (h : inter a b = .ok o) :
    ∃ l, docFor (tyOf a) (tyOf b) = some l ∧ resTyOf o ∈ l := inter_documented a b o h

theorem never_undocumented (a b : Obj) (l : List ResTy) (hl : docFor (tyOf a) (tyOf b) = some l)
    (o : Option Obj) (ho : resTyOf o ∉ l) : inter a b ≠ .ok o := inter_never_undocumented a b l hl o ho

/-! ### no internal error for composite operands (kernels K0–K3, K6) -/
/-- **never "Bug detected"**: for well-formed flats, Valid polygons and polyhedra meeting `ExactHyp` — every ordered type pair
    except polyhedron × polyhedron — `intersection` returns (no exception of any kind), and what it returns is None, a
    well-formed flat or a Valid polygon -/
theorem never_raises_admissible (a b : Obj) (ha : OpOK a) (hb : OpOK b) (hnb : NotBothBodies a b) :
    ∃ o, inter a b = .ok o ∧ ResOK o := by
  obtain ⟨o, ho, hw, _⟩ := interRef_exactOK a b ha hb hnb
  exact ⟨o, by rw [inter_eq_ref]; exact ho, hw⟩

/-- polyhedron × polyhedron: the ONLY exception `intersection` can raise for two admissible polyhedra is the `ValueError` of
    the Euler check in `ConvexPolyhedron(collected faces)`; with Euler's formula, all 49 pairs never raise -/
theorem never_raises_all_of_euler (hE : EulerAll) (a b : Obj) (ha : OpOK a) (hb : OpOK b) :
    ∃ o, inter a b = .ok o ∧ ResOK' o := by
  obtain ⟨o, ho, hw, _⟩ := interRef_exact_all hE a b ha hb
  exact ⟨o, by rw [inter_eq_ref]; exact ho, hw⟩
theorem polyhedron_polyhedron_raises_only_euler (A B : Polyhedron) (hA : A.ExactHyp) (hB : B.ExactHyp) (e : BErr)
    (h : inter (.polyhedron A) (.polyhedron B) = .error e) :
    e = .ctor .value ∧ ∃ p, K4.Parts2 A B p ∧ 2 ≤ p.gons.length ∧ K4.eulerOf p.gons ≠ 2 := by
  rw [inter_eq_ref] at h
  change interPolyhedronPolyhedron A B = .error e at h
  obtain ⟨p, hp, hc⟩ := interPolyhedronPolyhedron_ok_or_euler A B hA hB
  rcases hc with ⟨_, o, ho, _⟩ | ⟨_, _, R, _, ho, _⟩ | ⟨h2, hne, _, he⟩
  · rw [ho] at h; cases h
  · rw [ho] at h; cases h
  · rw [he] at h; cases h; exact ⟨rfl, p, hp, h2, hne⟩


/-- **`intersection` never raises**: all 49 ordered type pairs of admissible operands (well-formed flats, Valid polygons,
    polyhedra meeting `ExactHyp`) — no "Bug detected", no constructor error — and the result is None or admissible again -/
theorem never_raises (a b : Obj) (ha : OpOK a) (hb : OpOK b) : ∃ o, inter a b = .ok o ∧ ResOK' o :=
  never_raises_all_of_euler eulerAll a b ha hb

end G3D.Props.C04
