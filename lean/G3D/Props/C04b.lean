import G3D.Proofs.Typed
import G3D.Proofs.ExactAll
/-! # C04 (continued) — documented result types, for ALL operands of all 49 type pairs -/
namespace G3D.Props.C04
open G3D G3D.Dispatch G3D.Extracted

/-- whenever `intersection(a, b)` returns, the type of the result is one of those the documentation table
    (extracted from docs/source/example_operation.rst) lists for the operand types -/
theorem result_type_documented (a b : Obj) (o : Option Obj) (h : inter a b = .ok o) :
    ∃ l, docFor (tyOf a) (tyOf b) = some l ∧ resTyOf o ∈ l := inter_documented a b o h

theorem never_undocumented (a b : Obj) (l : List ResTy) (hl : docFor (tyOf a) (tyOf b) = some l)
    (o : Option Obj) (ho : resTyOf o ∉ l) : inter a b ≠ .ok o := inter_never_undocumented a b l hl o ho

/-! ### no internal error for composite operands (kernels K0–K3, K6) -/
/-- **never "Bug detected"**: for well-formed flats, Valid polygons and polyhedra meeting `ExactHyp` — every ordered type pair
    except polyhedron × polyhedron — `intersection` returns (no exception of any kind), and what it returns is None, a
    well-formed flat or a Valid polygon -/
theorem never_raises_admissible (a b : Obj) (ha : OpOK a) (hb : OpOK b) (hnb : NotBothBodies a b) :
    ∃ o, inter a b = .ok o ∧ ResOK o := by
  obtain ⟨o, ho, hw, _⟩ := interRef_exactOK a b ha hb hnb
  exact ⟨o, by rw [inter_eq_ref]; exact ho, hw⟩
end G3D.Props.C04
