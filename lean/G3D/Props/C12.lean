import G3D.Proofs.Algebra
import G3D.Props.C01
import G3D.Props.C02
import G3D.Proofs.AlgebraB
import G3D.Proofs.BodySoundInter
import G3D.Proofs.AlgebraAll
import G3D.Proofs.K4f
import G3D.Proofs.AlgebraEuler
import G3D.Proofs.EulerAllProof
/-! # C12 — intersection obeys the algebra of set intersection  (full)
    Flats: everything follows from C01.  All seven types: results are admissible operands again (`Proofs/ExactAll.lean`, K4), so
    associativity, intersection(a,a) = a and a ⊆ b ⇒ intersection = a hold for all 343 type triples (`assoc_all_types`, …);
    Euler's polyhedron formula, on which the polyhedron × polyhedron case rests, is proved (`eulerAll`). -/
namespace G3D.Props.C12
open G3D V3

/-- `intersection(intersection(a,b),c)` and `intersection(a,intersection(b,c))` denote the same set, `None`
    absorbing — all 125 triples of flat types, all rational operands -/
theorem assoc_flat (a b c : Geo) (ha : a.WF) (hb : b.WF) (hc : c.WF) :
    ∃ ab bc l r, interFlat a b = .ok ab ∧ interFlat b c = .ok bc ∧
      interOptL ab c = .ok l ∧ interOptR a bc = .ok r ∧ ∀ x, denOpt l x ↔ denOpt r x :=
  interFlat_assoc a b c ha hb hc

/-- `intersection(a, a)` denotes `a` -/
theorem self_flat (a : Geo) (ha : a.WF) : ∃ g, interFlat a a = .ok (some g) ∧ g.WF ∧ ∀ x, g.den x ↔ a.den x :=
  interFlat_self a ha

/-- `a ⊆ b` ⇒ `intersection(a, b)` denotes `a` -/
theorem subset_flat (a b : Geo) (ha : a.WF) (hb : b.WF) (hsub : ∀ x, a.den x → b.den x) (hne : ∃ x, a.den x) :
    ∃ g, interFlat a b = .ok (some g) ∧ ∀ x, g.den x ↔ a.den x := interFlat_of_subset a b ha hb hsub hne

/-- every point (in particular every vertex / end point) of `intersection(a, b)` lies in both operands: flats -/
theorem result_in_both_flat (a b : Geo) (ha : a.WF) (hb : b.WF) (g : Geo)
    (h : interFlat a b = .ok (some g)) : ∀ x, g.den x → a.den x ∧ b.den x := by
  obtain ⟨o, ho, _, hd⟩ := interFlat_exact a b ha hb
  rw [h] at ho; cases ho
  intro x hx; exact (hd x).mp hx

/-- … and flat × Valid polygon, both argument orders -/
theorem result_in_both_flat_polygon (f : Geo) (hf : f.WF) (P : Polygon) (hv : P.Valid) (r : Obj) :
    (inter (.flat f) (.polygon P) = .ok (some r) → ∀ x, ObjDen r x → f.den x ∧ InHull P.pts x) ∧
    (inter (.polygon P) (.flat f) = .ok (some r) → ∀ x, ObjDen r x → f.den x ∧ InHull P.pts x) := by
  obtain ⟨⟨o1, h1, d1⟩, ⟨o2, h2, d2⟩⟩ := Props.C02.inter_flat_polygon_exact f hf P hv
  constructor
  · intro h x hx; rw [h] at h1; cases h1; exact (d1 x).mp hx
  · intro h x hx; rw [h] at h2; cases h2; exact (d2 x).mp hx

/-- `None` absorbs -/
theorem none_absorbs (b : Option Obj) : interOpt none b = .ok none ∧ interOpt b none = .ok none :=
  Props.C04.interOpt_none b
/-- associativity stated about the table-driven `inter` / `interOpt`: both nestings return flats denoting
    exactly a ∩ b ∩ c -/
theorem assoc_flat_inter (a b c : Geo) (ha : a.WF) (hb : b.WF) (hc : c.WF) :
    ∃ ab bc l r : Option Geo,
      inter (.flat a) (.flat b) = .ok (ab.map Obj.flat) ∧ inter (.flat b) (.flat c) = .ok (bc.map Obj.flat) ∧
      interOpt (ab.map Obj.flat) (some (.flat c)) = .ok (l.map Obj.flat) ∧
      interOpt (some (.flat a)) (bc.map Obj.flat) = .ok (r.map Obj.flat) ∧
      (∀ x, denOpt l x ↔ (a.den x ∧ b.den x ∧ c.den x)) ∧ (∀ x, denOpt r x ↔ (a.den x ∧ b.den x ∧ c.den x)) :=
  interFlat_assoc_inter_den a b c ha hb hc

/-- a mixed chain: (a ∩ b) ∩ P for flats a, b and a Valid polygon P denotes exactly the triple intersection -/
theorem chain_flat_flat_polygon (a b : Geo) (ha : a.WF) (hb : b.WF) (P : Polygon) (hv : P.Valid) :
    ∃ ab l, inter (.flat a) (.flat b) = .ok ab ∧ interOpt ab (some (.polygon P)) = .ok l ∧
      ∀ x, denOptB l x ↔ (a.den x ∧ b.den x ∧ InHull P.pts x) := inter_flat_flat_polygon_left a b ha hb P hv

/-! ### result ⊆ a ∩ b for ALL 49 type pairs (polyhedra denoted by their membership test) -/
/-- every vertex / end point of `intersection(a, b)` lies in both operands, for well-formed flats, Valid polygons and
    Good polyhedra (faces Valid, vertices inside every face half-space, centres in their planes) -/
theorem result_vertices_in_both (a b : Obj) (ha : OpWF a) (hb : OpWF b) (r : Obj) (h : inter a b = .ok (some r)) :
    ∀ v ∈ resVerts (some r), OpDen a v ∧ OpDen b v := inter_result_vertices_in_both a b ha hb r h
/-- … and so does every point of the result (hull of the result's vertices) -/
theorem result_subset_both (a b : Obj) (ha : OpWF a) (hb : OpWF b) (o : Option Obj) (h : inter a b = .ok o) :
    ∀ x, denOptB o x → OpDen a x ∧ OpDen b x := inter_result_subset a b ha hb o h


/-! ### the laws for every admissible operand — flats, Valid polygons, polyhedra meeting `ExactHyp` — as long as no two
    polyhedra meet directly (kernels K0–K3, K6; polyhedron × polyhedron needs K4) -/
/-- `intersection(a, b)` returns None or an admissible operand denoting exactly a ∩ b -/
theorem inter_exact_admissible (a b : Obj) (ha : OpOK a) (hb : OpOK b) (hnb : NotBothBodies a b) :
    ExactOK (inter a b) (ObjDen a) (ObjDen b) := by
  rw [Props.C04.inter_eq_ref]; exact interRef_exactOK a b ha hb hnb

/-- **associativity, 7 × 7 × 7 type triples minus those with two polyhedra meeting directly**: both nestings return without
    error (None absorbing) an admissible object denoting exactly a ∩ b ∩ c -/
theorem assoc_all (a b c : Obj) (ha : OpOK a) (hb : OpOK b) (hc : OpOK c)
    (hab : NotBothBodies a b) (hbc : NotBothBodies b c) :
    ∃ ab bc l r, inter a b = .ok ab ∧ inter b c = .ok bc ∧
      interOpt ab (some c) = .ok l ∧ interOpt (some a) bc = .ok r ∧ ResOK l ∧ ResOK r ∧
      (∀ x, denOptB l x ↔ (ObjDen a x ∧ ObjDen b x ∧ ObjDen c x)) ∧
      (∀ x, denOptB r x ↔ (ObjDen a x ∧ ObjDen b x ∧ ObjDen c x)) := by
  obtain ⟨ab, bc, l, r, h1, h2, h3, h4, rest⟩ := interRef_assoc a b c ha hb hc hab hbc
  refine ⟨ab, bc, l, r, by rw [Props.C04.inter_eq_ref]; exact h1, by rw [Props.C04.inter_eq_ref]; exact h2, ?_, ?_, rest⟩
  · cases ab with
    | none => simp only [interOptLB] at h3; cases h3; exact (Props.C04.interOpt_none _).1
    | some g => simp only [interOpt]; rw [Props.C04.inter_eq_ref]; exact h3
  · cases bc with
    | none => simp only [interOptRB] at h4; cases h4; exact (Props.C04.interOpt_none _).2
    | some g => simp only [interOpt]; rw [Props.C04.inter_eq_ref]; exact h4

/-- `intersection(a, a)` denotes `a`: flats and polygons -/
theorem self_all (a : Obj) (ha : OpOK a) (hnb : NotBothBodies a a) :
    ∃ g, inter a a = .ok (some g) ∧ OpOK g ∧ ∀ x, ObjDen g x ↔ ObjDen a x := by
  rw [Props.C04.inter_eq_ref]; exact interRef_self a ha hnb

/-- `a ⊆ b`, a non-empty ⇒ `intersection(a, b)` and `intersection(b, a)` denote `a`: e.g. a polygon inside a polyhedron,
    a segment inside a polygon, a polygon inside a plane -/
theorem subset_all (a b : Obj) (ha : OpOK a) (hb : OpOK b) (hnb : NotBothBodies a b) (hnb' : NotBothBodies b a)
    (hsub : ∀ x, ObjDen a x → ObjDen b x) (hne : ∃ x, ObjDen a x) :
    (∃ g, inter a b = .ok (some g) ∧ ∀ x, ObjDen g x ↔ ObjDen a x) ∧
    (∃ g, inter b a = .ok (some g) ∧ ∀ x, ObjDen g x ↔ ObjDen a x) := by
  rw [Props.C04.inter_eq_ref, Props.C04.inter_eq_ref]; exact interRef_of_subset a b ha hb hnb hnb' hsub hne

/-- the result lies in both operands AND nothing of a ∩ b is missed -/
theorem result_is_intersection (a b : Obj) (ha : OpOK a) (hb : OpOK b) (hnb : NotBothBodies a b) (o : Option Obj)
    (h : inter a b = .ok o) : ∀ x, denOptB o x ↔ (ObjDen a x ∧ ObjDen b x) := by
  obtain ⟨o', ho', _, hd⟩ := inter_exact_admissible a b ha hb hnb
  rw [h] at ho'; cases ho'; exact hd


/-- … and for two polyhedra too, whenever the call returns (K4) -/
theorem result_is_intersection_polyhedra (A B : Polyhedron) (hA : A.ExactHyp) (hB : B.ExactHyp) (o : Option Obj)
    (h : inter (.polyhedron A) (.polyhedron B) = .ok o) : ∀ x, denOptB o x ↔ (InHull A.verts x ∧ InHull B.verts x) := by
  rw [Props.C04.inter_eq_ref] at h
  exact ((interPolyhedronPolyhedron_exact_of_ok A B hA hB).1 o h).2


/-! ### all seven types, with Euler's polyhedron formula (`EulerAll`: the check `ConvexPolyhedron.__init__` makes on the faces
    assembled by polyhedron × polyhedron always passes) as the ONLY hypothesis -/
/-- **associativity for all 343 type triples**: both nestings return without error and denote exactly a ∩ b ∩ c -/
theorem assoc_all_types_of_euler (hE : EulerAll) (a b c : Obj) (ha : OpOK a) (hb : OpOK b) (hc : OpOK c) :
    ∃ ab bc l r, inter a b = .ok ab ∧ inter b c = .ok bc ∧
      interOpt ab (some c) = .ok l ∧ interOpt (some a) bc = .ok r ∧ ResOK' l ∧ ResOK' r ∧
      (∀ x, denOptB l x ↔ (ObjDen a x ∧ ObjDen b x ∧ ObjDen c x)) ∧
      (∀ x, denOptB r x ↔ (ObjDen a x ∧ ObjDen b x ∧ ObjDen c x)) := by
  obtain ⟨ab, bc, l, r, h1, h2, h3, h4, rest⟩ := interRef_assoc_all hE a b c ha hb hc
  refine ⟨ab, bc, l, r, by rw [Props.C04.inter_eq_ref]; exact h1, by rw [Props.C04.inter_eq_ref]; exact h2, ?_, ?_, rest⟩
  · cases ab with
    | none => simp only [interOptLB] at h3; cases h3; exact (Props.C04.interOpt_none _).1
    | some g => simp only [interOpt]; rw [Props.C04.inter_eq_ref]; exact h3
  · cases bc with
    | none => simp only [interOptRB] at h4; cases h4; exact (Props.C04.interOpt_none _).2
    | some g => simp only [interOpt]; rw [Props.C04.inter_eq_ref]; exact h4

/-- `intersection(a, a)` denotes `a` — all seven types -/
theorem self_all_types_of_euler (hE : EulerAll) (a : Obj) (ha : OpOK a) :
    ∃ g, inter a a = .ok (some g) ∧ OpOK g ∧ ∀ x, ObjDen g x ↔ ObjDen a x := by
  rw [Props.C04.inter_eq_ref]; exact interRef_self_all hE a ha

/-- `a ⊆ b` ⇒ `intersection(a, b)`, `intersection(b, a)` denote `a` — all 49 pairs -/
theorem subset_all_types_of_euler (hE : EulerAll) (a b : Obj) (ha : OpOK a) (hb : OpOK b)
    (hsub : ∀ x, ObjDen a x → ObjDen b x) (hne : ∃ x, ObjDen a x) :
    (∃ g, inter a b = .ok (some g) ∧ ∀ x, ObjDen g x ↔ ObjDen a x) ∧
    (∃ g, inter b a = .ok (some g) ∧ ∀ x, ObjDen g x ↔ ObjDen a x) := by
  rw [Props.C04.inter_eq_ref, Props.C04.inter_eq_ref]; exact interRef_of_subset_all hE a b ha hb hsub hne


/-! ### all seven types, unconditionally (Euler's formula is proved: `eulerAll`) -/
/-- **associativity for all 343 type triples** -/
theorem assoc_all_types (a b c : Obj) (ha : OpOK a) (hb : OpOK b) (hc : OpOK c) :
    ∃ ab bc l r, inter a b = .ok ab ∧ inter b c = .ok bc ∧
      interOpt ab (some c) = .ok l ∧ interOpt (some a) bc = .ok r ∧ ResOK' l ∧ ResOK' r ∧
      (∀ x, denOptB l x ↔ (ObjDen a x ∧ ObjDen b x ∧ ObjDen c x)) ∧
      (∀ x, denOptB r x ↔ (ObjDen a x ∧ ObjDen b x ∧ ObjDen c x)) := assoc_all_types_of_euler eulerAll a b c ha hb hc
/-- `intersection(a, a)` denotes `a` — all seven types -/
theorem self_all_types (a : Obj) (ha : OpOK a) :
    ∃ g, inter a a = .ok (some g) ∧ OpOK g ∧ ∀ x, ObjDen g x ↔ ObjDen a x := self_all_types_of_euler eulerAll a ha
/-- `a ⊆ b` ⇒ `intersection(a, b)`, `intersection(b, a)` denote `a` — all 49 pairs -/
theorem subset_all_types (a b : Obj) (ha : OpOK a) (hb : OpOK b)
    (hsub : ∀ x, ObjDen a x → ObjDen b x) (hne : ∃ x, ObjDen a x) :
    (∃ g, inter a b = .ok (some g) ∧ ∀ x, ObjDen g x ↔ ObjDen a x) ∧
    (∃ g, inter b a = .ok (some g) ∧ ∀ x, ObjDen g x ↔ ObjDen a x) := subset_all_types_of_euler eulerAll a b ha hb hsub hne

end G3D.Props.C12
