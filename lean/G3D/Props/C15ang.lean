import G3D.Extracted.Dispangle
/-! # C15 — unsupported operands raise: `angle`, `parallel`, `orthogonal` (tables extracted from calc/angle.py)

One small module per extracted table, proved by evaluation of the table alone, so that a change in one dispatch chain
breaks this statement only if it changes what the statement is about. -/
namespace G3D.Props.C15
open G3D G3D.Dispatch G3D.Extracted

theorem angle_parallel_orthogonal_reject_undocumented :
    (∀ a ∈ allTypes, ∀ b ∈ allTypes, Cell.handles angleCell a b = false → angleCell a b = .raise "NotImplementedError") ∧
    (∀ a ∈ allTypes, ∀ b ∈ allTypes, Cell.handles parallelCell a b = false → parallelCell a b = .raise "NotImplementedError") ∧
    (∀ a ∈ allTypes, ∀ b ∈ allTypes, Cell.handles orthogonalCell a b = false → orthogonalCell a b = .raise "NotImplementedError") := by
  refine ⟨?_, ?_, ?_⟩ <;> decide
end G3D.Props.C15
