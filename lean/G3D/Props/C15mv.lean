import G3D.Props.Classes
/-! # C15 — unsupported operands raise: `move` with a non-Vector argument (class table extracted from geometry/*.py)

One small module per extracted table, proved by evaluation of the table alone, so that a change in one dispatch chain
breaks this statement only if it changes what the statement is about. -/
namespace G3D.Props.C15
open G3D G3D.Dispatch G3D.Extracted

/-- every geometry type's `move` raises for a non-Vector argument (D3: Plane.move used to RETURN the exception) -/
theorem move_nonvector_raises : ∀ t ∈ geoTypes, ∃ c, Props.Classes.info t = some c ∧ c.moveNonVector = "raise:NotImplementedError" :=
  Props.Classes.move_nonvector_raises
end G3D.Props.C15
