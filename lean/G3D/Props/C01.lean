import G3D.Proofs.Collinear
import G3D.Props.C04
/-! # C01 — the intersection of two flat primitives is exactly their common point set
    Stated about `inter`, the dispatcher generated from the current source, for ALL rational operands. -/
namespace G3D.Props.C01
open G3D V3

/-- the flat result (if any) inside a general result -/
def flatOf : Option Obj → Option (Option Geo)
  | none => some none
  | some (.flat g) => some (some g)
  | some _ => none

/-- on flats the table-driven dispatcher runs the 15 flat handlers -/
theorem inter_flat (a b : Geo) : inter (.flat a) (.flat b) = liftFlat (interFlat a b) := by
  rw [Props.C04.inter_eq_ref]; rfl

/-- **C01**: for well-formed flats `a`, `b` (any of Point, Line, Plane, Segment, HalfLine; all rational
    coordinates), `intersection(a, b)` returns without error, the result is `None` or a well-formed flat,
    and a point belongs to the result iff it belongs to both operands. -/
theorem inter_flat_exact (a b : Geo) (ha : a.WF) (hb : b.WF) :
    ∃ o : Option Geo, inter (.flat a) (.flat b) = .ok (o.map Obj.flat) ∧ (∀ g, o = some g → g.WF) ∧
      ∀ x, denOpt o x ↔ (a.den x ∧ b.den x) := by
  obtain ⟨o, ho, hwf, hden⟩ := interFlat_exact a b ha hb
  refine ⟨o, ?_, hwf, hden⟩
  rw [inter_flat, ho]; cases o <;> rfl

theorem add_smul_zero (p d : V3) : p = add p (smul 0 d) := by
  cases p; cases d; simp [V3.add, V3.smul]

/-- `None` exactly when the operands are disjoint -/
theorem inter_flat_none_iff (a b : Geo) (ha : a.WF) (hb : b.WF) :
    inter (.flat a) (.flat b) = .ok none ↔ ∀ x, ¬ (a.den x ∧ b.den x) := by
  obtain ⟨o, ho, _, hden⟩ := inter_flat_exact a b ha hb
  constructor
  · intro h x hx
    rw [ho] at h
    cases o with
    | none => exact (hden x).mpr hx
    | some g => simp at h
  · intro h
    cases o with
    | none => exact ho
    | some g =>
      exfalso
      -- a well-formed flat is non-empty
      have hne : ∃ x, g.den x := by
        cases g with
        | point p => exact ⟨p, rfl⟩
        | line l => exact ⟨l.sv, 0, add_smul_zero _ _⟩
        | plane pl => exact ⟨pl.p, by show dot pl.n (sub pl.p pl.p) = 0; simp only [V3.dot, V3.sub]; ring⟩
        | seg s => exact ⟨s.a, 0, le_refl _, by decide, add_smul_zero _ _⟩
        | halfline h => exact ⟨h.p, 0, le_refl _, add_smul_zero _ _⟩
      obtain ⟨x, hx⟩ := hne
      exact h x ((hden x).mp hx)

/-- the internal "Bug detected" / arity errors are unreachable on well-formed flats -/
theorem inter_flat_no_error (a b : Geo) (ha : a.WF) (hb : b.WF) : ∀ e, inter (.flat a) (.flat b) ≠ .error e := by
  obtain ⟨o, ho, _, _⟩ := inter_flat_exact a b ha hb
  intro e h; rw [ho] at h; cases h

/-- a one-point intersection is returned as a Point (never as a degenerate Segment): every returned
    Segment has two different end points — part of `WF` -/
theorem inter_flat_seg_proper (a b : Geo) (ha : a.WF) (hb : b.WF) (s : Seg)
    (h : inter (.flat a) (.flat b) = .ok (some (.flat (.seg s)))) : s.a ≠ s.b := by
  obtain ⟨o, ho, hwf, _⟩ := inter_flat_exact a b ha hb
  rw [ho] at h
  cases o with
  | none => cases h
  | some g =>
    simp only [Option.map_some, Except.ok.injEq, Option.some.injEq, Obj.flat.injEq] at h
    subst h
    exact (hwf _ rfl).1

/-- non-vacuity: concrete oblique operands meet the hypotheses, and the theorem computes -/
example : (Geo.seg (Seg.mk' ⟨0,0,0⟩ ⟨2,2,1⟩)).WF ∧ (Geo.halfline (HalfLine.mk' ⟨1,1,1/2⟩ ⟨-2,-2,-1⟩)).WF := by
  constructor
  · exact ⟨by decide, rfl⟩
  · exact ⟨by decide, rfl⟩
end G3D.Props.C01
