import G3D.Proofs.Volume
/-! # C14 — shape builders  (partial; extended by G3D/Proofs/Builders when present)
    Available now: the measure theory the closed forms rest on (vector areas of a closed surface cancel; the pyramid-sum
    volume is reference independent) — see C06.  Counts, frame selection and on-surface statements: G3D/Proofs/Builders. -/
namespace G3D.Props.C14
open G3D V3
theorem closed_surface_vector_area_zero (fs : List (List V3)) (hc : ClosedSurface fs) :
    vsum (fs.map vecArea2) = zero := closed_vecArea_zero fs hc
end G3D.Props.C14
