import G3D.Proofs.Builders
import G3D.Proofs.BuildersReal
import G3D.Proofs.CosSqBound
import G3D.Proofs.SmallAngle
import G3D.Proofs.BuildersSphereGeneral
/-! # C14 — shape builders  (full over ℝ for the model's face lists: counts, placement, convexity, closed-form areas and volumes;
    see `Proofs/BuildersArea.lean`, `BuildersSphere*.lean` for the areas, the Sphere volume / convexity and the general-n Sphere skeleton)
    Three layers (the vertices of the round shapes are irrational, so they never pass through the rational constructors):
    (i)  combinatorial skeletons of the face lists exactly as the Python builds them, with the flips the ConvexPolyhedron
         constructor applies: vertex / edge / face counts, Euler, every edge on exactly two faces, consistent orientation —
         for every n in 3..24 and (n1, n2) in 3..12 × 2..5 by kernel evaluation of the whole finite table, and for EVERY n ≥ 3
         for Circle / Cylinder / Cone;
    (ii) the frame selection of `get_circle_point_list` over rational directions with the threshold cos²(SMALL_ANGLE) abstracted
         to any c ∈ [1/2, 1): a base vector is always found (the `raise` is dead) and is never parallel to the normal — the D8
         defect (normal anti-parallel to x) is exactly the case this excludes;
    (iii) over ℝ: every generated vertex lies on the specified circle / cylinder / cone / sphere, consecutive vertices are one
         equal angular step apart, Sphere rings sit at equal latitude steps, the polygons are convex, and the volumes of Cylinder
         and Cone equal the closed forms n/2·r²·sin(2π/n)·|h| (resp. /3); exact rational Parallelogram / Parallelepiped. -/
namespace G3D.Props.C14
open G3D V3 G3D.Builders

/-! ### (i) counts -/
theorem circle_counts (n : Nat) (h3 : 3 ≤ n) :
    vertexCount (circleFaces n) = n ∧ faceCount (circleFaces n) = 1 ∧ Simple (circleFaces n) ∧
      (Builders.dirEdges (circleFaces n)).length = n := circle_skeleton_general n h3
/-- … with the undirected edge count over the property's range 3..24 (finite table) -/
theorem circle_counts_table (n : Nat) (h3 : 3 ≤ n) (h24 : n ≤ 24) :
    vertexCount (circleFaces n) = n ∧ edgeCount (circleFaces n) = n ∧ faceCount (circleFaces n) = 1 ∧ Simple (circleFaces n) :=
  circle_skeleton n h3 h24
theorem cylinder_counts (n : Nat) (h3 : 3 ≤ n) :
    vertexCount (cylinderFaces n) = 2 * n ∧ edgeCount (cylinderFaces n) = 3 * n ∧
      faceCount (cylinderFaces n) = n + 2 ∧ Euler (cylinderFaces n) ∧ Simple (cylinderFaces n) ∧
      ClosedUndir (cylinderFaces n) ∧ ClosedDir (cylinderOriented n) := cylinder_skeleton_general n h3
theorem cone_counts (n : Nat) (h3 : 3 ≤ n) :
    vertexCount (coneFaces n) = n + 1 ∧ edgeCount (coneFaces n) = 2 * n ∧
      faceCount (coneFaces n) = n + 1 ∧ Euler (coneFaces n) ∧ Simple (coneFaces n) ∧
      ClosedUndir (coneFaces n) ∧ ClosedDir (coneOriented n) := cone_skeleton_general n h3
/-- Sphere over the property's whole range (finite table, `decide +kernel`): 2·n2 − 1 rings of n1 points and two poles -/
theorem sphere_counts (n1 n2 : Nat) (h3 : 3 ≤ n1) (h12 : n1 ≤ 12) (h2 : 2 ≤ n2) (h5 : n2 ≤ 5) :
    vertexCount (sphereFaces n1 n2) = n1 * (2 * n2 - 1) + 2 ∧ edgeCount (sphereFaces n1 n2) = n1 * (4 * n2 - 1) ∧
      faceCount (sphereFaces n1 n2) = 2 * n1 * n2 ∧ Euler (sphereFaces n1 n2) ∧ Simple (sphereFaces n1 n2) ∧
      ClosedUndir (sphereFaces n1 n2) ∧ ClosedDir (sphereOriented n1 n2) := sphere_skeleton n1 n2 h3 h12 h2 h5
theorem parallelepiped_counts :
    vertexCount parallelepipedFaces = 8 ∧ edgeCount parallelepipedFaces = 12 ∧ faceCount parallelepipedFaces = 6 ∧
      Euler parallelepipedFaces ∧ Simple parallelepipedFaces ∧ ClosedUndir parallelepipedFaces ∧
      ClosedDir parallelepipedOriented := parallelepiped_skeleton

/-! ### (ii) frame selection -/
theorem frame_always_defined (c : Rat) (hc1 : 1 / 2 ≤ c) (hc2 : c < 1) (n : V3) (hn : n ≠ zero) :
    ∃ b, baseVector c n = some b ∧ (b = ex ∨ b = ey) ∧ cross n b ≠ zero ∧ V3.parallel n b = false :=
  frame_defined c hc1 hc2 n hn
theorem frame_is_orthogonal (n b : V3) (hb : cross n b ≠ zero) :
    dot (frameW1 n b) n = 0 ∧ dot (frameW2 n b) n = 0 ∧ dot (frameW1 n b) (frameW2 n b) = 0 ∧
      normSq (frameW2 n b) = normSq n * normSq (frameW1 n b) ∧ frameW1 n b ≠ zero ∧
      cross (frameW1 n b) (frameW2 n b) = smul (normSq (frameW1 n b)) n := frame_orthogonal n b hb
/-- a direction cannot be close to both the x and the y axis -/
theorem not_near_both_axes (n : V3) (hn : n ≠ zero) : cosSqVec n ⟨1,0,0⟩ + cosSqVec n ⟨0,1,0⟩ ≤ 1 := cosSq_xy_le_one n hn

/-- the concrete threshold of the code, cos²(SMALL_ANGLE) with SMALL_ANGLE extracted from utils/constant.py (= 1/10), lies in
    [1/2, 1): the hypothesis of `frame_always_defined` holds for the real code -/
theorem threshold_in_range :
    (1:ℝ) / 2 ≤ Real.cos ((G3D.Extracted.smallAngle : ℚ) : ℝ) ^ 2 ∧ Real.cos ((G3D.Extracted.smallAngle : ℚ) : ℝ) ^ 2 < 1 :=
  cos_sq_smallAngle_range

/-! ### exact rational shapes -/
theorem parallelogram_area (p a b : V3) : normSq (vecArea2 (parallelogramPts p a b)) = 4 * normSq (cross a b) :=
  parallelogram_area_sq p a b
/-- Parallelepiped volume = |det(v1, v2, v3)| (six times, in the surface-integral form; any reference point) -/
theorem parallelepiped_volume_is_det (p v1 v2 v3 q : V3) (hd : det3 v1 v2 v3 ≠ 0) :
    vol6 (((ppFacesCoded p v1 v2 v3).map (orientOut (ppCentre p v1 v2 v3))).map Prod.snd) q = 6 * absQ (det3 v1 v2 v3) :=
  parallelepiped_volume p v1 v2 v3 q hd

/-- **Sphere, every resolution**: the counts, Euler's formula, simplicity, closedness and consistent orientation of the Sphere
    face complex for ALL n1 ≥ 3, n2 ≥ 2 (the table `sphere_counts` above covers only the property's range) -/
theorem sphere_counts_general (n1 n2 : Nat) (h3 : 3 ≤ n1) (h2 : 2 ≤ n2) :
    vertexCount (sphereFaces n1 n2) = n1 * (2 * n2 - 1) + 2 ∧ edgeCount (sphereFaces n1 n2) = n1 * (4 * n2 - 1) ∧
      faceCount (sphereFaces n1 n2) = 2 * n1 * n2 ∧ Euler (sphereFaces n1 n2) ∧ Simple (sphereFaces n1 n2) ∧
      ClosedUndir (sphereFaces n1 n2) ∧ ClosedDir (sphereOriented n1 n2) := sphere_skeleton_general n1 n2 h3 h2
end G3D.Props.C14
