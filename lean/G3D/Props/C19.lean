import G3D.Proofs.Tol
import G3D.Extracted.Sites
import G3D.Extracted.Consts
import G3D.Proofs.TolUnique
import G3D.Proofs.RoundStable
/-! # C19 — tolerance is uniform and follows set_eps / set_sig_figures  (partial only at float rounding and the hash digits of composites)
    `Tol.Cfg` is the state of utils/constant.py (`FLOAT_EPS`, `SIG_FIGURES`), `Tol.step` its four entry points.
    Proved here: the two globals stay consistent after ANY sequence of setter calls, restoring eps restores the state,
    the coordinate comparison of Point/Vector accepts differences ≤ eps/1000 and rejects differences > 4·eps, and —
    over the table of tolerance reads extracted from the CURRENT source — every read in the package is a live getter
    call at query time (none is a value frozen at import time, none is a hard-coded literal).
    The consequences for Line / Plane / Segment / HalfLine / ConvexPolygon (compare / contain / intersect as coincident under
    eps/1000 perturbations) are proved in the tolerance-aware real model `Model/TolGeo.lean`, `Proofs/TolGeo*.lean`, which
    `Proofs/TolGeoTie.lean` ties to the comparisons extracted from the source (registered under C19 in theorems.json). -/
namespace G3D.Props.C19
open G3D.Tol G3D.Extracted

/-- after any sequence of `set_eps` / `set_sig_figures` calls (with or without argument):
    `get_sig_figures() = round(-log10(get_eps()))` -/
theorem config_invariant (ops : List Op) (c : Cfg) (hc : Inv c) (hok : ∀ op ∈ ops, op.ok) (c' : Cfg)
    (h : run c ops = some c') : Inv c' := run_inv ops c hc hok c' h

/-- the defaults (1e-10, 10) satisfy it, and calling a setter without argument returns to them -/
theorem defaults : Inv init ∧ init.eps = 1 / pow10 10 ∧ init.sig = 10 ∧
    step init .setSigDefault = some init := by
  refine ⟨init_inv, rfl, rfl, ?_⟩
  simp [step, setSig, init, pow10neg]

/-- the defaults of the CURRENT source (extracted): SIG_FIGURES = 10, FLOAT_EPS = 1/(10**SIG_FIGURES), and the default
    arguments of both setters are the model's initial configuration -/
theorem defaults_extracted : sigFiguresInit = init.sig ∧ floatEpsInitSrc = "1/(10**SIG_FIGURES)" ∧
    setEpsDefault = init.eps ∧ setSigDefault = init.sig := by
  refine ⟨by decide, by decide, ?_, by decide⟩
  simp only [setEpsDefault, init, pow10]; norm_num

/-- power-of-ten settings: `set_sig_figures(n)` gives `eps = 10^(-n)` -/
theorem power_of_ten (c : Cfg) (n : Nat) : (setSig c n).eps = 1 / pow10 n ∧ (setSig c n).sig = n ∧ Inv (setSig c n) := by
  refine ⟨by simp [setSig, pow10neg], rfl, setSig_inv c n⟩

/-- restoring the previous eps restores the previous configuration -/
theorem restore_previous (c : Cfg) (hc : Inv c) (e : Rat) (c1 c2 : Cfg) (h1 : setEps c e = some c1)
    (h2 : setEps c1 c.eps = some c2) : c2.eps = c.eps ∧ Inv c2 :=
  ⟨restore c hc e c1 c2 h1 h2, setEps_inv c1 c.eps c2 h2⟩

/-- coordinates differing by at most eps/1000 compare equal; by more than 4·eps, unequal -/
theorem coordinate_tolerance (c : Cfg) (hpos : 0 < c.eps) (a b : Rat) :
    (absR (a - b) ≤ c.eps / 1000 → coordEq c a b = true) ∧ (4 * c.eps < absR (a - b) → coordEq c a b = false) :=
  ⟨coordEq_within c hpos a b, coordEq_beyond c hpos a b⟩

/-- **every comparison uses the current values**: each of the tolerance reads found in the package is a getter call
    evaluated at query time -/
theorem all_sites_live : ∀ s ∈ tolSites, s.live = true := by decide
/-- there is at least one read in each of the modules the property names -/
theorem sites_cover_modules : ∀ f ∈ ["Geometry3D/geometry/point.py", "Geometry3D/utils/vector.py", "Geometry3D/geometry/line.py",
      "Geometry3D/geometry/plane.py", "Geometry3D/geometry/polygon.py", "Geometry3D/geometry/polyhedron.py",
      "Geometry3D/utils/solver.py"], ∃ s ∈ tolSites, s.file = f := by decide
/-- no hard-coded small tolerance literal in any comparison -/
theorem no_literal_tolerances : literalTolerances = [] := by decide
/-- both setters assign BOTH globals (so they cannot drift apart) -/
theorem setters_write_both : configWriters = [("set_eps", ["FLOAT_EPS", "SIG_FIGURES"]), ("set_sig_figures", ["FLOAT_EPS", "SIG_FIGURES"])] := by decide
/-- restoring the previous eps restores the previous configuration EXACTLY (the significant-figure count is determined
    by eps) -/
theorem restore_previous_exact (c : Cfg) (hc : Inv c) (e : Rat) (c1 c2 : Cfg) (h1 : setEps c e = some c1)
    (h2 : setEps c1 c.eps = some c2) : c2 = c := restore_full c hc e c1 c2 h1 h2

/-- the count is unique: two configurations with the same eps that satisfy the invariant are equal -/
theorem sig_determined_by_eps (c c' : Cfg) (hc : Inv c) (hc' : Inv c') (he : c.eps = c'.eps) : c = c' :=
  Inv_sig_determined c c' hc hc' he

/-- **hash stability**: `round(x, k)` (round-half-even on x·10^k) is unchanged by a perturbation of at most eps/1000 =
    10^(-k)/1000 whenever x is at least 7% of a rounding step away from a rounding boundary — the reason why objects whose
    defining coordinates differ by eps/1000 hash equal on the property's catalogue -/
theorem rounding_stable (k : Nat) (x y : Rat)
    (hm : 7/100 ≤ |x * (10:Rat)^k - ((x * (10:Rat)^k).floor : Rat) - 1/2|)
    (hxy : |y - x| ≤ (1 / (10:Rat)^k) / 1000) : G3D.Round.roundDec k y = G3D.Round.roundDec k x :=
  G3D.Round.round_stable_eps1000 k x y hm hxy

/-- the four entry points of utils/constant.py are, statement by statement, what the state machine `Tol.step` models:
    `set_eps` stores eps and sets SIG_FIGURES = round(log10(1/eps)) (`Tol.setEps` via `sigOf`), `set_sig_figures` stores the count
    and sets FLOAT_EPS = 1/10**SIG_FIGURES (`Tol.setSig`), the getters return the globals; `log10` is math.log10 -/
theorem config_functions_as_modelled :
    body_set_eps = ["global FLOAT_EPS, SIG_FIGURES", "FLOAT_EPS = eps", "SIG_FIGURES = round(log10(1 / eps))"] ∧
    params_set_eps = ["eps"] ∧
    body_set_sig_figures = ["global FLOAT_EPS, SIG_FIGURES", "SIG_FIGURES = sig_figures", "FLOAT_EPS = 1 / 10 ** SIG_FIGURES"] ∧
    params_set_sig_figures = ["sig_figures"] ∧
    body_get_eps = ["global FLOAT_EPS", "return FLOAT_EPS"] ∧ body_get_sig_figures = ["global SIG_FIGURES", "return SIG_FIGURES"] ∧
    constantImports = ["from math import pi, log10"] := by decide
end G3D.Props.C19
