import G3D.Proofs.Construct
import G3D.Proofs.Move2
import G3D.Proofs.SortValid
import G3D.Proofs.SortCycle
import G3D.Proofs.Judge
import G3D.Proofs.CtorQueries
import G3D.Proofs.Euler5
/-! # C09 — polygon / polyhedron construction is order-independent and canonical  (full relative to a Valid reference body)
    Polygon: whatever the order and repetitions of the input, distinct coplanar points in strictly convex position are accepted
    and yield the Valid counter-clockwise cycle on exactly those points (kernel K6); -p, -(-p); translations.
    Polyhedron: the faces of a Valid body in any order / start vertex / orientation are ACCEPTED (Euler's formula proved) and
    stored as a Valid body with outward faces, the same vertices and membership = hull.  The decidable validity predicates are
    additionally evaluated by the Lean judges on every object the implementation constructs in the correspondence. -/
namespace G3D.Props.C09
open G3D V3

theorem polygon_construction (input : List V3) (rev : Bool) (P : Polygon) (h : Polygon.mk? input rev = .ok P) :
    3 ≤ input.length ∧ P.plane.WF ∧ (∀ p ∈ P.pts, p ∈ input) ∧ (∀ p ∈ P.pts, P.plane.contains p = true) ∧
    P.center = meanV (dedupV input) := Polygon.mk?_ok input rev P h

theorem polygon_construction_translation (l : List V3) (rev : Bool) (v : V3) :
    Polygon.mk? (l.map (fun p => add p v)) rev = (Polygon.mk? l rev).map (fun P => P.translate v) :=
  Polygon.mk?_translate l rev v

theorem polyhedron_construction (input : List Polygon) (B : Polyhedron) (h : Polyhedron.mk? input = .ok B) :
    (∀ f ∈ B.faces, 0 ≤ dot (sub f.plane.p B.center) f.plane.n) ∧
    ((B.verts.length : Int) - B.edges.length + B.faces.length = 2) ∧
    (B.center = meanV B.verts ∧ B.verts = collectVerts input ∧ B.verts ≠ []) ∧
    (B.faces.length = input.length ∧ B.pyramids.length = input.length) := Polyhedron.mk?_ok input B h

theorem polyhedron_centre_inside (input : List Polygon) (B : Polyhedron) (h : Polyhedron.mk? input = .ok B)
    (hc : ∀ f ∈ B.faces, f.plane.contains f.center = true) : B.contains B.center = true :=
  Polyhedron.center_inside input B h hc

/-! ### kernel K6 — the angular sort of points in strictly convex position is the counter-clockwise cycle -/
/-- **order independence**: whatever the order (and repetitions) of the input, if the distinct input points are in
    strictly convex position (every point strictly exposed) and the construction succeeds, the polygon is Valid
    (counter-clockwise convex cycle about its normal) and its vertices are exactly the distinct input points -/
theorem polygon_valid_of_convex_position (input : List V3) (rev : Bool) (P : Polygon)
    (h : Polygon.mk? input rev = .ok P) (hx : StrictConvexPos (dedupV input)) :
    P.Valid ∧ List.Perm P.pts (dedupV input) :=
  let ⟨h1, h2, _⟩ := Polygon.mk?_valid_of_strictConvex input rev P h hx
  ⟨h1, h2⟩

/-- … and the construction does succeed for distinct coplanar points in strictly convex position -/
theorem polygon_construction_succeeds (input : List V3) (rev : Bool) (p0 p1 p2 : V3) (rest : List V3)
    (hd : dedupV input = p0 :: p1 :: p2 :: rest) (hx : StrictConvexPos (dedupV input))
    (hpl : ∀ p ∈ dedupV input, dot (cross (sub p1 p0) (sub p2 p0)) (sub p p0) = 0) :
    ∃ P, Polygon.mk? input rev = .ok P ∧ P.Valid ∧ List.Perm P.pts (dedupV input) :=
  Polygon.mk?_ok_of_strictConvex input rev p0 p1 p2 rest hd hx hpl

/-- `-polygon`: same vertices (the cycle reversed after its first vertex), Valid about the reversed normal -/
theorem neg_polygon (P : Polygon) (hv : P.Valid) :
    ∃ Q q0 rest, P.pts = q0 :: rest ∧ P.neg? = .ok Q ∧ Q.Valid ∧ Q.pts = q0 :: rest.reverse ∧
      Q.plane.p = q0 ∧ Q.center = meanV P.pts ∧ (∃ t : Rat, 0 < t ∧ Q.plane.n = smul t (neg P.plane.n)) :=
  Polygon.neg?_of_valid P hv

/-- `-(-p)` has p's vertex cycle and p's normal direction -/
theorem neg_neg_polygon (P : Polygon) (hv : P.Valid) :
    ∃ Q R, P.neg? = .ok Q ∧ Q.neg? = .ok R ∧ R.Valid ∧ R.pts = P.pts ∧ (∃ t : Rat, 0 < t ∧ R.plane.n = smul t P.plane.n) :=
  Polygon.neg?_neg?_pts P hv

/-- the judge the correspondence evaluates on implementation-built polygons decides exactly `Valid` -/
theorem judge_decides_valid (P : Polygon) : P.validB = true ↔ P.Valid := Polygon.validB_iff P


/-! ### ConvexPolyhedron: face order and input orientation do not matter -/
/-- given the faces of a Valid body `B0` in ANY order, each with ANY start vertex and EITHER orientation (`Reoriented`),
    the constructor succeeds exactly when Euler's formula holds for B0, and then returns a Valid body with every face outward
    (a rotation of the corresponding face of B0), the same vertices, the same undirected edges, V − E + F = 2, and centre =
    vertex mean, strictly inside -/
theorem polyhedron_orientation_independent (B0 : Polyhedron) (hV : B0.Valid) (F input : List Polygon)
    (hperm : List.Perm F B0.faces) (hrel : List.Forall₂ Reoriented F input)
    (hEuler : ((collectVerts B0.faces).length : Int) - (edgesOf B0.faces []).length + B0.faces.length = 2) :
    ∃ B, Polyhedron.mk? input = .ok B ∧ B.Valid ∧ B.center = meanV B.verts ∧ List.Forall₂ OutwardCopy F B.faces ∧
      (∀ f ∈ B.faces, f.side B.center < 0) ∧ List.Perm B.verts (collectVerts B0.faces) ∧
      ((B.verts.length : Int) - B.edges.length + B.faces.length = 2) := by
  obtain ⟨B, h1, h2, _, h4, h5, _, h7, h8, _, _, h11, _⟩ := Polyhedron.mk?_reoriented B0 hV F input hperm hrel hEuler
  exact ⟨B, h1, h2, h4, h5, h7, h8, h11⟩

/-- … and the queries do not see the difference: same membership test as B0, which is the hull of the vertices -/
theorem polyhedron_queries_independent (B0 : Polyhedron) (hV : B0.Valid) (F input : List Polygon)
    (hperm : List.Perm F B0.faces) (hrel : List.Forall₂ Reoriented F input) (B : Polyhedron) (h : Polyhedron.mk? input = .ok B) :
    B.Valid ∧ (∀ x, B.contains x = B0.contains x) ∧ (∀ x, B.contains x = true ↔ InHull B.verts x) := by
  obtain ⟨h1, _, _, _, h5, h6, _⟩ := Polyhedron.mk?_reoriented_queries B0 hV F input hperm hrel B h
  exact ⟨h1, h5, h6⟩

/-- face ORDER: a permuted face list is accepted iff the original is, with the same centre, vertices, membership and volume -/
theorem polyhedron_face_order_independent (input1 input2 : List Polygon) (hp : List.Perm input1 input2) (B1 : Polyhedron)
    (h1 : Polyhedron.mk? input1 = .ok B1) :
    ∃ B2, Polyhedron.mk? input2 = .ok B2 ∧ B2.center = B1.center ∧ List.Perm B1.verts B2.verts ∧
      B1.edges.length = B2.edges.length ∧ (∀ x, B1.contains x = B2.contains x) ∧ B1.volume = B2.volume := by
  obtain ⟨B2, a, b, _, _, e, f, _, _, i, j⟩ := Polyhedron.mk?_perm input1 input2 hp B1 h1
  exact ⟨B2, a, b, e, f, i, j⟩


/-! ### the constructor ACCEPTS: Euler's formula is proved, not assumed -/
/-- the faces of a Valid body without coplanar neighbouring faces (directed edges pairwise distinct), in ANY order, with ANY
    start vertex and EITHER orientation: the constructor succeeds and returns a Valid body with outward faces, the same
    vertices, V − E + F = 2 and centre = vertex mean -/
theorem polyhedron_constructor_accepts (B0 : Polyhedron) (hV : B0.Valid) (hloc : B0.FaceLocal)
    (hnd : (dirEdges (B0.faces.map (·.pts))).Nodup) (F input : List Polygon)
    (hperm : List.Perm F B0.faces) (hrel : List.Forall₂ Reoriented F input) :
    ∃ B, Polyhedron.mk? input = .ok B ∧ B.Valid ∧ B.center = meanV B.verts ∧ List.Forall₂ OutwardCopy F B.faces ∧
      (∀ f ∈ B.faces, f.side B.center < 0) ∧ List.Perm B.verts (collectVerts B0.faces) ∧
      ((B.verts.length : Int) - B.edges.length + B.faces.length = 2) :=
  polyhedron_orientation_independent B0 hV F input hperm hrel (Polyhedron.euler B0 hV hloc hnd)

end G3D.Props.C09
