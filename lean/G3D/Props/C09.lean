import G3D.Proofs.Construct
import G3D.Proofs.Move2
import G3D.Proofs.SortValid
import G3D.Proofs.SortCycle
import G3D.Proofs.Judge
/-! # C09 — polygon / polyhedron construction is order-independent and canonical  (partial)
    Proved: what a successful construction guarantees (vertices ⊆ input, coplanar, centre = mean of the distinct input;
    polyhedron: every stored face oriented away from the centre, Euler's formula, centre = vertex mean, centre inside),
    that the polygon constructor commutes with translations (rejections included).  Not proved: that the angular sort
    of points in convex position yields the counter-clockwise cycle (kernel K6) — the decidable validity predicate is
    evaluated by the Lean judge on every polygon the implementation constructs in the correspondence. -/
namespace G3D.Props.C09
open G3D V3

theorem polygon_construction (input : List V3) (rev : Bool) (P : Polygon) (h : Polygon.mk? input rev = .ok P) :
    3 ≤ input.length ∧ P.plane.WF ∧ (∀ p ∈ P.pts, p ∈ input) ∧ (∀ p ∈ P.pts, P.plane.contains p = true) ∧
    P.center = meanV (dedupV input) := Polygon.mk?_ok input rev P h

theorem polygon_construction_translation (l : List V3) (rev : Bool) (v : V3) :
    Polygon.mk? (l.map (fun p => add p v)) rev = (Polygon.mk? l rev).map (fun P => P.translate v) :=
  Polygon.mk?_translate l rev v

theorem polyhedron_construction (input : List Polygon) (B : Polyhedron) (h : Polyhedron.mk? input = .ok B) :
    (∀ f ∈ B.faces, 0 ≤ dot (sub f.plane.p B.center) f.plane.n) ∧
    ((B.verts.length : Int) - B.edges.length + B.faces.length = 2) ∧
    (B.center = meanV B.verts ∧ B.verts = collectVerts input ∧ B.verts ≠ []) ∧
    (B.faces.length = input.length ∧ B.pyramids.length = input.length) := Polyhedron.mk?_ok input B h

theorem polyhedron_centre_inside (input : List Polygon) (B : Polyhedron) (h : Polyhedron.mk? input = .ok B)
    (hc : ∀ f ∈ B.faces, f.plane.contains f.center = true) : B.contains B.center = true :=
  Polyhedron.center_inside input B h hc

/-! ### kernel K6 — the angular sort of points in strictly convex position is the counter-clockwise cycle -/
/-- **order independence**: whatever the order (and repetitions) of the input, if the distinct input points are in
    strictly convex position (every point strictly exposed) and the construction succeeds, the polygon is Valid
    (counter-clockwise convex cycle about its normal) and its vertices are exactly the distinct input points -/
theorem polygon_valid_of_convex_position (input : List V3) (rev : Bool) (P : Polygon)
    (h : Polygon.mk? input rev = .ok P) (hx : StrictConvexPos (dedupV input)) :
    P.Valid ∧ List.Perm P.pts (dedupV input) :=
  let ⟨h1, h2, _⟩ := Polygon.mk?_valid_of_strictConvex input rev P h hx
  ⟨h1, h2⟩

/-- … and the construction does succeed for distinct coplanar points in strictly convex position -/
theorem polygon_construction_succeeds (input : List V3) (rev : Bool) (p0 p1 p2 : V3) (rest : List V3)
    (hd : dedupV input = p0 :: p1 :: p2 :: rest) (hx : StrictConvexPos (dedupV input))
    (hpl : ∀ p ∈ dedupV input, dot (cross (sub p1 p0) (sub p2 p0)) (sub p p0) = 0) :
    ∃ P, Polygon.mk? input rev = .ok P ∧ P.Valid ∧ List.Perm P.pts (dedupV input) :=
  Polygon.mk?_ok_of_strictConvex input rev p0 p1 p2 rest hd hx hpl

/-- `-polygon`: same vertices (the cycle reversed after its first vertex), Valid about the reversed normal -/
theorem neg_polygon (P : Polygon) (hv : P.Valid) :
    ∃ Q q0 rest, P.pts = q0 :: rest ∧ P.neg? = .ok Q ∧ Q.Valid ∧ Q.pts = q0 :: rest.reverse ∧
      Q.plane.p = q0 ∧ Q.center = meanV P.pts ∧ (∃ t : Rat, 0 < t ∧ Q.plane.n = smul t (neg P.plane.n)) :=
  Polygon.neg?_of_valid P hv

/-- `-(-p)` has p's vertex cycle and p's normal direction -/
theorem neg_neg_polygon (P : Polygon) (hv : P.Valid) :
    ∃ Q R, P.neg? = .ok Q ∧ Q.neg? = .ok R ∧ R.Valid ∧ R.pts = P.pts ∧ (∃ t : Rat, 0 < t ∧ R.plane.n = smul t P.plane.n) :=
  Polygon.neg?_neg?_pts P hv

/-- the judge the correspondence evaluates on implementation-built polygons decides exactly `Valid` -/
theorem judge_decides_valid (P : Polygon) : P.validB = true ↔ P.Valid := Polygon.validB_iff P

end G3D.Props.C09
