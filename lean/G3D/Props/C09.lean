import G3D.Proofs.Construct
import G3D.Proofs.Move2
/-! # C09 — polygon / polyhedron construction is order-independent and canonical  (partial)
    Proved: what a successful construction guarantees (vertices ⊆ input, coplanar, centre = mean of the distinct input;
    polyhedron: every stored face oriented away from the centre, Euler's formula, centre = vertex mean, centre inside),
    that the polygon constructor commutes with translations (rejections included).  Not proved: that the angular sort
    of points in convex position yields the counter-clockwise cycle (kernel K6) — the decidable validity predicate is
    evaluated by the Lean judge on every polygon the implementation constructs in the correspondence. -/
namespace G3D.Props.C09
open G3D V3

theorem polygon_construction (input : List V3) (rev : Bool) (P : Polygon) (h : Polygon.mk? input rev = .ok P) :
    3 ≤ input.length ∧ P.plane.WF ∧ (∀ p ∈ P.pts, p ∈ input) ∧ (∀ p ∈ P.pts, P.plane.contains p = true) ∧
    P.center = meanV (dedupV input) := Polygon.mk?_ok input rev P h

theorem polygon_construction_translation (l : List V3) (rev : Bool) (v : V3) :
    Polygon.mk? (l.map (fun p => add p v)) rev = (Polygon.mk? l rev).map (fun P => P.translate v) :=
  Polygon.mk?_translate l rev v

theorem polyhedron_construction (input : List Polygon) (B : Polyhedron) (h : Polyhedron.mk? input = .ok B) :
    (∀ f ∈ B.faces, 0 ≤ dot (sub f.plane.p B.center) f.plane.n) ∧
    ((B.verts.length : Int) - B.edges.length + B.faces.length = 2) ∧
    (B.center = meanV B.verts ∧ B.verts = collectVerts input ∧ B.verts ≠ []) ∧
    (B.faces.length = input.length ∧ B.pyramids.length = input.length) := Polyhedron.mk?_ok input B h

theorem polyhedron_centre_inside (input : List Polygon) (B : Polyhedron) (h : Polyhedron.mk? input = .ok B)
    (hc : ∀ f ∈ B.faces, f.plane.contains f.center = true) : B.contains B.center = true :=
  Polyhedron.center_inside input B h hc
end G3D.Props.C09
