import G3D.Proofs.Move
import G3D.Proofs.Construct
import G3D.Proofs.PlaneForms
/-! # C15 — degenerate or invalid constructions are rejected, never returned
    Constructors are modelled as `Except`-valued functions following the code's checks; each theorem says that
    whatever is returned satisfies the type's invariant, and the explicit rejection lemmas cover the invalid classes
    of the statement.  The dispatch fall-through (`raise`) and the `move` guards are extracted from the source. -/
namespace G3D.Props.C15
open G3D V3

/-! ### Line, Segment, HalfLine -/
theorem line_ok (a dv : V3) (l : Line) (h : Line.mk? a dv = .ok l) : l.WF := Line.mk?_ok a dv l h
theorem line_rejects (a : V3) : Line.mk? a zero = .error .value ∧ Line.ofPoints? a a = .error .value :=
  ⟨Line.mk?_rejects a, Line.ofPoints?_rejects a⟩
theorem segment_ok (a b : V3) (s : Seg) (h : Seg.mk? a b = .ok s) : s.WF := Seg.mk?_ok a b s h
theorem segment_rejects (a : V3) : Seg.mk? a a = .error .value ∧ Seg.ofVec? a zero = .error .value := by
  refine ⟨Seg.mk?_rejects a, ?_⟩; simp [Seg.ofVec?, normSq, dot, zero]
theorem halfline_ok (a b : V3) (hl : HalfLine) (h : HalfLine.mk? a b = .ok hl) : hl.WF := HalfLine.mk?_ok a b hl h
theorem halfline_rejects (a : V3) : HalfLine.mk? a a = .error .value ∧ HalfLine.ofVec? a zero = .error .value := by
  constructor
  · simp [HalfLine.mk?]
  · simp [HalfLine.ofVec?, normSq, dot, zero]

/-! ### Plane: every constructor form returns a non-zero normal or raises -/
theorem plane_ok (P : Plane) :
    (∀ p n, Plane.ofPN p n = .ok P → P.WF) ∧ (∀ a b c, Plane.ofPoints a b c = .ok P → P.WF) ∧
    (∀ u v w, Plane.ofPVV u v w = .ok P → P.WF) ∧ (∀ a b c d, Plane.ofGF a b c d = .ok P → P.WF) := by
  refine ⟨?_, ?_, ?_, ?_⟩
  · intro p n h; unfold Plane.ofPN at h; split at h
    · cases h
    · rename_i hn; cases h; exact hn
  · intro a b c h; exact (plane_3pt_contains a b c P h).2.2.2
  · intro u v w h; unfold Plane.ofPVV at h; simp only at h; split at h
    · cases h
    · rename_i hn; cases h; exact hn
  · intro a b c d h
    unfold Plane.ofGF at h
    split at h
    · cases h
    · rename_i hn
      split at h
      · cases h; exact hn
      · cases h

theorem plane_rejects (p a : V3) (d : Rat) :
    Plane.ofPN p zero = .error .zeroDiv ∧ Plane.ofPoints a a a = .error .zeroDiv ∧ Plane.ofGF 0 0 0 d = .error .zeroDiv := by
  refine ⟨by simp [Plane.ofPN], ?_, by simp [Plane.ofGF, zero]⟩
  have : cross (sub a a) (sub a a) = zero := by apply V3.ext' <;> simp [cross, sub, zero]
  simp [Plane.ofPoints, this]

/-- collinear points never give a plane -/
theorem plane_rejects_collinear (a d : V3) (s t : Rat) :
    Plane.ofPoints a (add a (smul s d)) (add a (smul t d)) = .error .zeroDiv := by
  have : cross (sub (add a (smul s d)) a) (sub (add a (smul t d)) a) = zero := by
    apply V3.ext' <;> simp only [cross, sub, add, smul, zero] <;> ring
  simp [Plane.ofPoints, this]

/-! ### ConvexPolygon / ConvexPolyhedron -/
/-- a returned polygon has at least three input points, a non-zero normal (first three distinct points not collinear),
    only input points as vertices, all in one plane -/
theorem polygon_ok (input : List V3) (rev : Bool) (P : Polygon) (h : Polygon.mk? input rev = .ok P) :
    3 ≤ input.length ∧ P.plane.WF ∧ (∀ p ∈ P.pts, p ∈ input) ∧ (∀ p ∈ P.pts, P.plane.contains p = true) ∧
    P.center = meanV (dedupV input) := Polygon.mk?_ok input rev P h
theorem polygon_rejects_short (l : List V3) (h : l.length < 3) : Polygon.mk? l = .error .value :=
  Polygon.mk?_rejects_short l h
/-- fewer than three DISTINCT vertices are rejected as well -/
theorem polygon_rejects_few_distinct (l : List V3) (rev : Bool) (h : (dedupV l).length < 3) :
    ∃ e, Polygon.mk? l rev = .error e := by
  unfold Polygon.mk?
  simp only
  split
  · exact ⟨_, rfl⟩
  · match hd : dedupV l with
    | [] => exact ⟨_, rfl⟩
    | [_] => exact ⟨_, rfl⟩
    | [_, _] => exact ⟨_, rfl⟩
    | _ :: _ :: _ :: _ => rw [hd] at h; simp at h; omega

/-- what a returned polyhedron guarantees: faces oriented away from the centre, Euler's formula, centre = vertex mean -/
theorem polyhedron_ok (input : List Polygon) (B : Polyhedron) (h : Polyhedron.mk? input = .ok B) :
    (∀ f ∈ B.faces, 0 ≤ dot (sub f.plane.p B.center) f.plane.n) ∧
    ((B.verts.length : Int) - B.edges.length + B.faces.length = 2) := by
  obtain ⟨h1, h2, _⟩ := Polyhedron.mk?_ok input B h
  exact ⟨h1, h2⟩

end G3D.Props.C15
