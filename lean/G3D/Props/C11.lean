import G3D.Proofs.Angle
import G3D.Proofs.AngleReal
import G3D.Extracted.Dispangle
/-! # C11 — angle, parallel, orthogonal agree with exact direction geometry
    The float angle is `arccos` of `t = u·v / (|u||v|)` folded by `acute`, or its complement for
    Line/Plane.  The model keeps `t²` (rational) and the fold/complement flag (`AngleRep`); the real-analysis
    lemmas identify the folded value with `arccos |t|`.  Not exhibitable by an exact model: float rounding
    of `t` slightly above 1 (the clamp in `Vector.angle` handles it) — decided by the correspondence. -/
namespace G3D.Props.C11
open G3D V3 G3D.Dispatch G3D.Extracted

/-- cos² of the angle between two non-zero directions is in [0, 1] (Cauchy–Schwarz): `acos` is defined -/
theorem cosSq_in_range (u v : V3) (hu : u ≠ zero) (hv : v ≠ zero) : 0 ≤ cosSqVec u v ∧ cosSqVec u v ≤ 1 :=
  cosSqVec_range u v hu hv

/-- over ℝ: `acute(acos t) = arccos |t| ∈ [0, π/2]` for `t ∈ [-1, 1]` -/
theorem acute_angle_range (t : ℝ) (h1 : -1 ≤ t) (h2 : t ≤ 1) :
    acuteR (Real.arccos t) = Real.arccos |t| ∧ 0 ≤ Real.arccos |t| ∧ Real.arccos |t| ≤ Real.pi / 2 :=
  acute_arccos t h1 h2
/-- over ℝ: the Line/Plane angle `π/2 - arccos |t|` is in `[0, π/2]` -/
theorem line_plane_range (t : ℝ) : 0 ≤ Real.pi / 2 - Real.arccos |t| ∧ Real.pi / 2 - Real.arccos |t| ≤ Real.pi / 2 :=
  line_plane_angle_range t
theorem angle_zero_iff (t : ℝ) (h1 : -1 ≤ t) (h2 : t ≤ 1) : Real.arccos |t| = 0 ↔ t ^ 2 = 1 := arccos_abs_eq_zero_iff t h1 h2
theorem angle_right_iff (t : ℝ) : Real.arccos |t| = Real.pi / 2 ↔ t ^ 2 = 0 := arccos_abs_eq_pi_div_two_iff t

/-- `parallel(a, b)` is True exactly when the angle is 0 (all four type combinations and Vector/Vector) -/
theorem parallel_iff_zero (a b : AObj) (ha : a.dirOk) (hb : b.dirOk) (r : AngleRep)
    (hr : angleRep a b = some r) : parallelG a b = some true ↔ r.isZero := parallelG_iff_angle_zero a b ha hb r hr
/-- `orthogonal(a, b)` is True exactly when the angle is π/2 -/
theorem orthogonal_iff_right (a b : AObj) (ha : a.dirOk) (hb : b.dirOk) (r : AngleRep)
    (hr : angleRep a b = some r) : orthogonalG a b = some true ↔ r.isRight := orthogonalG_iff_angle_right a b ha hb r hr

/-- all three are symmetric in their arguments -/
theorem symmetric (a b : AObj) :
    angleRep a b = angleRep b a ∧ parallelG a b = parallelG b a ∧ orthogonalG a b = orthogonalG b a :=
  ⟨angleRep_symm a b, parallelG_symm a b, orthogonalG_symm a b⟩

/-- defined (never an error in the model) on Line/Line, Line/Plane, Plane/Line, Plane/Plane, Vector/Vector -/
theorem total_on_documented (a b : AObj) (h : (∃ x y, a = .vec x ∧ b = .vec y) ∨ (∀ x, a ≠ .vec x) ∧ (∀ y, b ≠ .vec y)) :
    (angleRep a b).isSome ∧ (parallelG a b).isSome ∧ (orthogonalG a b).isSome := by
  cases a <;> cases b <;> simp_all [angleRep, parallelG, orthogonalG]

/-! ### the dispatch chains of calc/angle.py, extracted from the current source -/
def docPairs : List (Ty × Ty) := [(.line, .line), (.line, .plane), (.plane, .line), (.plane, .plane), (.vector, .vector)]

theorem angle_dispatch : (∀ p ∈ docPairs, Cell.handles angleCell p.1 p.2 = true) ∧
    (∀ a ∈ allTypes, ∀ b ∈ allTypes, Cell.handles angleCell a b = false → angleCell a b = .raise "NotImplementedError") := by decide
theorem parallel_dispatch : (∀ p ∈ docPairs, Cell.handles parallelCell p.1 p.2 = true) ∧
    (∀ a ∈ allTypes, ∀ b ∈ allTypes, Cell.handles parallelCell a b = false → parallelCell a b = .raise "NotImplementedError") := by decide
theorem orthogonal_dispatch : (∀ p ∈ docPairs, Cell.handles orthogonalCell p.1 p.2 = true) ∧
    (∀ a ∈ allTypes, ∀ b ∈ allTypes, Cell.handles orthogonalCell a b = false → orthogonalCell a b = .raise "NotImplementedError") := by decide
end G3D.Props.C11
