import G3D.Proofs.Move
import G3D.Proofs.Move2
import G3D.Proofs.MoveReturned
import G3D.Proofs.MovePolyhedron
import G3D.Proofs.BridgeExact
import G3D.Proofs.Euler5
/-! # C07 — `move` translates the object in place and keeps it self-consistent
    `x.move v` is modelled as a function returning (receiver after the call, returned object), WITH the cached
    derived fields of the code (carrier line of Segment / HalfLine, plane and centre of ConvexPolygon, vertex / edge /
    pyramid sets of ConvexPolyhedron) updated exactly as the code updates them.
    Full for Point, Line, Plane, Segment, HalfLine (histories of any length); ConvexPolygon: vertices, validity, membership,
    measures, histories, returned == receiver (K6: re-sorting a sorted cycle is the identity); ConvexPolyhedron: the move
    succeeds (Euler's formula proved), returned = receiver, Valid and `ExactHyp` again, membership translated, measures kept. -/
namespace G3D.Props.C07
open G3D V3

/-! ### the five flat types: well-formed, denotes the translated set, returned = receiver, round trip, histories -/
theorem line_move (l : Line) (hl : l.WF) (v : V3) :
    ((l.move v).1.WF ∧ (l.move v).2 = (l.move v).1) ∧ (∀ x, (l.move v).1.den (add x v) ↔ l.den x) ∧
    ((l.move v).1.move (neg v)).1 = l :=
  ⟨Line.move_WF l hl v, fun x => Line.move_den l v x, Line.move_back l v⟩
theorem plane_move (p : Plane) (v : V3) :
    (∀ x, (p.move v).1.den (add x v) ↔ p.den x) ∧ ((p.move v).1.move (neg v)).1 = p :=
  ⟨fun x => Plane.move_den p v x, Plane.move_back p v⟩
/-- Segment: the cached carrier line is rebuilt (on the pinned tree it was left stale: D2) -/
theorem segment_move (s : Seg) (hs : s.WF) (v : V3) :
    ((s.move v).1.WF ∧ (s.move v).2 = (s.move v).1) ∧ (s.move v).1 = Seg.mk' (add s.a v) (add s.b v) ∧
    (∀ x, (s.move v).1.den (add x v) ↔ s.den x) ∧ ((s.move v).1.move (neg v)).1 = s ∧ (s.move v).1.lenSq = s.lenSq :=
  ⟨Seg.move_WF s hs v, Seg.move_eq_fresh s v, fun x => Seg.move_den s v x, Seg.move_back s hs v, Seg.move_lenSq s v⟩
theorem halfline_move (h : HalfLine) (hh : h.WF) (v : V3) :
    ((h.move v).1.WF ∧ (h.move v).2 = (h.move v).1) ∧ (h.move v).1 = HalfLine.mk' (add h.p v) h.v ∧
    (∀ x, (h.move v).1.den (add x v) ↔ h.den x) ∧ ((h.move v).1.move (neg v)).1 = h :=
  ⟨HalfLine.move_WF h hh v, HalfLine.move_eq_fresh h v, fun x => HalfLine.move_den h v x, HalfLine.move_back h hh v⟩

/-- **histories**: after ANY sequence of moves the receiver is exactly the object moved once by the sum of the
    vectors — i.e. the object freshly constructed at the translated position; every query is a function of the
    object, hence gives the same answer -/
theorem histories_flat (vs : List V3) :
    (∀ p : V3, vs.foldl (fun r v => (Point.move r v).1) p = (Point.move p (vs.foldl add zero)).1) ∧
    (∀ l : Line, vs.foldl (fun r v => (r.move v).1) l = (l.move (vs.foldl add zero)).1) ∧
    (∀ p : Plane, vs.foldl (fun r v => (r.move v).1) p = (p.move (vs.foldl add zero)).1) ∧
    (∀ s : Seg, s.WF → vs.foldl (fun r v => (r.move v).1) s = (s.move (vs.foldl add zero)).1) ∧
    (∀ h : HalfLine, h.WF → vs.foldl (fun r v => (r.move v).1) h = (h.move (vs.foldl add zero)).1) :=
  ⟨fun p => Point.moves_fold p vs, fun l => Line.moves_fold l vs, fun p => Plane.moves_fold p vs,
   fun s hs => Seg.moves_fold_eq s hs vs, fun h hh => HalfLine.moves_fold h hh vs⟩

/-! ### ConvexPolygon -/
/-- the vertex cycle is translated in order; the recomputed plane keeps the polygon Valid; membership commutes with
    the translation; edge lengths are unchanged and so is the area (areaNum² / n·n) -/
theorem polygon_move (P : Polygon) (hv : P.Valid) (v : V3) :
    (P.move v).1.pts = P.pts.map (fun p => add p v) ∧ (P.move v).1.Valid ∧
    (∀ x, (P.move v).1.contains (add x v) = P.contains x) ∧
    (P.move v).1.edgeLenSqs = P.edgeLenSqs ∧ ((P.move v).1.move (neg v)).1.pts = P.pts :=
  ⟨Polygon.move_pts P v, Polygon.move_valid P hv v, fun x => Polygon.move_contains P hv v x,
   Polygon.move_edgeLenSqs P v, Polygon.move_back_pts P v⟩

theorem polygon_move_area (P : Polygon) (hv : P.Valid)
    (hc : ∀ e ∈ closedPairs P.pts, 0 ≤ orient P.plane.n e.1 e.2 P.center) (v : V3) :
    (P.move v).1.areaNum ^ 2 * normSq P.plane.n = P.areaNum ^ 2 * normSq (P.move v).1.plane.n :=
  Polygon.move_area_sq P hv hc v

theorem polygon_histories (P : Polygon) (hg : P.Good) (v : V3) (vs : List V3) :
    (v :: vs).foldl (fun r v => (r.move v).1) P = (P.move ((v :: vs).foldl add zero)).1 :=
  Polygon.moves_fold P hg v vs

/-- the returned polygon is the constructor applied to the translated cycle, and the constructor commutes with
    translations (rejections included) -/
theorem polygon_returned_partial (P : Polygon) (hg : P.Good) (v : V3) :
    (P.move v).2 = (Polygon.mk? P.pts).map (fun Q => Q.translate v) := Polygon.move_returned P hg v

/-! ### ConvexPolyhedron (partial) -/
theorem polyhedron_returned_eq_receiver_partial (B : Polyhedron) (v : V3) (B' R : Polyhedron)
    (h : B.move v = .ok (B', R)) : R = B' := Polyhedron.move_returned_eq_receiver B v B' R h

/-- the pinned behaviour (stale carrier line) breaks well-formedness: D2 witness -/
theorem pinned_segment_move_was_wrong : ∃ s : Seg, s.WF ∧ ∃ v, ¬ (s.movePinned v).1.WF := Seg.movePinned_breaks_WF

/-- ConvexPolygon: the returned polygon IS the receiver after the move (field by field) -/
theorem polygon_returned_eq_receiver (P : Polygon) (hv : P.Valid) (v : V3) : (P.move v).2 = .ok (P.move v).1 :=
  Polygon.move_returned_eq_receiver P hv v


/-! ### ConvexPolyhedron -/
/-- a successful move of a Valid polyhedron: returned = receiver, which is Valid again and whose membership test is the
    translated one -/
theorem polyhedron_move (B : Polyhedron) (hV : B.Valid) (v : V3) (B' R : Polyhedron) (h : B.move v = .ok (B', R)) :
    R = B' ∧ B'.Valid ∧ (∀ x, B'.contains (add x v) = B.contains x) := by
  obtain ⟨h1, _, h3, h4⟩ := Polyhedron.move_ok_valid B hV v B' R h
  exact ⟨h1, h3, h4⟩
/-- … and the move does succeed (given Euler's formula for the body, which the constructor had checked) -/
theorem polyhedron_move_succeeds (B : Polyhedron) (hV : B.Valid)
    (hEuler : ((collectVerts B.faces).length : Int) - (edgesOf B.faces []).length + B.faces.length = 2) (v : V3) :
    B.move v = .ok (B.moved v, B.moved v) := Polyhedron.move_valid_ok B hV hEuler v


/-- a moved polyhedron (Valid, no coplanar neighbours) again meets the hypotheses of the exactness theorems, so every
    flat / polygon intersection query on the moved receiver and on the returned object is exact for the translated set -/
theorem polyhedron_move_keeps_exactness (B : Polyhedron) (hV : B.Valid) (hloc : B.FaceLocal) (v : V3)
    (B' R : Polyhedron) (h : B.move v = .ok (B', R)) : B'.ExactHyp ∧ R.ExactHyp :=
  Polyhedron.move_ok_exactHyp B hV hloc v B' R h


/-- … and Euler's formula is proved for bodies without coplanar neighbouring faces, so the move of such a body always succeeds -/
theorem polyhedron_move_always_succeeds (B : Polyhedron) (hV : B.Valid) (hloc : B.FaceLocal)
    (hnd : (dirEdges (B.faces.map (·.pts))).Nodup) (v : V3) : B.move v = .ok (B.moved v, B.moved v) :=
  polyhedron_move_succeeds B hV (Polyhedron.euler B hV hloc hnd) v

end G3D.Props.C07
