import G3D.Proofs.PlaneForms
import G3D.Proofs.Forms2
/-! # C17 — Plane and Line forms round-trip to the same object
    All forms of the statement are proved on the model (full). -/
namespace G3D.Props.C17
open G3D V3

/-- `Plane(a, b, c, d)` is constructed for every `(a, b, c) ≠ 0` — including zero leading coefficients — and
    contains exactly the points with `a x + b y + c z = d` -/
theorem general_form_contains_iff (a b c d : Rat) (hn : (⟨a, b, c⟩ : V3) ≠ zero) :
    ∃ P, Plane.ofGF a b c d = .ok P ∧ P.n = ⟨a, b, c⟩ ∧
      ∀ x : V3, P.den x ↔ a * x.x + b * x.y + c * x.z = d := plane_gf_contains_iff a b c d hn

/-- `Plane(*P.general_form()) == P` -/
theorem general_form_roundtrip (P : Plane) (hP : P.WF) :
    ∃ Q, Plane.ofGF P.generalForm.1 P.generalForm.2.1 P.generalForm.2.2.1 P.generalForm.2.2.2 = .ok Q ∧
      Q.eqv P = true := plane_gf_roundtrip P hP

/-- a plane through three (non-collinear) points contains them -/
theorem three_points_contained (a b c : V3) (P : Plane) (h : Plane.ofPoints a b c = .ok P) :
    P.den a ∧ P.den b ∧ P.den c ∧ P.WF := plane_3pt_contains a b c P h

/-- `-P` has the opposite normal and the same points -/
theorem neg_plane (P : Plane) : (∀ x, P.neg.den x ↔ P.den x) ∧ P.neg.n = V3.neg P.n := plane_neg P

/-- `Plane(Point(u), v, w)` with `(u, v, w) = P.parametric()` equals `P`; `v`, `w` are orthogonal to the normal
    (parallel to the plane), orthogonal to each other and linearly independent — for EVERY normal, whatever its zero pattern
    (through the two solver calls of the code) -/
theorem parametric_roundtrip (P : Plane) (hP : P.WF) :
    ∃ u v w, P.parametric = .ok (u, v, w) ∧ u = P.p ∧ dot v P.n = 0 ∧ dot w P.n = 0 ∧ dot v w = 0 ∧
      cross v w ≠ zero ∧ ∃ Q, Plane.ofPVV u v w = .ok Q ∧ Q.eqv P = true ∧ ∀ x, Q.den x ↔ P.den x :=
  plane_param_roundtrip P hP

/-- `Plane(Point(p), n)` with `(p, n) = P.point_normal()` is `P` -/
theorem point_normal_roundtrip (P : Plane) (hP : P.WF) :
    ∃ Q, Plane.ofPN P.pointNormal.1 P.pointNormal.2 = .ok Q ∧ Q = P := plane_pn_roundtrip P hP

/-- `Line(p, q)` and `Line(p, q - p)` are the same line, through `p` and `q` -/
theorem line_forms (p q : V3) (h : p ≠ q) :
    ∃ l1 l2, Line.ofPoints? p q = .ok l1 ∧ Line.mk? p (sub q p) = .ok l2 ∧ l1 = l2 ∧ l1.WF ∧ l1.den p ∧ l1.den q :=
  line_forms_agree p q h

/-- `Line(*l.parametric())` reproduces `l` -/
theorem line_parametric_roundtrip (l : Line) (hl : l.WF) : Line.mk? l.parametric.1 l.parametric.2 = .ok l :=
  line_param_roundtrip l hl

/-- non-vacuity, zero leading coefficient (the D5 witness): `Plane(0, 1, 2, 3)` is constructed -/
example : ∃ P, Plane.ofGF 0 1 2 3 = .ok P := by
  obtain ⟨P, h, _⟩ := general_form_contains_iff 0 1 2 3 (by decide)
  exact ⟨P, h⟩
end G3D.Props.C17
