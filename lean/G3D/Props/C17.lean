import G3D.Proofs.PlaneForms
/-! # C17 — Plane and Line forms round-trip to the same object
    (parametric form and the line forms are added from G3D/Proofs/Forms2 when present) -/
namespace G3D.Props.C17
open G3D V3

/-- `Plane(a, b, c, d)` is constructed for every `(a, b, c) ≠ 0` — including zero leading coefficients — and
    contains exactly the points with `a x + b y + c z = d` -/
theorem general_form_contains_iff (a b c d : Rat) (hn : (⟨a, b, c⟩ : V3) ≠ zero) :
    ∃ P, Plane.ofGF a b c d = .ok P ∧ P.n = ⟨a, b, c⟩ ∧
      ∀ x : V3, P.den x ↔ a * x.x + b * x.y + c * x.z = d := plane_gf_contains_iff a b c d hn

/-- `Plane(*P.general_form()) == P` -/
theorem general_form_roundtrip (P : Plane) (hP : P.WF) :
    ∃ Q, Plane.ofGF P.generalForm.1 P.generalForm.2.1 P.generalForm.2.2.1 P.generalForm.2.2.2 = .ok Q ∧
      Q.eqv P = true := plane_gf_roundtrip P hP

/-- a plane through three (non-collinear) points contains them -/
theorem three_points_contained (a b c : V3) (P : Plane) (h : Plane.ofPoints a b c = .ok P) :
    P.den a ∧ P.den b ∧ P.den c ∧ P.WF := plane_3pt_contains a b c P h

/-- `-P` has the opposite normal and the same points -/
theorem neg_plane (P : Plane) : (∀ x, P.neg.den x ↔ P.den x) ∧ P.neg.n = V3.neg P.n := plane_neg P

/-- non-vacuity, zero leading coefficient (the D5 witness): `Plane(0, 1, 2, 3)` is constructed -/
example : ∃ P, Plane.ofGF 0 1 2 3 = .ok P := by
  obtain ⟨P, h, _⟩ := general_form_contains_iff 0 1 2 3 (by decide)
  exact ⟨P, h⟩
end G3D.Props.C17
