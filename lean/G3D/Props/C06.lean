import G3D.Proofs.Volume
import G3D.Proofs.FlatPolygon
import G3D.Proofs.Heron
/-! # C06 — length, area and volume are the exact measures  (full relative to the shoelace / surface-integral
    definitions; their identification with Lebesgue measure is classical and not formalised)
    The model keeps rational numerators: area = areaNum / (2·|n|), pyramid volume = heightNum·areaNum/(6 n·n). -/
namespace G3D.Props.C06
open G3D V3

/-- **area**: for a Valid polygon whose stored centre is the vertex mean, the code's fan of triangle areas
    (absolute value per triangle, Heron in the code) sums to the shoelace value `n · Σ pᵢ × pᵢ₊₁` — the exact
    area times `2|n|` — independently of the fan centre -/
theorem polygon_area_is_shoelace (P : Polygon) (hv : P.Valid) (hc : P.center = meanV P.pts) :
    P.areaNum = dot P.plane.n (vecArea2 P.pts) := by
  obtain ⟨p0, p1, p2, rest, hp, hpl, htp⟩ := hv
  unfold Polygon.areaNum vecArea2
  rw [hc, hp]
  rw [hp] at hpl htp
  exact polygon_area_shoelace _ _ p0 p1 p2 rest hpl htp

/-- the signed fan sum does not depend on the fan centre at all -/
theorem fan_centre_independent (n c c' : V3) (l : List V3) :
    ((closedPairs l).map (fun e => dot n (cross (sub e.1 c) (sub e.2 c)))).sum =
    ((closedPairs l).map (fun e => dot n (cross (sub e.1 c') (sub e.2 c')))).sum := by
  rw [fan_sum_eq_shoelace, fan_sum_eq_shoelace]

/-- **volume, closed surface**: the vector areas of the faces of a closed surface sum to zero … -/
theorem closed_surface_vector_area_zero (fs : List (List V3)) (hc : ClosedSurface fs) :
    vsum (fs.map vecArea2) = zero := closed_vecArea_zero fs hc

/-- … hence the surface-integral volume `⅙ Σ_faces (p₀ − q)·A_f` is the same for every reference point `q`
    (the code uses the vertex centroid as apex of its pyramids) -/
theorem volume_reference_independent (fs : List (List V3)) (hc : ClosedSurface fs) (q q' : V3) :
    vol6 fs q = vol6 fs q' := vol6_ref_independent fs hc q q'

/-- per face the code's `h·A/3` (height numerator × fan area numerator / n·n) is the absolute cone term
    `|(apex − p₀)·A_f|` of that surface integral -/
theorem pyramid_volume_term (n pl : V3) (p0 p1 p2 : V3) (rest : List V3)
    (hpl : ∀ p ∈ p0 :: p1 :: p2 :: rest, inPlane n pl p = true)
    (htp : triplesPos n (p0 :: p1 :: p2 :: rest)) (apex : V3) :
    absQ (dot (sub apex p0) n) *
        ((closedPairs (p0 :: p1 :: p2 :: rest)).map
          (fun e => triNum n (meanV (p0 :: p1 :: p2 :: rest)) e.1 e.2)).sum / normSq n =
      absQ (dot (sub apex p0) (vecArea2 (p0 :: p1 :: p2 :: rest))) :=
  pyramid_term n pl p0 p1 p2 rest hpl htp apex

/-- the vertex mean of a polygon lies in its hull (so every fan triangle is positively oriented) -/
theorem centre_in_hull (l : List V3) (hl : l ≠ []) : InHull l (meanV l) := mean_in_hull l hl
/-- the code evaluates each triangle by Heron's formula from the three side lengths; over ℝ that value is half the
    length of the cross product — the form the model's `triNum` uses -/
theorem heron_is_half_cross (u v : V3) :
    let a := Real.sqrt ((normSq u : ℚ) : ℝ)
    let b := Real.sqrt ((normSq v : ℚ) : ℝ)
    let c := Real.sqrt ((normSq (sub u v) : ℚ) : ℝ)
    let s := (a + b + c) / 2
    Real.sqrt (s * (s - a) * (s - b) * (s - c)) = (1/2) * Real.sqrt ((normSq (cross u v) : ℚ) : ℝ) :=
  heron_area_V3 u v
end G3D.Props.C06
