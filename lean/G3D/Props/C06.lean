import G3D.Proofs.Volume
import G3D.Proofs.FlatPolygon
import G3D.Proofs.Heron
import G3D.Proofs.MeasBody
import G3D.Proofs.MeasMove
/-! # C06 — length, area and volume are the exact measures  (full relative to the shoelace / surface-integral
    definitions; their identification with Lebesgue measure is classical and not formalised)
    The model keeps rational numerators: area = areaNum / (2·|n|), pyramid volume = heightNum·areaNum/(6 n·n). -/
namespace G3D.Props.C06
open G3D V3

/-- **area**: for a Valid polygon whose stored centre is the vertex mean, the code's fan of triangle areas
    (absolute value per triangle, Heron in the code) sums to the shoelace value `n · Σ pᵢ × pᵢ₊₁` — the exact
    area times `2|n|` — independently of the fan centre -/
theorem polygon_area_is_shoelace (P : Polygon) (hv : P.Valid) (hc : P.center = meanV P.pts) :
    P.areaNum = dot P.plane.n (vecArea2 P.pts) := by
  obtain ⟨p0, p1, p2, rest, hp, hpl, htp⟩ := hv
  unfold Polygon.areaNum vecArea2
  rw [hc, hp]
  rw [hp] at hpl htp
  exact polygon_area_shoelace _ _ p0 p1 p2 rest hpl htp

/-- the signed fan sum does not depend on the fan centre at all -/
theorem fan_centre_independent (n c c' : V3) (l : List V3) :
    ((closedPairs l).map (fun e => dot n (cross (sub e.1 c) (sub e.2 c)))).sum =
    ((closedPairs l).map (fun e => dot n (cross (sub e.1 c') (sub e.2 c')))).sum := by
  rw [fan_sum_eq_shoelace, fan_sum_eq_shoelace]

/-- **volume, closed surface**: the vector areas of the faces of a closed surface sum to zero … -/
theorem closed_surface_vector_area_zero (fs : List (List V3)) (hc : ClosedSurface fs) :
    vsum (fs.map vecArea2) = zero := closed_vecArea_zero fs hc

/-- … hence the surface-integral volume `⅙ Σ_faces (p₀ − q)·A_f` is the same for every reference point `q`
    (the code uses the vertex centroid as apex of its pyramids) -/
theorem volume_reference_independent (fs : List (List V3)) (hc : ClosedSurface fs) (q q' : V3) :
    vol6 fs q = vol6 fs q' := vol6_ref_independent fs hc q q'

/-- per face the code's `h·A/3` (height numerator × fan area numerator / n·n) is the absolute cone term
    `|(apex − p₀)·A_f|` of that surface integral -/
theorem pyramid_volume_term (n pl : V3) (p0 p1 p2 : V3) (rest : List V3)
    (hpl : ∀ p ∈ p0 :: p1 :: p2 :: rest, inPlane n pl p = true)
    (htp : triplesPos n (p0 :: p1 :: p2 :: rest)) (apex : V3) :
    absQ (dot (sub apex p0) n) *
        ((closedPairs (p0 :: p1 :: p2 :: rest)).map
          (fun e => triNum n (meanV (p0 :: p1 :: p2 :: rest)) e.1 e.2)).sum / normSq n =
      absQ (dot (sub apex p0) (vecArea2 (p0 :: p1 :: p2 :: rest))) :=
  pyramid_term n pl p0 p1 p2 rest hpl htp apex

/-- the vertex mean of a polygon lies in its hull (so every fan triangle is positively oriented) -/
theorem centre_in_hull (l : List V3) (hl : l ≠ []) : InHull l (meanV l) := mean_in_hull l hl
/-- the code evaluates each triangle by Heron's formula from the three side lengths; over ℝ that value is half the
    length of the cross product — the form the model's `triNum` uses -/
theorem heron_is_half_cross (u v : V3) :
    let a := Real.sqrt ((normSq u : ℚ) : ℝ)
    let b := Real.sqrt ((normSq v : ℚ) : ℝ)
    let c := Real.sqrt ((normSq (sub u v) : ℚ) : ℝ)
    let s := (a + b + c) / 2
    Real.sqrt (s * (s - a) * (s - b) * (s - c)) = (1/2) * Real.sqrt ((normSq (cross u v) : ℚ) : ℝ) :=
  heron_area_V3 u v

/-! ### "whatever the order of the vertices, the order of the faces or the orientation of their normals" -/
/-- **polygon, order of the input**: two constructor calls on the same point set (any order, repetitions, either `reverse`
    flag; points in strictly convex position) store polygons with the same squared area `areaNum² / (4 n·n)`, the same
    multiset of squared edge lengths (hence the same perimeter), the same centre and the same vertex set -/
theorem polygon_measures_input_order (i1 i2 : List V3) (rev1 rev2 : Bool) (P1 P2 : Polygon)
    (hset : ∀ p, p ∈ i1 ↔ p ∈ i2) (hx : StrictConvexPos (dedupV i1))
    (h1 : Polygon.mk? i1 rev1 = .ok P1) (h2 : Polygon.mk? i2 rev2 = .ok P2) :
    P1.areaSq = P2.areaSq ∧ List.Perm P1.edgeLenSqs P2.edgeLenSqs ∧ P1.center = P2.center ∧
      (∀ p, p ∈ P1.pts ↔ p ∈ P2.pts) := Polygon.mk?_measures_input_order i1 i2 rev1 rev2 P1 P2 hset hx h1 h2

/-- the squared area of a constructed polygon is |½ Σ pᵢ × pᵢ₊₁|² — a function of the vertex cycle only -/
theorem polygon_area_sq_is_vector_area (input : List V3) (rev : Bool) (P : Polygon) (h : Polygon.mk? input rev = .ok P)
    (hx : StrictConvexPos (dedupV input)) : P.areaSq = normSq (vecArea2 P.pts) / 4 := Polygon.mk?_areaSq input rev P h hx

/-- `-P` has the same area and edge lengths -/
theorem neg_polygon_measures (P : Polygon) (hv : P.Valid) (hc : P.CentreInside) (Q : Polygon) (h : P.neg? = .ok Q) :
    Q.areaSq = P.areaSq ∧ List.Perm Q.edgeLenSqs P.edgeLenSqs := by
  obtain ⟨_, _, ha, he, _⟩ := Polygon.neg?_measures P hv hc Q h
  exact ⟨ha, he⟩

/-- **polyhedron, order of the faces and orientation of their normals**: two constructions from the faces of the same Valid
    body — any face order, any start vertex, either orientation of each face — have the same volume, the same multiset of
    squared edge lengths, the same multiset of squared face areas and the same centre -/
theorem polyhedron_measures_order_orientation (B0 : Polyhedron) (hV : B0.Valid)
    (F1 F2 input1 input2 : List Polygon)
    (hperm1 : List.Perm F1 B0.faces) (hrel1 : List.Forall₂ Reoriented F1 input1)
    (hperm2 : List.Perm F2 B0.faces) (hrel2 : List.Forall₂ Reoriented F2 input2)
    (hc1 : ∀ g ∈ input1, g.CentreInside) (hc2 : ∀ g ∈ input2, g.CentreInside)
    (B1 B2 : Polyhedron) (h1 : Polyhedron.mk? input1 = .ok B1) (h2 : Polyhedron.mk? input2 = .ok B2) :
    B1.volume = B2.volume ∧ List.Perm B1.edgeLenSqs B2.edgeLenSqs ∧
    List.Perm (B1.faces.map Polygon.areaSq) (B2.faces.map Polygon.areaSq) ∧ B1.center = B2.center :=
  Polyhedron.mk?_reoriented_measures_two B0 hV F1 F2 input1 input2 hperm1 hrel1 hperm2 hrel2 hc1 hc2 B1 B2 h1 h2

/-- **volume = surface integral**: the pyramid sum of a constructed body is `⅙ Σ_faces (p₀ − q)·A_f` for EVERY reference
    point q (all cone terms about the interior centre have the same sign), and it is the surface integral of the reference
    body's faces whatever the input order / orientation -/
theorem polyhedron_volume_is_surface_integral (B0 : Polyhedron) (hV : B0.Valid) (F input : List Polygon)
    (hperm : List.Perm F B0.faces) (hrel : List.Forall₂ Reoriented F input)
    (hc : ∀ g ∈ input, g.CentreInside) (B : Polyhedron) (h : Polyhedron.mk? input = .ok B) (q : V3) :
    B.volume = vol6 (B0.faces.map (·.pts)) q / 6 ∧ B.volume = vol6 (B.faces.map (·.pts)) q / 6 ∧ 0 ≤ B.volume := by
  obtain ⟨hBV, hBS, hvol, _⟩ := Polyhedron.mk?_reoriented_measures B0 hV F input hperm hrel hc B h
  obtain ⟨h1, h2⟩ := Polyhedron.volume_eq_surface_integral B hBV hBS q
  refine ⟨hvol q, h1, ?_⟩
  rw [h1]; exact div_nonneg h2 (by norm_num)

/-- any constructor call on the vertex set of a face, in any order, gives an admissible input face for the theorems above -/
theorem face_from_any_vertex_order (f : Polygon) (hf : f.Valid) (i : List V3) (rev : Bool) (g : Polygon)
    (hset : ∀ p, p ∈ i ↔ p ∈ f.pts) (h : Polygon.mk? i rev = .ok g) : Reoriented f g ∧ g.CentreInside :=
  Reoriented.of_mk? f hf i rev g hset h

/-- measures of a moved polyhedron: edge lengths, face areas and volume are those of the original -/
theorem polyhedron_moved_measures (B : Polyhedron) (hV : B.Valid) (hctr : ∀ f ∈ B.faces, f.CentreInside) (v : V3) :
    (B.moved v).edgeLenSqs = (edgesOf B.faces []).map Seg.lenSq ∧
    (B.moved v).faces.map Polygon.areaSq = B.faces.map Polygon.areaSq ∧
    (∀ q, (B.moved v).volume = vol6 (B.faces.map (·.pts)) q / 6) := Polyhedron.moved_measures B hV hctr v
end G3D.Props.C06
